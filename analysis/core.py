"""Rule/verdict plumbing shared by all properties."""
import json
import os
import time

from . import facts
from .facts import AnalysisError, VERIF


class Violation:
    def __init__(self, rule, key, msg, file=None, line=None, details=None):
        self.rule = rule
        self.key = key          # line-free instance key
        self.msg = msg
        self.file = file
        self.line = line
        self.details = details or {}

    def fullkey(self, prop):
        return "%s/%s/%s" % (prop, self.rule, self.key)

    def to_json(self, prop):
        return {"property": prop, "rule": self.rule, "key": self.fullkey(prop), "what": self.msg,
                "file": self.file, "line": self.line, "details": self.details}


class RuleResult:
    """What one rule examined and found."""

    def __init__(self, rule, explanation):
        self.rule = rule
        self.explanation = explanation
        self.instances = []     # list of (key, file, line, verdict, note)
        self.nontrivial = set()
        self.violations = []
        self.notes = []
        self.floor = 0
        self.obligations = 0
        self.discharged = 0
        self.trusted = []

    def inst(self, key, file=None, line=None, verdict="ok", note="", nontrivial=True):
        self.instances.append({"key": key, "file": file, "line": line, "verdict": verdict, "note": note})
        if nontrivial:
            self.nontrivial.add(key)
        self.obligations += 1
        if verdict in ("ok", "audited", "discharged"):
            self.discharged += 1

    def violate(self, key, msg, file=None, line=None, details=None):
        self.violations.append(Violation(self.rule, key, msg, file, line, details))

    def require_floor(self, floor):
        self.floor = floor
        if len(self.instances) < floor:
            raise AnalysisError("rule %s examined %d instances, fewer than the %d confirmed by hand: "
                                "the analysis lost its anchors" % (self.rule, len(self.instances), floor))


class Ctx:
    def __init__(self, tier="quick", root=None):
        self.tier = tier
        self.log = []
        self.fx = facts.load(root, log=self.log)
        self.root = self.fx.root
        self._cache = {}
        self._fixtures = {}

    def fixture(self, name="poscontrol"):
        if name not in self._fixtures:
            self._fixtures[name] = facts.load_fixture(name, log=self.log)
        return self._fixtures[name]

    def memo(self, name, fn):
        if name not in self._cache:
            self._cache[name] = fn()
        return self._cache[name]

    def src(self, relpath):
        p = relpath if os.path.isabs(relpath) else os.path.join(self.root, relpath)
        try:
            with open(p, encoding="utf-8") as f:
                return f.read()
        except OSError:
            raise AnalysisError("anchor file missing: %s" % relpath)


def load_known():
    p = os.path.join(VERIF, "known_findings.json")
    with open(p) as f:
        return json.load(f)


def thorough_extras(prop, ctx):
    """thorough tier: mutant self-test of this property's rules and cross-references with other installed static tools.
    These are recorded in the evidence; they never change the verdict on the tree."""
    import subprocess
    out = {}
    st = os.path.join(VERIF, "bin", "selftest")
    if os.environ.get("VERIF_NO_SELFTEST") != "1" and not os.environ.get("VERIF_REPO"):
        try:
            p = subprocess.run([st, "--prop", prop, "--jobs", "6"], stdout=subprocess.PIPE, stderr=subprocess.STDOUT, text=True, timeout=3600,
                               env=dict(os.environ, VERIF_TIER="quick"))
            lines = [l for l in p.stdout.splitlines() if l[:1].isupper() and not l.startswith(" ")]
            out["selftest"] = {"rc": p.returncode, "results": lines[:80]}
            print("selftest (%s): %s" % (prop, lines[-1] if lines else "no mutants"))
        except Exception as e:       # noqa: BLE001
            out["selftest"] = {"error": str(e)}
    if prop == "C17":
        try:
            env = dict(os.environ, CARGO_NET_OFFLINE="true", CARGO_TARGET_DIR=os.path.join(VERIF, ".cache", "clippy-target"))
            p = subprocess.run(["cargo", "+nightly", "clippy", "--offline", "--workspace", "--quiet", "--", "-A", "clippy::all", "-W", "clippy::iter_over_hash_type"],
                               cwd=ctx.root, env=env, stdout=subprocess.PIPE, stderr=subprocess.STDOUT, text=True, timeout=1800)
            import re
            sites = sorted(set(re.findall(r"--> ([^\s]+):(\d+)", p.stdout)))
            out["clippy_iter_over_hash_type"] = {"rc": p.returncode, "sites": ["%s:%s" % s for s in sites][:40]}
        except Exception as e:       # noqa: BLE001
            out["clippy_iter_over_hash_type"] = {"error": str(e)}
    if prop == "C20":
        try:
            p = subprocess.run(["clang", "--analyze", "-Xanalyzer", "-analyzer-output=text", os.path.join(ctx.root, "lang/driver/infrastructure/io.c"), "-o", "/dev/null"],
                               stdout=subprocess.PIPE, stderr=subprocess.STDOUT, text=True, timeout=600)
            out["clang_analyze_io_c"] = {"rc": p.returncode, "output": p.stdout[-1500:]}
        except Exception as e:       # noqa: BLE001
            out["clang_analyze_io_c"] = {"error": str(e)}
    return out


def run_property(prop, rules, tier, seed, level_text, assumptions):
    """Run the rules of one property, print the verdict protocol, write evidence, return exit code."""
    t0 = time.time()
    evdir = os.environ.get("VERIF_EVIDENCE_DIR") or os.path.join(VERIF, "evidence")
    ev_path = os.path.join(evdir, prop + ".json")
    os.makedirs(os.path.dirname(ev_path), exist_ok=True)
    try:
        os.remove(ev_path)
    except OSError:
        pass
    try:
        ctx = Ctx(tier=tier)
    except AnalysisError as e:
        print("ANALYSIS-ERROR property=%s: %s" % (prop, e))
        return 2
    results = []
    # every rule is run; a rule that cannot follow the code yields no verdict of its own (its partial results are discarded) but
    # does not silence what the other rules decide: a violation found by a rule that completed stands (exit 1), and the check is
    # an analysis error (exit 2, no VIOLATION line) only when no completed rule reports anything
    errors = []
    # a rule gets a time and memory budget: an analysis that does not come back (a fold that follows a loop of the code without
    # bound, say) is an analysis error of that rule, never a check that hangs
    import resource
    import signal
    budget = int(os.environ.get("VERIF_RULE_SECONDS") or (900 if tier == "quick" else 3600))
    old_limit = None
    try:
        soft, hard = resource.getrlimit(resource.RLIMIT_AS)
        cap = int(os.environ.get("VERIF_RULE_GB") or 24) * 2 ** 30
        if soft == resource.RLIM_INFINITY or soft > cap:
            old_limit = (soft, hard)
            resource.setrlimit(resource.RLIMIT_AS, (cap, hard))
    except (ValueError, OSError):
        pass

    class _Budget(Exception):
        pass

    def _alarm(_sig, _frm):
        raise _Budget()
    try:
        signal.signal(signal.SIGALRM, _alarm)
        can_alarm = True
    except ValueError:
        can_alarm = False
    for r in rules:
        try:
            if can_alarm:
                signal.alarm(budget)
            try:
                res = r(ctx)
            finally:
                if can_alarm:
                    signal.alarm(0)
        except _Budget:
            errors.append("rule %s did not finish within %d s: the analysis cannot follow this code" % (getattr(r, "__name__", "?"), budget))
            continue
        except MemoryError:
            errors.append("rule %s exceeded its memory budget: the analysis cannot follow this code" % getattr(r, "__name__", "?"))
            continue
        except AnalysisError as e:
            errors.append("%s" % e)
            continue
        except Exception as e:      # noqa: BLE001 - a defect of the analysis itself is never a verdict about the code
            import traceback
            tb = traceback.format_exc().strip().splitlines()
            errors.append("internal error of the analysis (%s: %s) at %s" % (type(e).__name__, e, tb[-3].strip() if len(tb) >= 3 else "?"))
            continue
        if isinstance(res, list):
            results.extend(res)
        else:
            results.append(res)
    if old_limit is not None:
        try:
            resource.setrlimit(resource.RLIMIT_AS, old_limit)      # the tools the thorough tier starts afterwards are not under the budget
        except (ValueError, OSError):
            pass
    if errors:
        known0 = {k["key"] for k in load_known().get("findings", []) if k.get("status") == "known"}
        if not any(v.fullkey(prop) not in known0 for res in results for v in res.violations):
            for e in errors:
                print("ANALYSIS-ERROR property=%s: %s" % (prop, e))
            return 2
        for e in errors:
            print("ANALYSIS-ERROR (rule skipped) property=%s: %s" % (prop, e))
    known = load_known()
    known_keys = {k["key"]: k for k in known.get("findings", []) if k.get("status") == "known"}
    viols = []
    knowns = []
    for res in results:
        for v in res.violations:
            fk = v.fullkey(prop)
            if fk in known_keys:
                knowns.append((v, known_keys[fk]))
            else:
                viols.append(v)
    rdir = os.path.join(evdir, "replay")
    os.makedirs(rdir, exist_ok=True)
    for v, k in knowns:
        print("KNOWN-FINDING: property=%s %s [%s] %s:%s" % (prop, k.get("what", v.msg), v.fullkey(prop), v.file, v.line))
    for i, v in enumerate(viols):
        rp = os.path.join(rdir, "%s-%d.json" % (prop, i))
        with open(rp, "w") as f:
            json.dump(v.to_json(prop), f, indent=1)
        print("%s:%s: [%s] %s (%s)" % (v.file, v.line, v.rule, v.msg, v.key))
        print("VIOLATION property=%s replay=%s" % (prop, rp))
    extra = {}
    if tier == "thorough":
        extra = thorough_extras(prop, ctx)
    n_inst = sum(len(r.instances) for r in results)
    nontrivial = set()
    for r in results:
        nontrivial |= {(r.rule, k) for k in r.nontrivial}
    samples = []
    for r in results:
        for s in r.instances[:4]:
            samples.append(dict(rule=r.rule, **s))
    per_rule = [{"rule": r.rule, "what": r.explanation, "instances": len(r.instances), "floor": r.floor,
                 "violations": len(r.violations), "notes": r.notes[:40],
                 "all_instances": [i["key"] + ("" if i["verdict"] == "ok" else " [" + i["verdict"] + "]") for i in r.instances][:400]}
                for r in results]
    trusted = sorted({t for r in results for t in r.trusted})
    ev = {
        "property_id": prop, "tier": tier, "seed": seed, "level": "other",
        "coverage": {
            "explanation": level_text,
            "evaluations": n_inst,
            "distinct_nontrivial": len(nontrivial),
            "rule": "one evaluation = one rule instance (a site of /repo's resolved program the rule applies to); "
                    "distinct = distinct (rule, line-free site key); non-trivial = the site carried an obligation "
                    "that had to be decided from the facts (not skipped by a class filter)",
            "obligations": sum(r.obligations for r in results),
            "discharged": sum(r.discharged for r in results),
            "exhaustive": True,
            "samples": samples[:60],
            "rules": per_rule,
            "analysed": {"repo": ctx.root, "tree_digest": ctx.fx.digest, "crates": ctx.fx.crates,
                         "bodies": len(ctx.fx.fns), "adts": len(ctx.fx.adts), "impls": len(ctx.fx.impls)},
            "trusted_base": trusted,
            "known_findings_reported": [v.fullkey(prop) for v, _ in knowns],
            "thorough": extra,
            "log": ctx.log,
        },
        "assumptions": assumptions,
        "wall_s": round(time.time() - t0, 2),
        "violations": len(viols),
    }
    with open(ev_path, "w") as f:
        json.dump(ev, f, indent=1)
    print("property=%s tier=%s rules=%d instances=%d violations=%d known=%d wall=%.1fs" %
          (prop, tier, len(results), n_inst, len(viols), len(knowns), time.time() - t0))
    return 1 if viols else 0
