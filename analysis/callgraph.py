"""Whole-workspace call graph over the extracted facts.

Edges: resolved calls (Instance::try_resolve) -> that body; unresolved trait-method calls -> every workspace impl of the
method + the trait's default body; closure creation -> closure body; fn items used as values -> that fn.
"""
from collections import defaultdict


class CallGraph:
    def __init__(self, fx):
        self.fx = fx
        self.edges = defaultdict(set)       # caller key -> callee keys
        self.sites = defaultdict(list)      # (caller, callee) -> [(bi, term)]
        self.unresolved = []
        # trait method -> impl keys
        self.trait_impls = defaultdict(set)
        for imp in fx.impls:
            tr = imp.get("trait")
            if not tr:
                continue
            for m in imp["methods"]:
                self.trait_impls[(tr, m["name"])].add(m["key"])
        self.ws_crates = set(fx.crates)
        self.adt_foreign_impls = defaultdict(set)
        for imp in fx.impls:
            tr = imp.get("trait")
            if tr and tr.split("::")[0] not in self.ws_crates:
                for adt in {imp.get("self_adt"), imp.get("self_core")}:
                    if adt:
                        for m in imp["methods"]:
                            self.adt_foreign_impls[adt].add(m["key"])
        # bodies keyed by impl_trait + name as a fallback (covers keys with #n suffix)
        for k, f in fx.fns.items():
            if f.get("impl_trait") and f.get("name"):
                self.trait_impls[(f["impl_trait"], f["name"])].add(k)
        for k, f in fx.fns.items():
            if "{promoted#" in k:
                # promoted bodies belong to their parent
                continue
            self._scan(k, f)

    def _add(self, a, b, bi=None, t=None):
        self.edges[a].add(b)
        if t is not None:
            self.sites[(a, b)].append((bi, t))

    def _scan(self, k, f):
        fx = self.fx
        for bi, b in enumerate(f["blocks"]):
            for s in b["stmts"]:
                if s["k"] != "assign":
                    continue
                rv = s["rv"]
                if rv["k"] == "agg" and rv.get("closure"):
                    self._closure(k, rv["closure"])
                for o in _rv_operands(rv):
                    if o.get("k") == "const":
                        if "fn" in o:
                            self._fnitem(k, o)
                        if "closure" in o:
                            self._closure(k, o["closure"])
            t = b["term"]
            if t["k"] != "call":
                continue
            for a in t["args"]:
                if a.get("k") == "const":
                    if "fn" in a:
                        self._fnitem(k, a)
                    if "closure" in a:
                        self._closure(k, a["closure"])
            self._escape(k, f, t)
            rk, ck = t.get("resolved_key"), t.get("callee_key")
            if rk and rk in fx.fns:
                self._add(k, rk, bi, t)
            elif ck and ck in fx.fns and not t.get("callee_trait"):
                self._add(k, ck, bi, t)
            elif t.get("callee_trait"):
                tr, nm = t["callee_trait"], t.get("callee_name")
                targets = set(self.trait_impls.get((tr, nm), ()))
                if ck in fx.fns:
                    targets.add(ck)     # default body
                if rk and not targets:
                    pass                # resolved to a foreign impl
                if targets and not rk:
                    self.unresolved.append((k, bi, tr, nm, len(targets)))
                    for x in targets:
                        self._add(k, x, bi, t)
                elif targets and rk and rk not in fx.fns:
                    # resolved but key mismatch (e.g. #n suffix): be conservative
                    for x in targets:
                        self._add(k, x, bi, t)

    def _escape(self, k, f, t):
        """A workspace ADT handed to a foreign generic callee: the callee may call any foreign-trait impl of that ADT
        (lalrpop's ParserDefinition callbacks, Display::fmt through fmt::Argument, Iterator::next of an adapter, ...)."""
        c = t.get("callee") or ""
        if not c or c.split("::")[0] in self.ws_crates:
            return
        for a in t["args"]:
            if a.get("k") not in ("copy", "move"):
                continue
            loc = f["locals"][a["pl"]["l"]]
            for adt in {loc.get("adt"), loc.get("core")}:
                if adt and adt.split("::")[0] in self.ws_crates:
                    for m in self.adt_foreign_impls.get(adt, ()):
                        self._add(k, m)

    def _closure(self, k, cpath):
        # closure def path -> key: closures are keyed <parent key>::{closure#n}; match by path
        for f in self.fx.by_path.get(cpath, []):
            if "{promoted#" not in f["key"]:
                self._add(k, f["key"])

    def _fnitem(self, k, o):
        p = o.get("fn_res") or o["fn"]
        for f in self.fx.by_path.get(p, []):
            if "{promoted#" not in f["key"]:
                self._add(k, f["key"])

    def reachable(self, entries, stop=None, crates=None):
        """Nodes reachable from entries. `crates`: restrict to bodies of these crates (a crate can only run code of its
        dependency closure, which prunes the over-approximation of unresolved blanket-impl dispatch)."""
        seen = {}
        work = [(e, None) for e in entries]
        while work:
            n, parent = work.pop()
            if n in seen:
                continue
            seen[n] = parent
            if stop and stop(n):
                continue
            for m in self.edges.get(n, ()):
                if crates is not None and self.fx.fns[m]["crate"] not in crates:
                    continue
                if m not in seen:
                    work.append((m, n))
        return seen

    def path_to(self, seen, n):
        p = []
        while n is not None:
            p.append(n)
            n = seen.get(n)
        return list(reversed(p))


def _rv_operands(rv):
    for k in ("op", "a", "b"):
        o = rv.get(k)
        if isinstance(o, dict):
            yield o
    for o in rv.get("ops", []):
        yield o


def get(ctx):
    return ctx.memo("callgraph", lambda: CallGraph(ctx.fx))
