"""C front end for the runtime files: clang's JSON AST + an interval abstract interpreter with path splitting.

Scalars are intervals over mathematical integers tagged with their C type; signed arithmetic that can leave the type's range
is reported (undefined behaviour), unsigned arithmetic wraps (the state is split at the wrap point).  Pointers into a local
array are (array, offset interval).  `do..while` loops are unrolled (bounded); branches split the state and refine."""
import json
import os
import subprocess

from .facts import AnalysisError

TYPES = {
    "int64_t": (True, 64), "long": (True, 64), "long long": (True, 64), "ssize_t": (True, 64), "intptr_t": (True, 64), "ptrdiff_t": (True, 64),
    "uint64_t": (False, 64), "unsigned long": (False, 64), "size_t": (False, 64), "unsigned long long": (False, 64),
    "int": (True, 32), "unsigned int": (False, 32), "uint32_t": (False, 32), "int32_t": (True, 32),
    "char": (True, 8), "unsigned char": (False, 8), "bool": (False, 1), "_Bool": (False, 1), "short": (True, 16),
}


def clang_ast(path, include_dirs=()):
    cmd = ["clang", "-fsyntax-only", "-Xclang", "-ast-dump=json"] + ["-I" + d for d in include_dirs] + [path]
    p = subprocess.run(cmd, stdout=subprocess.PIPE, stderr=subprocess.PIPE, text=True)
    if p.returncode != 0 or not p.stdout.strip():
        raise AnalysisError("clang could not parse %s: %s" % (path, p.stderr[-1500:]))
    return json.loads(p.stdout)


def functions(ast):
    out = {}
    for n in ast.get("inner", []):
        if n.get("kind") == "FunctionDecl":
            body = [c for c in n.get("inner", []) if c.get("kind") == "CompoundStmt"]
            if body:
                out[n["name"]] = n
            else:
                out.setdefault("decl:" + n["name"], n)
    return out


def tyinfo(q):
    q = q.replace("const ", "").strip()
    if q in TYPES:
        return TYPES[q]
    return None


def trange(t):
    signed, bits = t
    if signed:
        return -(1 << (bits - 1)), (1 << (bits - 1)) - 1
    return 0, (1 << bits) - 1


class Val:
    def __init__(self, lo, hi, ty):
        self.lo, self.hi, self.ty = lo, hi, ty

    def __repr__(self):
        return "[%d, %d]:%s%d" % (self.lo, self.hi, "i" if self.ty[0] else "u", self.ty[1])


class Ptr:
    def __init__(self, base, lo, hi):
        self.base, self.lo, self.hi = base, lo, hi

    def __repr__(self):
        return "&%s[%d..%d]" % (self.base, self.lo, self.hi)


class State:
    def __init__(self):
        self.vars = {}
        self.arrays = {}
        self.rel = {}       # var -> ('div', othervar, c, version-of-othervar)
        self.copy_of = {}   # src var -> dst var holding a copy of src's current value
        self.ver = {}
        self.trace = []

    def copy(self):
        s = State()
        s.vars = dict(self.vars)
        s.arrays = dict(self.arrays)
        s.rel = dict(self.rel)
        s.copy_of = dict(self.copy_of)
        s.ver = dict(self.ver)
        s.trace = list(self.trace)
        return s

    def set(self, name, v):
        self.vars[name] = v
        self.ver[name] = self.ver.get(name, 0) + 1
        for k in [k for k, r in self.rel.items() if r[1] == name or k == name]:
            self.rel.pop(k, None)
        for k in [k for k, d in self.copy_of.items() if d == name]:
            self.copy_of.pop(k, None)


class Analysis:
    def __init__(self, fname):
        self.fname = fname
        self.obligations = []       # (kind, ok, message, line)
        self.events = []            # write calls
        self.paths = 0

    def ob(self, kind, ok, msg, node):
        line = (node.get("loc", {}) or {}).get("line") or (node.get("range", {}).get("begin", {}) or {}).get("line")
        self.obligations.append((kind, ok, msg, line))

    # ---- expressions: return list of (state, value) ----
    def ev(self, n, st):
        k = n["kind"]
        if k in ("ImplicitCastExpr", "CStyleCastExpr"):
            ck = n.get("castKind")
            res = []
            for s, v in self.ev(n["inner"][-1], st):
                if ck in ("LValueToRValue", "NoOp", "ArrayToPointerDecay", "BitCast", "FunctionToPointerDecay"):
                    res.append((s, v))
                elif ck in ("IntegralCast", "IntegralToBoolean"):
                    t = tyinfo(n["type"]["qualType"])
                    res.extend(self.cast(s, v, t, n))
                else:
                    res.append((s, v))
            return res
        if k == "ParenExpr":
            return self.ev(n["inner"][0], st)
        if k == "IntegerLiteral":
            v = int(n["value"])
            return [(st, Val(v, v, tyinfo(n["type"]["qualType"]) or (True, 32)))]
        if k == "CharacterLiteral":
            return [(st, Val(n["value"], n["value"], (True, 32)))]
        if k == "CXXBoolLiteralExpr":
            b = 1 if n.get("value") else 0
            return [(st, Val(b, b, (False, 1)))]
        if k == "DeclRefExpr":
            name = n["referencedDecl"]["name"]
            if name in st.arrays:
                return [(st, Ptr(name, 0, 0))]
            if name in st.vars:
                return [(st, st.vars[name])]
            if name.startswith("STD") or n["referencedDecl"].get("kind") == "EnumConstantDecl":
                return [(st, Val(1, 1, (True, 32)))]
            return [(st, ("fn", name))]
        if k == "ArraySubscriptExpr":
            out = []
            for s, b in self.ev(n["inner"][0], st):
                for s2, i in self.ev(n["inner"][1], s):
                    out.append((s2, ("elem", Ptr(b.base, b.lo + i.lo, b.hi + i.hi))))
            return out
        if k == "UnaryOperator":
            op = n["opcode"]
            if op == "&":
                out = []
                for s, v in self.ev(n["inner"][0], st):
                    if isinstance(v, tuple) and v[0] == "elem":
                        out.append((s, v[1]))
                    else:
                        out.append((s, v))
                return out
            if op == "*":
                out = []
                for s, v in self.ev(n["inner"][0], st):
                    out.append((s, ("elem", v)))
                return out
            if op in ("--", "++"):
                name = n["inner"][0]["referencedDecl"]["name"]
                v = st.vars[name]
                d = -1 if op == "--" else 1
                s = st.copy()
                if isinstance(v, Ptr):
                    s.set(name, Ptr(v.base, v.lo + d, v.hi + d))
                else:
                    s.set(name, Val(v.lo + d, v.hi + d, v.ty))
                return [(s, v if n.get("isPostfix") else s.vars[name])]
            if op == "-":
                t = tyinfo(n["type"]["qualType"])
                out = []
                for s, v in self.ev(n["inner"][0], st):
                    if t[0]:
                        lo, hi = trange(t)
                        self.ob("signed-overflow", v.lo > lo, "negation of %r can overflow (`-%s` for the minimum value is undefined behaviour)" % (v, _src(n["inner"][0])), n)
                        nlo = -v.hi
                        nhi = -max(v.lo, lo + 1)
                        out.append((s, Val(nlo, nhi, t)))
                    else:
                        M = 1 << t[1]
                        if v.lo == 0 and v.hi == 0:
                            out.append((s, Val(0, 0, t)))
                        elif v.lo == 0:
                            out.append((s.copy(), Val(0, 0, t)))
                            out.append((s, Val(M - v.hi, M - 1, t)))
                        else:
                            out.append((s, Val(M - v.hi, M - v.lo, t)))
                return out
            if op == "!":
                out = []
                for s, v in self.ev(n["inner"][0], st):
                    if v.lo == 0 and v.hi == 0:
                        out.append((s, Val(1, 1, (True, 32))))
                    elif v.lo > 0 or v.hi < 0:
                        out.append((s, Val(0, 0, (True, 32))))
                    else:
                        out.append((s, Val(0, 1, (True, 32))))
                return out
        if k == "BinaryOperator":
            op = n["opcode"]
            if op == "=":
                return self.assign(n["inner"][0], n["inner"][1], st, n)
            out = []
            for s, a in self.ev(n["inner"][0], st):
                for s2, b in self.ev(n["inner"][1], s):
                    out.extend(self.binop(op, a, b, s2, n))
            return out
        if k == "CompoundAssignOperator":
            op = n["opcode"][:-1]
            lhs = n["inner"][0]
            name = lhs["referencedDecl"]["name"]
            out = []
            for s, b in self.ev(n["inner"][1], st):
                a = s.vars[name]
                for s2, r in self.binop(op, a, b, s, n, result_ty=a.ty):
                    s3 = s2.copy()
                    oldver = s3.ver.get(name, 0)
                    s3.set(name, r)
                    out.append((s3, r))
            return out
        if k == "CallExpr":
            callee = n["inner"][0]
            while callee.get("kind") in ("ImplicitCastExpr",):
                callee = callee["inner"][0]
            fname = callee.get("referencedDecl", {}).get("name")
            states = [(st, [])]
            for a in n["inner"][1:]:
                nxt = []
                for s, vals in states:
                    for s2, v in self.ev(a, s):
                        nxt.append((s2, vals + [v]))
                states = nxt
            out = []
            for s, vals in states:
                self.events.append((fname, vals, s))
                if fname == "write" and len(vals) == 3:
                    p, ln = vals[1], vals[2]
                    if isinstance(p, Ptr):
                        N = s.arrays.get(p.base)
                        self.ob("write-length", ln.lo >= 0 and p.lo >= 0 and N is not None and p.hi + ln.hi <= N,
                                "write(%r, len %r) must stay inside %s[%s]" % (p, ln, p.base, N), n)
                out.append((s, Val(-1, 1 << 62, (True, 64))))
            return out
        raise AnalysisError("cfront: unsupported expression %s in %s" % (k, self.fname))

    def cast(self, s, v, t, n):
        if not isinstance(v, Val) or t is None:
            return [(s, v)]
        lo, hi = trange(t)
        if t[1] == 1:
            if v.lo == 0 and v.hi == 0:
                return [(s, Val(0, 0, t))]
            if v.lo > 0 or v.hi < 0:
                return [(s, Val(1, 1, t))]
            return [(s, Val(0, 1, t))]
        if lo <= v.lo and v.hi <= hi:
            return [(s, Val(v.lo, v.hi, t))]
        if not t[0]:
            M = 1 << t[1]
            out = []
            # the split is correlated with the source variable: refine it in each half
            src = n["inner"][-1] if n.get("inner") else None
            while src is not None and src.get("kind") in ("ImplicitCastExpr", "ParenExpr", "CStyleCastExpr"):
                src = src["inner"][-1]
            sname = src["referencedDecl"]["name"] if src is not None and src.get("kind") == "DeclRefExpr" else None
            if v.hi >= 0:
                s1 = s.copy()
                if sname and isinstance(s1.vars.get(sname), Val):
                    s1.vars[sname] = Val(max(v.lo, 0), v.hi, s1.vars[sname].ty)
                out.append((s1, Val(max(v.lo, 0), min(v.hi, hi), t)))
            if v.lo < 0:
                s2 = s.copy()
                if sname and isinstance(s2.vars.get(sname), Val):
                    s2.vars[sname] = Val(v.lo, min(v.hi, -1), s2.vars[sname].ty)
                out.append((s2, Val(M + v.lo, M + min(v.hi, -1), t)))
            return out
        # narrowing to a signed type: implementation-defined; give the full range and record it
        self.ob("narrowing", False, "value %r converted to narrower signed type" % (v,), n)
        return [(s, Val(lo, hi, t))]

    def binop(self, op, a, b, s, n, result_ty=None):
        t = result_ty or tyinfo(n["type"]["qualType"]) or (True, 64)
        if isinstance(a, Ptr) and isinstance(b, Ptr) and op == "-":
            return [(s, Val(a.lo - b.hi, a.hi - b.lo, (True, 64)))]
        if isinstance(a, Ptr) and isinstance(b, Val) and op in ("+", "-"):
            d = 1 if op == "+" else -1
            lo, hi = (a.lo + b.lo, a.hi + b.hi) if d == 1 else (a.lo - b.hi, a.hi - b.lo)
            return [(s, Ptr(a.base, lo, hi))]
        if op in ("<", "<=", ">", ">=", "==", "!="):
            return self.compare(op, a, b, s)
        if op == "/":
            self.ob("division-by-zero", not (b.lo <= 0 <= b.hi), "divisor %r may be zero" % (b,), n)
            if b.lo == b.hi and b.lo > 0:
                c = b.lo
                q = lambda x: abs(x) // c * (1 if x >= 0 else -1)
                return [(s, Val(q(a.lo), q(a.hi), t))]
            return [(s, Val(*trange(t), t))]
        # relational fact: x - (x / c) * c
        if op == "-" and n.get("inner"):
            rel = self.rel_mod(n, s)
            if rel is not None:
                return [(s, Val(rel[0], rel[1], t))]
        if op in ("+", "-", "*"):
            if op == "+":
                lo, hi = a.lo + b.lo, a.hi + b.hi
            elif op == "-":
                lo, hi = a.lo - b.hi, a.hi - b.lo
            else:
                c = [a.lo * b.lo, a.lo * b.hi, a.hi * b.lo, a.hi * b.hi]
                lo, hi = min(c), max(c)
            tlo, thi = trange(t)
            if t[0]:
                self.ob("signed-overflow", tlo <= lo and hi <= thi, "`%s` on %r and %r can overflow %s" % (op, a, b, "i%d" % t[1]), n)
                return [(s, Val(max(lo, tlo), min(hi, thi), t))]
            if tlo <= lo and hi <= thi:
                return [(s, Val(lo, hi, t))]
            return [(s, Val(tlo, thi, t))]      # unsigned wrap: lose precision (sound)
        raise AnalysisError("cfront: unsupported operator %s" % op)

    def rel_mod(self, n, s):
        """recognise  p - v * c  where v was computed as p / c (same version of p): result in [0, c-1] for p >= 0"""
        def strip(x):
            while x.get("kind") in ("ImplicitCastExpr", "ParenExpr"):
                x = x["inner"][-1]
            return x
        l, r = strip(n["inner"][0]), strip(n["inner"][1])
        if l.get("kind") != "DeclRefExpr" or r.get("kind") != "BinaryOperator" or r.get("opcode") != "*":
            return None
        p = l["referencedDecl"]["name"]
        m0, m1 = strip(r["inner"][0]), strip(r["inner"][1])
        if m0.get("kind") != "DeclRefExpr" or m1.get("kind") != "IntegerLiteral":
            return None
        v, c = m0["referencedDecl"]["name"], int(m1["value"])
        rel = s.rel.get(v)
        if rel and rel[0] == "div" and rel[1] == p and rel[2] == c and rel[3] == s.ver.get(p):
            pv = s.vars[p]
            if pv.lo >= 0:
                return (0, c - 1)
            return (-(c - 1), c - 1)
        return None

    def compare(self, op, a, b, s):
        f = {"<": lambda x, y: x < y, "<=": lambda x, y: x <= y, ">": lambda x, y: x > y, ">=": lambda x, y: x >= y,
             "==": lambda x, y: x == y, "!=": lambda x, y: x != y}[op]
        corners = [f(a.lo, b.lo), f(a.lo, b.hi), f(a.hi, b.lo), f(a.hi, b.hi)]
        if op in ("==", "!="):
            overlap = not (a.hi < b.lo or b.hi < a.lo)
            single = a.lo == a.hi == b.lo == b.hi
            if op == "==":
                can_t, can_f = overlap, not single
            else:
                can_t, can_f = not single, overlap
        else:
            can_t, can_f = any(corners), not all(corners)
        lo, hi = (1 if not can_f else 0), (1 if can_t else 0)
        return [(s, Val(lo, hi, (True, 32)))]

    def assign(self, lhs, rhs, st, n):
        out = []
        for s, v in self.ev(rhs, st):
            tgt = lhs
            while tgt.get("kind") in ("ParenExpr",):
                tgt = tgt["inner"][0]
            if tgt["kind"] == "DeclRefExpr":
                name = tgt["referencedDecl"]["name"]
                s2 = s.copy()
                s2.set(name, v)
                # remember  name = other / c  and  name = other  relations
                r = rhs
                while r.get("kind") in ("ImplicitCastExpr", "ParenExpr"):
                    r = r["inner"][-1]
                out.append((s2, v))
            elif tgt["kind"] == "UnaryOperator" and tgt["opcode"] == "*":
                for s2, p in self.ev(tgt["inner"][0], s):
                    N = s2.arrays.get(p.base) if isinstance(p, Ptr) else None
                    self.ob("store-in-bounds", isinstance(p, Ptr) and N is not None and 0 <= p.lo and p.hi < N,
                            "store through %r must lie inside %s[%s]" % (p, getattr(p, "base", "?"), N), n)
                    if isinstance(v, Val):
                        okc = (48 <= v.lo and v.hi <= 57) or (v.lo == v.hi and v.lo in (45, 10))
                        self.ob("stored-char", okc, "character stored is %r: must be a decimal digit, '-' or newline" % (v,), n)
                    s3 = s2.copy()
                    s3.trace.append(("store", p, v))
                    out.append((s3, v))
            else:
                raise AnalysisError("cfront: unsupported assignment target %s" % tgt["kind"])
        return out

    # ---- statements: list of states in, list of states out ----
    def stmt(self, n, states):
        k = n["kind"]
        if k == "CompoundStmt":
            for c in n.get("inner", []):
                states = self.stmt(c, states)
            return states
        if k == "DeclStmt":
            for d in n.get("inner", []):
                if d.get("kind") != "VarDecl":
                    continue
                q = d["type"]["qualType"]
                nxt = []
                for s in states:
                    import re
                    m = re.fullmatch(r"(?:const )?char\s*\[(\d+)\]", q)
                    if m:
                        s2 = s.copy()
                        s2.arrays[d["name"]] = int(m.group(1))
                        nxt.append(s2)
                    elif d.get("inner"):
                        init = [c for c in d["inner"] if c.get("kind") not in ("FullComment",)][-1]
                        for s2, v in self.ev(init, s):
                            s3 = s2.copy()
                            s3.set(d["name"], v)
                            nxt.append(s3)
                    else:
                        s2 = s.copy()
                        t = tyinfo(q)
                        s2.set(d["name"], Val(*trange(t), t) if t else None)
                        nxt.append(s2)
                states = nxt
            return states
        if k == "IfStmt":
            cond, then = n["inner"][0], n["inner"][1]
            els = n["inner"][2] if len(n["inner"]) > 2 else None
            out = []
            for s in states:
                for s2, c in self.ev(cond, s):
                    if c.hi >= 1 or c.lo < 0:
                        out.extend(self.stmt(then, [self.refine(cond, s2.copy(), True)]))
                    if c.lo <= 0 <= c.hi:
                        sf = self.refine(cond, s2.copy(), False)
                        out.extend(self.stmt(els, [sf]) if els else [sf])
            return out
        if k == "DoStmt":
            body, cond = n["inner"][0], n["inner"][1]
            done = []
            cur = states
            for it in range(80):
                cur = self.stmt(body, cur)
                nxt = []
                for s in cur:
                    for s2, c in self.ev(cond, s):
                        if c.lo <= 0 <= c.hi:
                            done.append(self.refine(cond, s2.copy(), False))
                        if c.hi >= 1 or c.lo < 0:
                            nxt.append(self.refine(cond, s2.copy(), True))
                cur = nxt
                if not cur:
                    break
            self.ob("loop-terminates", not cur, "do..while did not reach a fixed exit within 80 unrollings", n)
            self.loop_iterations = it + 1
            return done
        if k == "ReturnStmt":
            return states
        if k in ("NullStmt",):
            return states
        # expression statement
        out = []
        for s in states:
            for s2, _ in self.ev(n, s):
                out.append(s2)
        # relation bookkeeping for `x /= c` directly after `p = x`
        return out

    def refine(self, cond, s, truth):
        c = cond
        while c.get("kind") in ("ImplicitCastExpr", "ParenExpr"):
            c = c["inner"][-1]
        if c.get("kind") == "DeclRefExpr":
            name = c["referencedDecl"]["name"]
            v = s.vars.get(name)
            if isinstance(v, Val):
                if truth:
                    if v.lo == 0:
                        s.vars[name] = Val(1, v.hi, v.ty) if v.hi >= 1 else v
                    elif v.hi == 0 and v.lo < 0:
                        s.vars[name] = Val(v.lo, -1, v.ty)
                else:
                    s.vars[name] = Val(0, 0, v.ty)
            return s
        if c.get("kind") == "BinaryOperator" and c.get("opcode") in ("<", "<=", ">", ">="):
            l, r = c["inner"]
            while l.get("kind") in ("ImplicitCastExpr", "ParenExpr"):
                l = l["inner"][-1]
            while r.get("kind") in ("ImplicitCastExpr", "ParenExpr"):
                r = r["inner"][-1]
            if l.get("kind") == "DeclRefExpr" and r.get("kind") == "IntegerLiteral":
                name = l["referencedDecl"]["name"]
                k = int(r["value"])
                v = s.vars.get(name)
                op = c["opcode"] if truth else {"<": ">=", "<=": ">", ">": "<=", ">=": "<"}[c["opcode"]]
                if isinstance(v, Val):
                    if op == "<":
                        s.vars[name] = Val(v.lo, min(v.hi, k - 1), v.ty)
                    elif op == "<=":
                        s.vars[name] = Val(v.lo, min(v.hi, k), v.ty)
                    elif op == ">":
                        s.vars[name] = Val(max(v.lo, k + 1), v.hi, v.ty)
                    else:
                        s.vars[name] = Val(max(v.lo, k), v.hi, v.ty)
        return s


def _src(n):
    while n.get("kind") in ("ImplicitCastExpr", "ParenExpr"):
        n = n["inner"][-1]
    if n.get("kind") == "DeclRefExpr":
        return n["referencedDecl"]["name"]
    return n.get("kind", "?")


def analyse_function(fn, param_ranges=None):
    """abstractly interpret one FunctionDecl; parameters range over their whole type"""
    a = Analysis(fn["name"])
    st = State()
    for p in fn.get("inner", []):
        if p.get("kind") == "ParmVarDecl":
            t = tyinfo(p["type"]["qualType"])
            if t:
                lo, hi = trange(t)
                if param_ranges and p["name"] in param_ranges:
                    lo, hi = param_ranges[p["name"]]
                st.set(p["name"], Val(lo, hi, t))
    body = [c for c in fn["inner"] if c.get("kind") == "CompoundStmt"][0]
    # hook the relation `v = p / c`: detect the statement pair inside Analysis.stmt via a light pre-pass
    _install_div_relation(a)
    finals = a.stmt(body, [st])
    a.finals = finals
    return a


def _install_div_relation(a):
    orig = a.ev

    def ev(n, st):
        res = orig(n, st)
        if n.get("kind") == "CompoundAssignOperator" and n.get("opcode") == "/=":
            name = n["inner"][0]["referencedDecl"]["name"]
            rhs = n["inner"][1]
            while rhs.get("kind") in ("ImplicitCastExpr", "ParenExpr"):
                rhs = rhs["inner"][-1]
            if rhs.get("kind") == "IntegerLiteral":
                c = int(rhs["value"])
                for s, _ in res:
                    # find a variable holding the old value of `name`: recorded by the copy relation
                    src = s.copy_of.get(name)
                    if src:
                        s.rel[name] = ("div", src, c, s.ver.get(src))
                    s.copy_of.pop(name, None)
        if n.get("kind") == "BinaryOperator" and n.get("opcode") == "=":
            l = n["inner"][0]
            r = n["inner"][1]
            while r.get("kind") in ("ImplicitCastExpr", "ParenExpr"):
                r = r["inner"][-1]
            if l.get("kind") == "DeclRefExpr" and r.get("kind") == "DeclRefExpr":
                for s, _ in res:
                    s.copy_of[r["referencedDecl"]["name"]] = l["referencedDecl"]["name"]
        return res
    a.ev = ev
