"""Fact extraction driver + loader.

Runs the rustc_private driver (extractor/) over a repository tree with `cargo +nightly check`
and loads the per-crate JSON documents.  Facts are cached under /verif/.cache/<digest>/ where
<digest> is a sha256 over the *working tree* (every file outside target/ and .git/), so an edited
/repo is always re-extracted and a fresh CARGO_TARGET_DIR is used for every extraction.
"""
import hashlib
import json
import os
import pickle
import shutil
import subprocess
import sys
import time

VERIF = os.path.dirname(os.path.dirname(os.path.abspath(__file__)))
REPO = os.environ.get("VERIF_REPO", "/repo")
CACHE = os.path.join(VERIF, ".cache")
DRIVER = os.path.join(VERIF, "extractor", "target", "release", "scc-facts")

# crates of the workspace that must be present in the facts (fail closed otherwise)
EXPECTED_CRATES = [
    "fun", "fun2core", "scc_core_lang", "core2axcut", "axcut", "axcut2backend",
    "axcut2x86_64", "axcut2aarch64", "axcut2rv64", "driver", "scc_printer", "scc",
]
# floors on the number of bodies per crate (70 % of what was counted on the pinned tree)
BODY_FLOORS = {}


class AnalysisError(Exception):
    """The analysis could not be performed (exit 2, never a VIOLATION)."""


REQUESTED = set()       # anchor keys asked for during a run (used to maintain audit/anchors.toml)
_ANCHORS = None


def fn_signature(f):
    return ([f["locals"][i]["ty"] for i in range(1, f["argc"] + 1)], f["locals"][0]["ty"])


def tree_digest(root):
    h = hashlib.sha256()
    files = []
    for dp, dns, fns in os.walk(root):
        dns[:] = sorted(d for d in dns if d not in (".git", "target", "__pycache__"))
        for fn in sorted(fns):
            files.append(os.path.join(dp, fn))
    for p in files:
        rel = os.path.relpath(p, root)
        h.update(rel.encode())
        h.update(b"\0")
        try:
            with open(p, "rb") as f:
                h.update(hashlib.sha256(f.read()).digest())
        except OSError:
            h.update(b"?")
    # the extractor itself is part of the key
    try:
        with open(DRIVER, "rb") as f:
            h.update(hashlib.sha256(f.read()).digest())
    except OSError:
        pass
    return h.hexdigest()[:24]


def nightly_sysroot():
    return subprocess.check_output(["rustc", "+nightly", "--print", "sysroot"], text=True).strip()


def ensure_driver():
    stale = not os.path.exists(DRIVER)
    if not stale:
        srcdir = os.path.join(VERIF, "extractor", "src")
        newest = max(os.path.getmtime(os.path.join(srcdir, f)) for f in os.listdir(srcdir))
        stale = newest > os.path.getmtime(DRIVER)
    if stale:
        subprocess.check_call(["cargo", "build", "--release", "--offline"],
                              cwd=os.path.join(VERIF, "extractor"))


def extract(root, outdir, workspace=True, log=None):
    """Run the driver over the cargo project at `root`; facts land in outdir."""
    ensure_driver()
    tdir = outdir + ".target"
    shutil.rmtree(tdir, ignore_errors=True)
    shutil.rmtree(outdir, ignore_errors=True)
    os.makedirs(outdir)
    env = dict(os.environ)
    env.update({
        "LD_LIBRARY_PATH": nightly_sysroot() + "/lib",
        "RUSTFLAGS": "-Zmir-opt-level=0 -Awarnings",
        "RUSTC_WORKSPACE_WRAPPER": DRIVER,
        "SCC_FACTS_OUT": outdir,
        "CARGO_TARGET_DIR": tdir,
        "CARGO_NET_OFFLINE": "true",
    })
    env.pop("RUSTC_WRAPPER", None)
    cmd = ["cargo", "+nightly", "check", "--offline"]
    if workspace:
        cmd.append("--workspace")
    t0 = time.time()
    p = subprocess.run(cmd, cwd=root, env=env, stdout=subprocess.PIPE, stderr=subprocess.STDOUT, text=True)
    shutil.rmtree(tdir, ignore_errors=True)
    if log is not None:
        log.append("extract %s: rc=%d %.1fs" % (root, p.returncode, time.time() - t0))
    if p.returncode != 0:
        tail = "\n".join(p.stdout.splitlines()[-40:])
        shutil.rmtree(outdir, ignore_errors=True)
        raise AnalysisError("cargo +nightly check failed in %s:\n%s" % (root, tail))


def crate_deps(root):
    """crate name -> set of direct (non-dev) workspace dependencies, from `cargo metadata --no-deps`."""
    env = dict(os.environ, CARGO_NET_OFFLINE="true")
    out = subprocess.run(["cargo", "metadata", "--offline", "--no-deps", "--format-version", "1"], cwd=root, env=env,
                         stdout=subprocess.PIPE, stderr=subprocess.PIPE, text=True)
    if out.returncode != 0:
        raise AnalysisError("cargo metadata failed: " + out.stderr[-2000:])
    m = json.loads(out.stdout)
    pkg2crate = {}
    for p in m["packages"]:
        names = [t["name"] for t in p["targets"] if set(t["kind"]) & {"lib", "proc-macro", "bin"}]
        pkg2crate[p["name"]] = (names[0] if names else p["name"]).replace("-", "_")
    deps = {}
    for p in m["packages"]:
        c = pkg2crate[p["name"]]
        deps[c] = sorted({pkg2crate[d["name"]] for d in p["dependencies"] if d.get("path") and d.get("kind") is None and d["name"] in pkg2crate})
    return deps


def _load_dir(d):
    docs = {}
    for fn in sorted(os.listdir(d)):
        if not fn.endswith(".json"):
            continue
        crate = fn.split(".")[0]
        if crate in docs or crate == "build_script_build":
            continue
        with open(os.path.join(d, fn)) as f:
            docs[crate] = json.load(f)
    return docs


class Facts:
    def __init__(self, docs, root):
        self.root = root
        self.crates = sorted(c for c in docs if not c.startswith('__'))
        self.fns = {}          # key -> fn
        self.by_path = {}
        self.adts = {}
        self.impls = []
        self.consts = {}
        self.statics = []
        self.traits = {}
        self.deps = docs.get("__deps__", {})
        for c, d in docs.items():
            if c.startswith("__"):
                continue
            for f in d["fns"]:
                if f["key"] in self.fns:
                    # duplicate keys (e.g. two impls for differently instantiated generics)
                    n = 2
                    while "%s#%d" % (f["key"], n) in self.fns:
                        n += 1
                    f["key"] = "%s#%d" % (f["key"], n)
                self.fns[f["key"]] = f
                self.by_path.setdefault(f["path"], []).append(f)
            for a in d["adts"]:
                self.adts[a["path"]] = a
            for i in d["impls"]:
                i["crate"] = c
                self.impls.append(i)
            for k in d["consts"]:
                self.consts[k["path"]] = k
            for s in d["statics"]:
                s["crate"] = c
                self.statics.append(s)
            for t in d["traits"]:
                self.traits[t["path"]] = t

    def fn(self, key):
        REQUESTED.add(key)
        f = self.fns.get(key)
        if f is None:
            g = self._by_signature(key)
            if g is not None:
                self.fns[key] = g
                return g
        if f is None:
            # a free function (or inherent method) that was moved to another module of its crate keeps its role: the one
            # function of that crate with the same name (and the same type for a method) stands for it
            if not key.startswith("<") and "::" in key:
                parts = key.split("::")
                crate, name = parts[0], parts[-1]
                owner = parts[-2] if len(parts) > 2 and parts[-2][:1].isupper() else None
                cands = [k for k, g in self.fns.items() if g["crate"] == crate and not k.startswith("<") and "{" not in k
                         and k.split("::")[-1] == name and (owner is None or (len(k.split("::")) > 2 and k.split("::")[-2] == owner))
                         and (owner is not None or not k.split("::")[-2][:1].isupper())]
                if len(cands) == 1:
                    self.fns[key] = self.fns[cands[0]]
                    return self.fns[key]
            g = self._by_role(key)
            if g is not None:
                self.fns[key] = g
                return g
            raise AnalysisError("anchor function missing: %s" % key)
        return f

    # functions known by what they do: the one function of a crate that adds to the translation state's collection of lifted definitions
    ROLES = {"fun2core::compile::share": ("fun2core", "adds-lifted-definition"), "core2axcut::statements::cut::lift": ("core2axcut", "adds-lifted-definition")}

    def _by_role(self, key):
        role = self.ROLES.get(key)
        if not role:
            return None
        crate, _what = role
        store = set()
        for path, a in self.adts.items():
            if path.split("::")[0] == crate and a["kind"] == "struct" and path.endswith("State"):
                for fd in a["variants"][0]["fields"]:
                    if ("VecDeque" in fd["ty"] or "Vec<" in fd["ty"]) and "Def" in fd["ty"]:
                        store.add(fd["name"])
        cands = []
        for k, f in self.fns.items():
            if f["crate"] != crate or "{" in k:
                continue
            touches = False
            pushes = False
            for b in f["blocks"]:
                for s_ in b["stmts"]:
                    if s_["k"] != "assign":
                        continue
                    rv = s_["rv"]
                    pls = [rv.get("pl")] + [o.get("pl") for o in [rv.get("op"), rv.get("a"), rv.get("b")] + list(rv.get("ops", [])) if isinstance(o, dict)]
                    for pl in pls:
                        if pl and any(isinstance(e, dict) and e.get("n") in store for e in pl["p"]):
                            touches = True
                t = b["term"]
                if t["k"] == "call" and t.get("callee_name") in ("push", "push_front", "push_back"):
                    pushes = True
            if touches and pushes:
                cands.append(k)
        return self.fns[cands[0]] if len(cands) == 1 else None

    def _by_signature(self, key):
        """A function that was renamed keeps its role when it is the only function of its crate with the signature the anchor had on
        the pinned tree (audit/anchors.toml: parameter and result types, owner type of a method) - and the old name is gone."""
        global _ANCHORS
        if _ANCHORS is None:
            import tomllib
            try:
                with open(os.path.join(VERIF, "audit", "anchors.toml"), "rb") as fh:
                    _ANCHORS = {r["key"]: r for r in tomllib.load(fh).get("anchor", [])}
            except OSError:
                _ANCHORS = {}
        a = _ANCHORS.get(key)
        if not a:
            return None

        def short(ty):
            import re
            return re.sub(r"[A-Za-z_0-9]+::", "", ty or "")

        def trait_name(t):
            return (t or "").split("<")[0].split("::")[-1]
        want_sig = ([short(p) for p in a["params"]], short(a["ret"]))
        strict, loose = [], []
        for k, g in self.fns.items():
            if g["crate"] != a["crate"] or "{" in k or (k in _ANCHORS and k != key):
                continue
            # a trait impl stays an impl of the (possibly moved) trait of that name for the same type
            if trait_name(g.get("impl_trait")) != trait_name(a.get("impl_trait")):
                continue
            ps, rt = fn_signature(g)
            if ([short(p) for p in ps], short(rt)) != want_sig:
                continue
            if a.get("impl_trait"):
                if (g.get("impl_self_adt") or "") == a.get("owner", "") and g["key"].split("::")[-1] == key.split("::")[-1] and \
                        g["key"].split(" as ")[0] == key.split(" as ")[0]:
                    strict.append(g)
                continue
            if (g.get("impl_self_adt") or "") == a.get("owner", ""):
                strict.append(g)
            else:
                loose.append(g)     # a free function that became an associated function, or the reverse
        for cands in (strict, loose):
            uniq = {g["key"]: g for g in cands}
            if len(uniq) == 1:
                return next(iter(uniq.values()))
            if len(uniq) > 1:
                return None
        return None

    def deps_closure(self, crate):
        seen = set()
        work = [crate]
        while work:
            c = work.pop()
            if c in seen:
                continue
            seen.add(c)
            work.extend(self.deps.get(c, ()))
        return seen

    def fns_in(self, crate):
        return [f for f in self.fns.values() if f["crate"] == crate]

    def rel(self, path):
        return path


def load(root=None, log=None):
    root = root or REPO
    os.makedirs(CACHE, exist_ok=True)
    dig = tree_digest(root)
    d = os.path.join(CACHE, dig)
    facts_dir = os.path.join(d, "facts")
    pk = os.path.join(d, "facts.pickle")
    os.makedirs(d, exist_ok=True)
    import fcntl
    lockf = open(os.path.join(d, "lock"), "w")
    fcntl.flock(lockf, fcntl.LOCK_EX)       # two runs on trees with the same digest must not extract into the same directory
    if os.path.exists(pk):
        with open(pk, "rb") as f:
            docs = pickle.load(f)
        if log is not None:
            log.append("facts cache hit %s" % dig)
    else:
        extract(root, facts_dir, log=log)
        docs = _load_dir(facts_dir)
        docs["__deps__"] = crate_deps(root)
        missing = [c for c in EXPECTED_CRATES if c not in docs]
        if missing:
            raise AnalysisError("fact files missing for crates: %s" % missing)
        tmp = pk + ".%d" % os.getpid()
        with open(tmp, "wb") as f:
            pickle.dump(docs, f, protocol=pickle.HIGHEST_PROTOCOL)
        os.replace(tmp, pk)
        shutil.rmtree(facts_dir, ignore_errors=True)
        _prune_cache(keep=dig)
    fcntl.flock(lockf, fcntl.LOCK_UN)
    lockf.close()
    fx = Facts(docs, root)
    fx.digest = dig
    return fx


def _prune_cache(keep, maxn=12):
    """drop old fact caches; never touch entries younger than 30 minutes (parallel runs on other trees may be writing them)"""
    now = time.time()
    try:
        ents = [(os.path.getmtime(os.path.join(CACHE, e)), e) for e in os.listdir(CACHE)
                if os.path.isdir(os.path.join(CACHE, e)) and e != keep and not e.startswith("fx-")]
    except OSError:
        return
    ents.sort(reverse=True)
    for mt, e in ents[maxn:]:
        if now - mt > 1800:
            shutil.rmtree(os.path.join(CACHE, e), ignore_errors=True)


def load_fixture(name, log=None):
    """Facts of a fixture crate under /verif/fixtures/<name> (positive controls)."""
    root = os.path.join(VERIF, "fixtures", name)
    dig = "fx-" + name + "-" + tree_digest(root)
    d = os.path.join(CACHE, dig)
    pk = os.path.join(d, "facts.pickle")
    if os.path.exists(pk):
        with open(pk, "rb") as f:
            docs = pickle.load(f)
    else:
        os.makedirs(d, exist_ok=True)
        extract(root, os.path.join(d, "facts"), workspace=False, log=log)
        docs = _load_dir(os.path.join(d, "facts"))
        with open(pk, "wb") as f:
            pickle.dump(docs, f, protocol=pickle.HIGHEST_PROTOCOL)
        shutil.rmtree(os.path.join(d, "facts"), ignore_errors=True)
    return Facts(docs, root)


if __name__ == "__main__":
    lg = []
    fx = load(log=lg)
    print("\n".join(lg))
    print(len(fx.fns), "bodies;", len(fx.adts), "adts;", len(fx.impls), "impls")
    from collections import Counter
    c = Counter(f["crate"] for f in fx.fns.values())
    print(dict(c))
