"""Debug pretty-printer: python3 -m analysis.show <substring of key> [--fixture name]"""
import sys
from . import facts


def pl(p):
    s = "_%d" % p["l"]
    for e in p["p"]:
        if e == "*":
            s = "(*%s)" % s
        elif isinstance(e, str):
            s += "." + e
        elif "f" in e:
            s += "." + e["n"]
        elif "dc" in e:
            s = "(%s as %s)" % (s, e["dc"])
        elif "idx" in e:
            s += "[_%d]" % e["idx"]
        elif "cidx" in e:
            s += "[%s%d]" % ("-" if e["from_end"] else "", e["cidx"])
        else:
            s += str(e)
    return s


def op(o):
    if o["k"] in ("copy", "move"):
        return ("move " if o["k"] == "move" else "") + pl(o["pl"])
    if o["k"] == "const":
        if "fn" in o:
            return "fn:" + o["fn"]
        if "val" in o:
            return "const %s:%s" % (o["val"], o["ty"])
        if "str" in o:
            return "const %r" % o["str"]
        if "def" in o:
            return "const<%s>%s" % (o["def"], "#p%d" % o["promoted"] if "promoted" in o else "")
        return "const:" + o["ty"]
    return o["k"]


def rv(r):
    k = r["k"]
    if k == "use":
        return op(r["op"])
    if k == "ref":
        return "&%s%s" % ("mut " if r["mut"] else "", pl(r["pl"]))
    if k == "agg":
        if r["agg"] == "adt":
            return "%s::%s{%s}" % (r["adt"], r["variant"], ", ".join("%s: %s" % (n, op(o)) for n, o in zip(r["fields"], r["ops"])))
        return "%s(%s)%s" % (r["agg"], ", ".join(op(o) for o in r["ops"]), r.get("closure", ""))
    if k == "cast":
        return "%s as %s (%s)" % (op(r["op"]), r["ty"], r["kind"])
    if k == "binop":
        return "%s(%s, %s)" % (r["op"], op(r["a"]), op(r["b"]))
    if k == "unop":
        return "%s(%s)" % (r["op"], op(r["a"]))
    if k == "discr":
        return "discriminant(%s)" % pl(r["pl"])
    if k == "rawptr":
        return "&raw %s" % pl(r["pl"])
    return k


def show(f):
    print("fn", f["key"], " [%s:%d]" % (f["sp"]["file"], f["sp"]["line"]), "argc", f["argc"])
    for i, l in enumerate(f["locals"]):
        print("   let _%d: %s" % (i, l["ty"]))
    for v in f["vars"]:
        print("   debug %s => %s" % (v["name"], pl(v["pl"])))
    for i, b in enumerate(f["blocks"]):
        print(" bb%d%s:" % (i, " (cleanup)" if b["cleanup"] else ""))
        for s in b["stmts"]:
            if s["k"] == "assign":
                print("    %s = %s    // %d%s" % (pl(s["lhs"]), rv(s["rv"]), s["sp"]["line"], " exp" if s["sp"].get("exp") else ""))
            else:
                print("    discriminant(%s) = %d" % (pl(s["lhs"]), s["vi"]))
        t = b["term"]
        k = t["k"]
        if k == "call":
            print("    %s = %s(%s) -> %s   [res %s] // %d" % (pl(t["dest"]), t.get("callee_key", op(t["func"])), ", ".join(op(a) for a in t["args"]), t["target"], t.get("resolved_key"), t["sp"]["line"]))
        elif k == "switch":
            print("    switch %s %s else %s" % (op(t["discr"]), t["targets"], t["otherwise"]))
        elif k == "assert":
            print("    assert(%s == %s, %s) -> %s" % (op(t["cond"]), t["expected"], t["msg"], t["target"]))
        elif k == "drop":
            print("    drop(%s) -> %s" % (pl(t["pl"]), t["target"]))
        elif k == "goto":
            print("    goto %s" % t["target"])
        else:
            print("    " + k)


if __name__ == "__main__":
    if "--fixture" in sys.argv:
        fx = facts.load_fixture(sys.argv[sys.argv.index("--fixture") + 1])
    else:
        fx = facts.load()
    pat = sys.argv[1]
    for k, f in fx.fns.items():
        if pat in k:
            show(f)
            print()
