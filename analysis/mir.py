"""Helpers over the MIR facts of one function: CFG, dominators, def/use, local provenance."""
from functools import lru_cache


def succs_of_term(t):
    k = t["k"]
    if k == "goto":
        return [t["target"]]
    if k == "switch":
        d = t["discr"]
        if d.get("k") == "const" and "val" in d:
            for v, b in t["targets"]:
                if v == d["val"]:
                    return [b]
            return [t["otherwise"]]
        return [b for _, b in t["targets"]] + [t["otherwise"]]
    if k in ("call",):
        return [t["target"]] if t["target"] is not None else []
    if k in ("assert", "drop"):
        return [t["target"]]
    return []


class Fn:
    """Indexed view of one function's facts."""

    def __init__(self, f):
        self.f = f
        self.key = f["key"]
        self.blocks = f["blocks"]
        self.n = len(self.blocks)
        # locals with exactly one definition, which is a constant (`if false && ..`, `const` conditions)
        ndefs = {}
        cval = {}
        for b in self.blocks:
            for st in b["stmts"]:
                if st["k"] == "assign" and not st["lhs"]["p"]:
                    l = st["lhs"]["l"]
                    ndefs[l] = ndefs.get(l, 0) + 1
                    rv = st["rv"]
                    if rv["k"] == "use" and rv["op"].get("k") == "const" and "val" in rv["op"]:
                        cval[l] = rv["op"]["val"]
                elif st["k"] == "assign":
                    ndefs[st["lhs"]["l"]] = ndefs.get(st["lhs"]["l"], 0) + 2
            t = b["term"]
            if t["k"] == "call":
                ndefs[t["dest"]["l"]] = ndefs.get(t["dest"]["l"], 0) + 2
        self.const_locals = {l: v for l, v in cval.items() if ndefs.get(l) == 1 and l > f["argc"]}
        self.succ = [self._succs(b["term"]) for b in self.blocks]
        self.pred = [[] for _ in range(self.n)]
        for i, ss in enumerate(self.succ):
            for s in ss:
                self.pred[s].append(i)
        self.reach = self._reach(0)
        self._dom = None
        self._pdom = None
        self._defs = None
        self._uses = None
        self.file = f["sp"]["file"]
        self.line = f["sp"]["line"]
        self.argc = f["argc"]
        self.locals = f["locals"]

    def _succs(self, t):
        if t["k"] == "switch" and t["discr"].get("k") in ("copy", "move") and not t["discr"]["pl"]["p"]:
            l = t["discr"]["pl"]["l"]
            if l in self.const_locals:
                v = self.const_locals[l]
                for val, b in t["targets"]:
                    if val == v:
                        return [b]
                return [t["otherwise"]]
        return succs_of_term(t)

    # ---- CFG ----
    def _reach(self, start, avoid=()):
        seen = set()
        st = [start]
        while st:
            b = st.pop()
            if b in seen or b in avoid:
                continue
            seen.add(b)
            st.extend(self.succ[b])
        return seen

    def reach_from(self, start, avoid=()):
        return self._reach(start, avoid)

    def dom(self):
        """dom[b] = set of blocks dominating b (over blocks reachable from entry)."""
        if self._dom is None:
            nodes = sorted(self.reach)
            allset = set(nodes)
            dom = {b: set(allset) for b in nodes}
            dom[0] = {0}
            changed = True
            while changed:
                changed = False
                for b in nodes:
                    if b == 0:
                        continue
                    ps = [p for p in self.pred[b] if p in allset]
                    new = set(allset)
                    for p in ps:
                        new &= dom[p]
                    new.add(b)
                    if new != dom[b]:
                        dom[b] = new
                        changed = True
            self._dom = dom
        return self._dom

    def dominates(self, a, b):
        d = self.dom()
        return b in d and a in d[b]

    def exits(self, kinds=("return",)):
        return [i for i in self.reach if self.blocks[i]["term"]["k"] in kinds]

    # ---- statements ----
    def stmts(self):
        for bi in sorted(self.reach):
            for si, s in enumerate(self.blocks[bi]["stmts"]):
                yield bi, si, s

    def calls(self, reachable_only=True):
        for bi, b in enumerate(self.blocks):
            if reachable_only and bi not in self.reach:
                continue
            if b["term"]["k"] == "call":
                yield bi, b["term"]

    def term(self, bi):
        return self.blocks[bi]["term"]

    # ---- def/use ----
    def defs(self):
        """local -> list of defs: dict(kind='assign'|'call'|'arg', bi, si, rv|term, proj)"""
        if self._defs is None:
            d = {}
            for a in range(1, self.argc + 1):
                d.setdefault(a, []).append({"kind": "arg", "bi": -1, "si": -1, "proj": []})
            for bi, si, s in self.stmts():
                if s["k"] == "assign":
                    d.setdefault(s["lhs"]["l"], []).append(
                        {"kind": "assign", "bi": bi, "si": si, "rv": s["rv"], "proj": s["lhs"]["p"], "sp": s["sp"]})
            for bi, t in self.calls():
                d.setdefault(t["dest"]["l"], []).append(
                    {"kind": "call", "bi": bi, "si": None, "term": t, "proj": t["dest"]["p"], "sp": t["sp"]})
            self._defs = d
        return self._defs

    def whole_defs(self, local):
        return [x for x in self.defs().get(local, []) if not x["proj"]]

    def uses(self):
        """local -> list of uses: dict(kind, bi, si, ...). kinds: 'rv' (in an assign rvalue), 'arg' (call arg idx),
        'switch', 'drop', 'lhsproj' (assigned through projection)."""
        if self._uses is None:
            u = {}

            def add(l, rec):
                u.setdefault(l, []).append(rec)

            for bi, si, s in self.stmts():
                if s["k"] != "assign":
                    continue
                for (op_or_pl, role) in rvalue_places(s["rv"]):
                    add(op_or_pl["l"], {"kind": "rv", "bi": bi, "si": si, "stmt": s, "role": role, "proj": op_or_pl["p"]})
                if s["lhs"]["p"]:
                    add(s["lhs"]["l"], {"kind": "lhsproj", "bi": bi, "si": si, "stmt": s, "proj": s["lhs"]["p"]})
                for e in s["lhs"]["p"]:
                    if isinstance(e, dict) and "idx" in e:
                        add(e["idx"], {"kind": "index", "bi": bi, "si": si, "stmt": s, "proj": []})
            for bi in sorted(self.reach):
                t = self.blocks[bi]["term"]
                if t["k"] == "call":
                    for ai, a in enumerate(t["args"]):
                        if a["k"] in ("copy", "move"):
                            add(a["pl"]["l"], {"kind": "arg", "bi": bi, "ai": ai, "term": t, "proj": a["pl"]["p"], "move": a["k"] == "move"})
                    fo = t["func"]
                    if fo["k"] in ("copy", "move"):
                        add(fo["pl"]["l"], {"kind": "callee", "bi": bi, "term": t, "proj": fo["pl"]["p"]})
                elif t["k"] == "switch":
                    d = t["discr"]
                    if d["k"] in ("copy", "move"):
                        add(d["pl"]["l"], {"kind": "switch", "bi": bi, "term": t, "proj": d["pl"]["p"]})
                elif t["k"] == "drop":
                    add(t["pl"]["l"], {"kind": "drop", "bi": bi, "term": t, "proj": t["pl"]["p"]})
                elif t["k"] == "assert":
                    d = t["cond"]
                    if d["k"] in ("copy", "move"):
                        add(d["pl"]["l"], {"kind": "assert", "bi": bi, "term": t, "proj": d["pl"]["p"]})
            self._uses = u
        return self._uses

    def local_ty(self, l):
        return self.locals[l]["ty"]

    def local_adt(self, l):
        return self.locals[l]["adt"]

    def local_core(self, l):
        return self.locals[l]["core"]

    def var_name(self, l):
        for v in self.f["vars"]:
            if v["pl"]["l"] == l and not v["pl"]["p"]:
                return v["name"]
        return None

    def var_locals(self, name):
        return [v["pl"]["l"] for v in self.f["vars"] if v["name"] == name and not v["pl"]["p"]]


def rvalue_places(rv):
    """Yield (place, role) for every place read by an rvalue."""
    k = rv["k"]
    if k in ("use", "repeat", "cast"):
        o = rv["op"]
        if o["k"] in ("copy", "move"):
            yield o["pl"], k
    elif k in ("ref", "rawptr", "discr"):
        yield rv["pl"], k
    elif k == "binop":
        for o in (rv["a"], rv["b"]):
            if o["k"] in ("copy", "move"):
                yield o["pl"], "binop"
    elif k == "unop":
        o = rv["a"]
        if o["k"] in ("copy", "move"):
            yield o["pl"], "unop"
    elif k == "agg":
        for i, o in enumerate(rv["ops"]):
            if o["k"] in ("copy", "move"):
                yield o["pl"], "agg:%d" % i


def op_place(o):
    return o["pl"] if o["k"] in ("copy", "move") else None


def op_local(o):
    """local index when the operand is a bare local"""
    if o["k"] in ("copy", "move") and not o["pl"]["p"]:
        return o["pl"]["l"]
    return None


def op_root(o):
    """local index at the root of the operand's place (any projection)"""
    if o["k"] in ("copy", "move"):
        return o["pl"]["l"]
    return None


def place_fields(pl):
    return [e["n"] for e in pl["p"] if isinstance(e, dict) and "f" in e]


def callee_name(t):
    return t.get("callee_name")


def callee_ids(t):
    """all names a call can be recognised by"""
    return {t.get("callee"), t.get("resolved"), t.get("callee_key"), t.get("resolved_key")} - {None}


# pass-through callees: the result carries (a view of / a copy of / a wrapper around) argument 0
PASS_NAMES = {
    "clone", "into", "from", "deref", "deref_mut", "as_ref", "as_mut", "borrow", "borrow_mut", "to_owned",
    "to_string", "to_vec", "unwrap_or_clone", "new", "as_str", "as_slice", "into_iter", "iter", "iter_mut",
    "into_boxed", "as_deref", "cloned", "copied", "unwrap", "expect", "branch", "from_residual", "from_output",
    "into_inner", "try_unwrap", "by_ref", "rev", "as_mut_slice", "take",
}


def is_passthrough(t):
    n = t.get("callee_name")
    if n not in PASS_NAMES:
        return False
    # only std/alloc/core callees or derived Clone impls are structural pass-throughs
    c = t.get("callee") or ""
    return c.startswith(("core::", "alloc::", "std::"))


class Flow:
    """Flow-insensitive value provenance inside one function.

    `origins(local)` follows moves, copies, borrows, derefs, casts, field reads (recording the field path) and
    structural pass-through calls (clone, into, Rc::new, deref, ...) backwards to root origins:
      ('arg', i, fields)   function parameter i (1-based local) with the field path read from it
      ('call', bi, fields) result of the call terminating block bi
      ('agg', bi, si)      an aggregate built here
      ('const', repr)      a constant
      ('other', bi, si)    anything else (binop, discriminant, ...)
    """

    def __init__(self, fn, extra_pass=None, only_extra=False, fx=None):
        self.fn = fn
        self.extra_pass = extra_pass or (lambda t: False)
        self.only_extra = only_extra    # do not use the default pass-through set (order/content-sensitive analyses)
        self.fx = fx                    # when given, calls of workspace constructor functions are seen as the aggregate they build
        self._memo = {}
        self._vagg = {}

    def origins(self, local, fields=()):
        return self._orig(local, tuple(fields), frozenset())

    def _orig(self, local, fields, seen):
        key = (local, fields)
        if key in seen:
            return set()
        if key in self._memo:
            return self._memo[key]
        seen = seen | {key}
        out = set()
        fn = self.fn
        ds = fn.defs().get(local, [])
        if not ds:
            out.add(("undef", local, fields))
        for d in ds:
            if d["kind"] == "arg":
                out.add(("arg", local, fields))
                continue
            dproj = [e["n"] for e in d["proj"] if isinstance(e, dict) and "f" in e]
            if dproj:
                # a partial assignment `_l.f = ...` only matters when we are asking about that field
                if fields[:len(dproj)] != tuple(dproj):
                    if fields and fields[0] != dproj[0]:
                        continue
                    sub = ()
                else:
                    sub = fields[len(dproj):]
            else:
                sub = fields
            if d["kind"] == "call":
                t = d["term"]
                ep = self.extra_pass(t)
                if ((not self.only_extra and is_passthrough(t)) or ep) and t["args"]:
                    # a pass-through predicate may name the argument the value comes in by (a method of a state object takes it second)
                    ai = ep if (isinstance(ep, int) and not isinstance(ep, bool) and ep < len(t["args"])) else 0
                    a0 = t["args"][ai]
                    if a0["k"] in ("copy", "move"):
                        out |= self._orig(a0["pl"]["l"], tuple(place_fields(a0["pl"])) + sub, seen)
                        continue
                    out.add(("const", _const_repr(a0)))
                    continue
                cs = self._ctor(t)
                if cs is not None:
                    rvv = self._virtual_agg(d["bi"], t, cs)
                    if sub and sub[0] in rvv["fields"]:
                        o = rvv["ops"][rvv["fields"].index(sub[0])]
                        if o["k"] in ("copy", "move"):
                            out |= self._orig(o["pl"]["l"], tuple(place_fields(o["pl"])) + sub[1:], seen)
                        else:
                            out.add(("const", _const_repr(o)))
                    else:
                        out.add(("agg", d["bi"], "ctor"))
                    continue
                out.add(("call", d["bi"], sub))
                continue
            rv = d["rv"]
            k = rv["k"]
            if k in ("use", "cast"):
                o = rv["op"]
                if o["k"] in ("copy", "move"):
                    out |= self._orig(o["pl"]["l"], tuple(place_fields(o["pl"])) + sub, seen)
                else:
                    out.add(("const", _const_repr(o)))
            elif k in ("ref", "rawptr"):
                out |= self._orig(rv["pl"]["l"], tuple(place_fields(rv["pl"])) + sub, seen)
            elif k == "agg":
                if sub and rv["agg"] == "adt" and sub[0] in rv["fields"]:
                    o = rv["ops"][rv["fields"].index(sub[0])]
                    if o["k"] in ("copy", "move"):
                        out |= self._orig(o["pl"]["l"], tuple(place_fields(o["pl"])) + sub[1:], seen)
                    else:
                        out.add(("const", _const_repr(o)))
                elif sub and rv["agg"] == "tuple" and sub[0].isdigit() and int(sub[0]) < len(rv["ops"]):
                    o = rv["ops"][int(sub[0])]
                    if o["k"] in ("copy", "move"):
                        out |= self._orig(o["pl"]["l"], tuple(place_fields(o["pl"])) + sub[1:], seen)
                    else:
                        out.add(("const", _const_repr(o)))
                else:
                    out.add(("agg", d["bi"], d["si"]))
            else:
                out.add(("other", d["bi"], d["si"]))
        self._memo[key] = out
        return out

    def agg_at(self, o):
        assert o[0] == "agg"
        if o[2] == "ctor":
            return self._vagg[o[1]]
        return self.fn.blocks[o[1]]["stmts"][o[2]]["rv"]

    def agg_span(self, o):
        if o[2] == "ctor":
            return self.fn.blocks[o[1]]["term"]["sp"]
        return self.fn.blocks[o[1]]["stmts"][o[2]]["sp"]

    def _ctor(self, t):
        if self.fx is None:
            return None
        k2 = t.get("resolved_key") or (t.get("callee_key") if not t.get("callee_trait") else None)
        if not k2 or k2 not in self.fx.fns:
            return None
        return ctor_summary(self.fx, k2)

    def _virtual_agg(self, bi, t, cs):
        if bi not in self._vagg:
            ops = []
            for src in cs["ops"]:
                if src[0] == "arg" and src[1] - 1 < len(t["args"]) and t["args"][src[1] - 1].get("k") in ("copy", "move"):
                    a = t["args"][src[1] - 1]
                    flds = src[2] if len(src) > 2 else ()
                    ops.append({"k": a["k"], "pl": {"l": a["pl"]["l"], "p": list(a["pl"]["p"]) + [{"f": 0, "n": n_} for n_ in flds]}} if flds else a)
                elif src[0] == "arg" and src[1] - 1 < len(t["args"]):
                    ops.append(t["args"][src[1] - 1])
                else:
                    ops.append({"k": "const", "ty": src[1] if src[0] == "unit" else "?"})
            self._vagg[bi] = {"k": "agg", "agg": "adt", "adt": cs["adt"], "variant": cs["variant"], "fields": list(cs["fields"]), "ops": ops,
                              "ctor": t.get("callee_key")}
        return self._vagg[bi]

    def call_at(self, o):
        assert o[0] == "call"
        return self.fn.blocks[o[1]]["term"]


_RET_MEMO = {}


def ret_param_sources(fx, key, depth=0):
    """parameters (1-based) of a workspace function from which its result derives: through moves, borrows, field reads, pass-through
    calls, aggregates, the receivers of other calls, and helpers (two levels)"""
    mk = (id(fx), key)
    if mk in _RET_MEMO:
        return _RET_MEMO[mk]
    _RET_MEMO[mk] = set()
    f = fx.fns[key]
    if len(f["blocks"]) > 300:
        return set()
    fn = Fn(f)
    flow = Flow(fn)
    out = set()
    seen = set()

    def walk(local, fields, d):
        if (local, fields) in seen or d > 12:
            return
        seen.add((local, fields))
        for o in flow.origins(local, fields):
            if o[0] == "arg":
                out.add(o[1])
            elif o[0] == "agg":
                for op in flow.agg_at(o)["ops"]:
                    if op.get("k") in ("copy", "move"):
                        walk(op["pl"]["l"], tuple(place_fields(op["pl"])), d + 1)
            elif o[0] == "call":
                t = fn.blocks[o[1]]["term"]
                k2 = t.get("resolved_key") or (t.get("callee_key") if not t.get("callee_trait") else None)
                srcs = None
                if k2 in fx.fns and depth < 2 and k2 != key and "{closure" not in k2:
                    srcs = ret_param_sources(fx, k2, depth + 1)
                idx = sorted(srcs) if srcs else [1]
                for pi in idx:
                    if pi - 1 < len(t["args"]) and t["args"][pi - 1].get("k") in ("copy", "move"):
                        a = t["args"][pi - 1]
                        walk(a["pl"]["l"], tuple(place_fields(a["pl"])), d + 1)
    walk(0, (), 0)
    _RET_MEMO[mk] = out
    return out


_CTOR_MEMO = {}


def ctor_summary(fx, key):
    """A workspace function that only builds one aggregate from its parameters (`Mu::tilde_mu(var, stmt, ty)`, `Cut::new(..)`):
    {'adt', 'variant', 'fields', 'ops': [('arg', i) | ('unit', type) | ('other',)]}, or None."""
    ck = (id(fx), key)
    if ck in _CTOR_MEMO:
        return _CTOR_MEMO[ck]
    _CTOR_MEMO[ck] = None
    f = fx.fns[key]
    if len(f["blocks"]) > 40 or "{closure" in key:
        return None
    fn = Fn(f)
    flow = Flow(fn)
    org = flow.origins(0, ())
    aggs = [o for o in org if o[0] == "agg"]
    if len(org) != 1 or len(aggs) != 1:
        return None
    rv = flow.agg_at(aggs[0])
    if rv.get("agg") != "adt" or not rv.get("fields"):
        return None
    ops = []
    for op in rv["ops"]:
        if op["k"] not in ("copy", "move"):
            ops.append(("unit", str(op.get("ty") or "")))
            continue
        oo = flow.origins(op["pl"]["l"], tuple(place_fields(op["pl"])))
        if len(oo) == 1 and next(iter(oo))[0] == "arg":
            # a parameter, or a field path of a parameter (`var: self.var.clone()`)
            ops.append(("arg", next(iter(oo))[1], tuple(next(iter(oo))[2])))
        elif len(oo) == 1 and next(iter(oo))[0] == "agg" and not flow.agg_at(next(iter(oo))).get("ops"):
            ops.append(("unit", flow.agg_at(next(iter(oo))).get("adt") or ""))
        else:
            ops.append(("other",))
    _CTOR_MEMO[ck] = {"adt": rv["adt"], "variant": rv.get("variant"), "fields": list(rv["fields"]), "ops": ops}
    return _CTOR_MEMO[ck]


def aggregates(fn, fx=None):
    """(block, statement-like dict with 'rv' and 'sp') for every aggregate built in the function - by an aggregate rvalue or,
    when fx is given, by a call of a workspace constructor function (seen as the aggregate it builds)"""
    for bi, si, s in fn.stmts():
        if s["rv"]["k"] == "agg":
            yield bi, s
    if fx is not None:
        flow = Flow(fn, fx=fx)
        for bi, t in fn.calls():
            cs = flow._ctor(t)
            if cs is not None:
                yield bi, {"rv": flow._virtual_agg(bi, t, cs), "sp": t["sp"], "lhs": t.get("dest")}


def _const_repr(o):
    if "val" in o:
        return "%s" % o["val"]
    if "str" in o:
        return "str:%s" % o["str"]
    if "fn" in o:
        return "fn:%s" % o["fn"]
    if "def" in o:
        if "promoted" in o:
            return "def:%s::{promoted#%d}" % (o["def"].split("::{promoted#")[0], o["promoted"])
        return "def:%s" % o["def"]
    return "ty:%s" % o.get("ty")


def forward_locals(fn, start_locals, through_call=None, stop=None):
    """Set of locals a value may flow to (flow-insensitive): moves, copies, borrows, casts, aggregates that wrap it
    (optionally), pass-through calls.  through_call(t, argidx) -> True when the call's result carries the value."""
    through_call = through_call or (lambda t, ai: is_passthrough(t) and ai == 0)
    seen = set(start_locals)
    work = list(start_locals)
    uses = fn.uses()
    while work:
        l = work.pop()
        for u in uses.get(l, []):
            nxt = None
            if u["kind"] == "rv":
                s = u["stmt"]
                if stop and stop(u):
                    continue
                nxt = s["lhs"]["l"]
            elif u["kind"] == "arg":
                if through_call(u["term"], u["ai"]):
                    nxt = u["term"]["dest"]["l"]
            if nxt is not None and nxt not in seen:
                seen.add(nxt)
                work.append(nxt)
    return seen
