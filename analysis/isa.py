"""Symbolic machine for emitted instruction lists (x86-64 NASM syntax, AArch64, RISC-V `Code` values).

The instruction lists come from folding the generator's emission functions (analysis/backend.py); the operand syntax of
each `Code` variant comes from folding the repository's own `Print for Code`.  What a mnemonic *does* is external
knowledge (the ISA) and lives here.  Values are symbolic expressions; equality is syntactic after normalisation."""
from . import backend
from .facts import AnalysisError
from . import interp
from .interp import Adt, Sym, StrCat

CALLER_SAVED = {
    "x86_64": {"rax", "rcx", "rdx", "rsi", "rdi", "r8", "r9", "r10", "r11"},
    "aarch64": {"X%d" % i for i in range(0, 19)} | {"X30"},
}
CALLEE_SAVED = {
    "x86_64": {"rbx", "rbp", "r12", "r13", "r14", "r15"},
    "aarch64": {"X%d" % i for i in range(19, 29)} | {"X29", "X30"},
}
ARG_REGS = {"x86_64": ["rdi", "rsi", "rdx", "rcx", "r8", "r9"], "aarch64": ["X%d" % i for i in range(8)]}
RET_REG = {"x86_64": "rax", "aarch64": "X0", "rv64": "a0"}
SP = {"x86_64": "rsp", "aarch64": "SP", "rv64": "sp"}


# ---------------- expressions ----------------
def const(n):
    return ("const", n)


def var(n):
    return ("var", n)


def norm(e):
    if e[0] in ("add", "mul"):
        a, b = norm(e[1]), norm(e[2])
        if a[0] == "const" and b[0] == "const":
            return const(_wrap(a[1] + b[1] if e[0] == "add" else a[1] * b[1]))
        if e[0] == "add":
            if a[0] == "addr" and b[0] == "const":
                return ("addr", a[1], a[2] + b[1])
            if b[0] == "addr" and a[0] == "const":
                return ("addr", b[1], b[2] + a[1])
            if b == const(0):
                return a
            if a == const(0):
                return b
            # (x + c1) + c2  ->  x + (c1 + c2)
            for x, c in ((a, b), (b, a)):
                if c[0] == "const" and x[0] == "add":
                    for y, d in ((x[1], x[2]), (x[2], x[1])):
                        if d[0] == "const":
                            return norm(("add", y, const(_wrap(c[1] + d[1]))))
        return (e[0],) + tuple(sorted([a, b], key=repr))
    if e[0] == "sub":
        a, b = norm(e[1]), norm(e[2])
        if a[0] == "const" and b[0] == "const":
            return const(_wrap(a[1] - b[1]))
        if a[0] == "addr" and b[0] == "const":
            return ("addr", a[1], a[2] - b[1])
        if b == const(0):
            return a
        if b[0] == "const":
            return norm(("add", a, const(_wrap(-b[1]))))
        # a - (a sdiv d) * d  ==  a srem d   (AArch64 SDIV + MSUB)
        if b[0] == "mul":
            for q, d in ((b[1], b[2]), (b[2], b[1])):
                if q[0] == "sdiv" and q[1] == a and q[2] == d:
                    return ("srem", a, d)
        return ("sub", a, b)
    if e[0] in ("sdiv", "srem", "cmp"):
        return (e[0], norm(e[1]), norm(e[2]))
    return e


def _wrap(v):
    v &= (1 << 64) - 1
    return v - (1 << 64) if v >= 1 << 63 else v


def show(e):
    if e is None:
        return "?"
    k = e[0]
    if k == "const":
        return str(e[1])
    if k == "var":
        return e[1]
    if k == "addr":
        return "%s%+d" % (e[1], e[2])
    if k == "garbage":
        return "garbage(%s)" % e[1]
    return "%s(%s)" % (k, ", ".join(show(x) for x in e[1:]))


class Machine:
    def __init__(self, arch, regs=None):
        self.arch = arch
        self.regs = dict(regs or {})
        self.mem = {}           # (base, off) -> expr
        self.flags = None
        self.events = []
        self.written_regs = []
        self.written_mem = []
        self.errors = []
        self.regs.setdefault(SP[arch], ("addr", "sp0", 0))

    def r(self, name):
        if name in ("XZR", "zero"):
            return const(0)
        if name not in self.regs:
            self.regs[name] = var("init:" + name)
        return self.regs[name]

    def w(self, name, e):
        if name in ("XZR", "zero"):
            return
        self.regs[name] = norm(e)
        self.written_regs.append(name)

    def clone(self):
        m = Machine.__new__(Machine)
        m.arch = self.arch
        m.regs = dict(self.regs)
        m.mem = dict(self.mem)
        m.flags = self.flags
        m.events = list(self.events)
        m.written_regs = list(self.written_regs)
        m.written_mem = list(self.written_mem)
        m.errors = list(self.errors)
        return m

    def addr(self, base, off):
        b = self.r(base)
        return self.addr_of(b, off)

    def addr_of(self, b, off):
        """cell key for the address `b + off` where b is a value expression"""
        o = off if isinstance(off, int) else None
        if b[0] == "addr" and o is not None:
            return (b[1], b[2] + o)
        if o is None:
            return ("?%s" % show(b), repr(off))
        return (show(b), o)

    def load(self, base, off):
        a = self.addr(base, off)
        if a not in self.mem:
            self.mem[a] = var("mem:%s%+d" % a if isinstance(a[1], int) else "mem:%s+%s" % a)
        return self.mem[a]

    def store(self, base, off, e):
        a = self.addr(base, off)
        self.mem[a] = norm(e)
        self.written_mem.append(a)

    def cell(self, a):
        """current contents of the cell with key a (lazily named like `load` names it)"""
        if a not in self.mem:
            self.mem[a] = var("mem:%s%+d" % a if isinstance(a[1], int) else "mem:%s+%s" % a)
        return self.mem[a]

    def load_at(self, b, off):
        return self.cell(self.addr_of(b, off))

    def store_at(self, b, off, e):
        a = self.addr_of(b, off)
        self.mem[a] = norm(e)
        self.written_mem.append(a)


# the registers that exist (the printer also has names for numbers beyond the register file)
VALID_REGS = {"x86_64": {"rax", "rbx", "rcx", "rdx", "rsi", "rdi", "rbp", "rsp"} | {"r%d" % i for i in range(8, 16)},
              "aarch64": {"X%d" % i for i in range(0, 31)} | {"SP", "XZR"}}


def _check_registers(m, arch, ops):
    ok = VALID_REGS.get(arch)
    if not ok:
        return
    for o in ops:
        import re as _re
        names = [o[1]] if o[0] == "reg" else ([o[1]] if o[0] == "mem" and isinstance(o[1], str) and _re.fullmatch(r"r\w+|[XW]\d+", o[1]) else [])
        for nm in names:
            if isinstance(nm, str) and nm not in ok and not nm.startswith(("Register", "config::")):
                e = "register %s does not exist on %s: the assembler rejects the instruction" % (nm, arch)
                if e not in m.errors:
                    m.errors.append(e)


def operands(ctx, arch, code):
    """Code ADT value -> (variant, mnemonic, [operands]) using the folded print template (x86-64 / AArch64)"""
    tmpl = backend.code_templates(ctx, arch).get(code.variant)
    names = backend.register_names(ctx, arch)
    if not tmpl:
        raise AnalysisError("no print template for %s::%s" % (arch, code.variant))
    mn, ops = backend.parse_template(tmpl["text"])

    def val(fname):
        v = code.fields.get(fname[1:])
        if isinstance(v, Adt) and v.path and v.path.endswith("::Register"):
            return ("reg", names.get(repr(v), repr(v)))
        if isinstance(v, Adt) and v.path and v.path.endswith("::Immediate"):
            return ("imm", interp.sole_int(v))
        if isinstance(v, (str, StrCat)):
            return ("label", v)
        if isinstance(v, int):
            return ("imm", v)
        return ("sym", v)
    out = []
    for o in ops:
        if o[0] == "op":
            out.append(val(o[1]))
        elif o[0] == "mem":
            b = val(o[1])
            off = val(o[2]) if o[2] else ("imm", 0)
            out.append(("mem", b[1], off[1] if off[0] == "imm" else off, o[3]))
        else:
            # literal text with embedded fields: 'qword [<f0> + <f1>]', 'near <f0>', 'LSL <f2>'
            import re
            txt = o[1]
            mm = re.fullmatch(r"qword \[<(f\d)> \+ ?<(f\d)>\]", txt)
            if mm:
                out.append(("mem", val(mm.group(1))[1], val(mm.group(2))[1], txt))
                continue
            mm = re.fullmatch(r"near <(f\d)>", txt)
            if mm:
                out.append(val(mm.group(1)))
                continue
            mm = re.fullmatch(r"LSL <(f\d)>", txt)
            if mm:
                out.append(("shift", val(mm.group(1))[1]))
                continue
            out.append(("lit", txt))
    return code.variant, mn, out


def _val(m, o):
    if o[0] == "reg":
        return m.r(o[1])
    if o[0] == "imm":
        v = o[1]
        if isinstance(v, int):
            return const(v)
        return var("imm:%r" % (v,))
    if o[0] == "mem":
        return m.load(o[1], o[2])
    return var("?%r" % (o,))


def _set(m, o, e):
    if o[0] == "reg":
        m.w(o[1], e)
    elif o[0] == "mem":
        m.store(o[1], o[2], e)
    else:
        m.errors.append("write to non-location %r" % (o,))


def _clobber_below_sp(m, spname):
    spv = m.r(spname)
    if spv[0] != "addr":
        return
    for a in list(m.mem):
        if a[0] == spv[1] and isinstance(a[1], int) and a[1] < spv[2]:
            m.mem[a] = ("garbage", "below sp at call")


X86_CC = {"je": "Equal", "jne": "NotEqual", "jl": "Less", "jle": "LessOrEqual", "jg": "Greater", "jge": "GreaterOrEqual"}
A64_CC = {"BEQ": "Equal", "BNE": "NotEqual", "BLT": "Less", "BLE": "LessOrEqual", "BGT": "Greater", "BGE": "GreaterOrEqual"}


def _fits(v, bits):
    return isinstance(v, int) and -(1 << (bits - 1)) <= v < (1 << (bits - 1))


def check_x86_forms(m, variant, mn, ops):
    for o in ops:
        if o[0] == "mem" and isinstance(o[2], int) and not _fits(o[2], 32):
            m.errors.append("%s: displacement %d does not fit disp32" % (variant, o[2]))
    imms = [o for o in ops if o[0] == "imm"]
    for o in imms:
        v = o[1]
        if not isinstance(v, int):
            continue
        if mn == "mov" and ops[0][0] == "reg":
            if not _fits(v, 64):
                m.errors.append("%s: immediate %d does not fit imm64" % (variant, v))
        elif not _fits(v, 32):
            m.errors.append("%s: `%s` with immediate %d is not encodable (the form takes a sign-extended imm32)" % (variant, mn, v))


def check_a64_forms(m, variant, mn, ops):
    if mn in ("ADD", "SUB", "CMP"):
        for o in ops:
            if o[0] == "imm" and isinstance(o[1], int) and not (0 <= o[1] < 4096):
                m.errors.append("%s: immediate %d does not fit the 12-bit unsigned immediate of %s" % (variant, o[1], mn))
    if mn in ("LDR", "STR"):
        for o in ops:
            if o[0] == "mem" and isinstance(o[2], int) and not (0 <= o[2] <= 32760 and o[2] % 8 == 0):
                m.errors.append("%s: offset %d is not a valid scaled unsigned 12-bit offset" % (variant, o[2]))
    if mn in ("LDP", "STP"):
        for o in ops:
            off = o[2] if o[0] == "mem" else (o[1] if o[0] == "imm" else None)
            if isinstance(off, int) and not (-512 <= off <= 504 and off % 8 == 0):
                m.errors.append("%s: pair offset %d out of range" % (variant, off))


def step_x86(m, variant, mn, ops):
    if mn is None or mn in ("section", "global", "extern"):
        return
    check_x86_forms(m, variant, mn, ops)
    if mn in ("mov", "mov qword"):
        _set(m, ops[0], _val(m, ops[1]))
    elif mn in ("add", "add qword", "sub", "imul"):
        a, b = _val(m, ops[0]), _val(m, ops[1])
        op = {"add": "add", "add qword": "add", "sub": "sub", "imul": "mul"}[mn]
        if mn == "imul" and ops[0][0] == "mem":
            m.errors.append("imul with a memory destination is not encodable")
        _set(m, ops[0], (op, a, b))
        m.flags = ("garbage", mn)
    elif mn in ("cmp", "cmp qword"):
        m.flags = norm(("cmp", _val(m, ops[0]), _val(m, ops[1])))
    elif mn == "cqo":
        m.w("rdx", ("cqo", m.r("rax")))
    elif mn in ("idiv", "idiv qword"):
        d = _val(m, ops[0])
        a = m.r("rax")
        if m.r("rdx") != ("cqo", a):
            m.errors.append("idiv without rdx = sign extension of rax (cqo)")
        if ops[0][0] == "reg" and ops[0][1] == "rdx":
            m.errors.append("idiv by rdx: the divisor register was overwritten by cqo")
        m.w("rax", ("sdiv", a, d))
        m.w("rdx", ("srem", a, d))
        m.flags = ("garbage", "idiv")
    elif mn == "push":
        sp = m.r("rsp")
        m.w("rsp", ("sub", sp, const(8)))
        m.store("rsp", 0, _val(m, ops[0]))
    elif mn == "pop":
        v = m.load("rsp", 0)
        m.w("rsp", ("add", m.r("rsp"), const(8)))
        _set(m, ops[0], v)
    elif mn == "lea":
        _set(m, ops[0], var("label:%r" % (ops[1],)))
    elif mn == "call":
        m.events.append(("call", ops[0][1], m.r("rsp"), {r: m.r(r) for r in ARG_REGS["x86_64"][:1]}))
        for r in CALLER_SAVED["x86_64"]:
            m.regs[r] = ("garbage", "call")
        m.flags = ("garbage", "call")
        _clobber_below_sp(m, "rsp")
    elif mn in X86_CC:
        m.events.append(("jcc", X86_CC[mn], m.flags, ops[0][1]))
    elif mn in ("jmp", "jmp near"):
        m.events.append(("jmp", ops[0], _val(m, ops[0]) if ops[0][0] in ("reg", "mem") else None))
    elif mn == "ret":
        m.events.append(("ret", m.r("rsp")))
    else:
        m.errors.append("unknown x86 mnemonic %s" % mn)


def step_a64(m, variant, mn, ops):
    if mn is None or mn.startswith("."):
        return
    check_a64_forms(m, variant, mn, ops)
    if mn in ("ADD", "SUB", "MUL", "SDIV"):
        op = {"ADD": "add", "SUB": "sub", "MUL": "mul", "SDIV": "sdiv"}[mn]
        _set(m, ops[0], (op, _val(m, ops[1]), _val(m, ops[2])))
    elif mn == "MSUB":
        # Xd = Xa - Xn * Xm
        _set(m, ops[0], ("sub", _val(m, ops[3]), ("mul", _val(m, ops[1]), _val(m, ops[2]))))
    elif mn == "MOV":
        _set(m, ops[0], _val(m, ops[1]))
    elif mn in ("MOVZ", "MOVN", "MOVK"):
        imm = ops[1][1]
        sh = ops[2][1] if len(ops) > 2 else 0
        sh = interp.sole_int(sh)
        if not (isinstance(imm, int) and isinstance(sh, int)):
            _set(m, ops[0], var("movwide"))
            return
        if not (0 <= imm <= 0xFFFF) or sh not in (0, 16, 32, 48):
            m.errors.append("%s immediate %r LSL %r not encodable" % (mn, imm, sh))
        if mn == "MOVZ":
            _set(m, ops[0], const(_wrap(imm << sh)))
        elif mn == "MOVN":
            _set(m, ops[0], const(_wrap(~(imm << sh))))
        else:
            cur = _val(m, ops[0])
            if cur[0] == "const":
                u = cur[1] & ((1 << 64) - 1)
                u = (u & ~(0xFFFF << sh)) | (imm << sh)
                _set(m, ops[0], const(_wrap(u)))
            else:
                _set(m, ops[0], ("movk", cur, const(imm), const(sh)))
    elif mn == "LDR":
        _set(m, ops[0], _val(m, ops[1]))
    elif mn == "STR":
        _set(m, ops[1], _val(m, ops[0]))
    elif mn == "STP":
        # STP a, b, [base, off]!  pre-index: base += off; [base] = a; [base+8] = b
        base, off = ops[2][1], ops[2][2]
        m.w(base, ("add", m.r(base), const(off if isinstance(off, int) else 0)))
        m.store(base, 0, _val(m, ops[0]))
        m.store(base, 8, _val(m, ops[1]))
    elif mn == "LDP":
        # LDP a, b, [base], off  post-index
        base = ops[2][1]
        off = ops[3][1]
        va, vb = m.load(base, 0), m.load(base, 8)
        _set(m, ops[0], va)
        _set(m, ops[1], vb)
        m.w(base, ("add", m.r(base), const(off if isinstance(off, int) else 0)))
    elif mn == "CMP":
        m.flags = norm(("cmp", _val(m, ops[0]), _val(m, ops[1])))
    elif mn in A64_CC:
        m.events.append(("jcc", A64_CC[mn], m.flags, ops[0][1]))
    elif mn in ("B",):
        m.events.append(("jmp", ops[0], None))
    elif mn == "BR":
        m.events.append(("jmp", ops[0], _val(m, ops[0])))
    elif mn == "BL":
        m.events.append(("call", ops[0][1], m.r("SP"), {"X0": m.r("X0")}))
        for r in CALLER_SAVED["aarch64"]:
            m.regs[r] = ("garbage", "call")
        m.flags = ("garbage", "call")
        _clobber_below_sp(m, "SP")
    elif mn == "ADR":
        _set(m, ops[0], var("label:%r" % (ops[1],)))
    elif mn == "RET":
        m.events.append(("ret", m.r("SP")))
    else:
        m.errors.append("unknown AArch64 mnemonic %s" % mn)


RV_CC = {"BEQ": "Equal", "BNE": "NotEqual", "BLT": "Less", "BLE": "LessOrEqual", "BGT": "Greater", "BGE": "GreaterOrEqual"}


def rv_operands(code):
    out = []
    for k in sorted(code.fields):
        v = code.fields[k]
        if isinstance(v, Adt) and v.path and v.path.endswith("::Register"):
            out.append(("reg", "zero" if v.fields.get("0") == 0 else "X%s" % v.fields.get("0")))
        elif isinstance(v, int):
            out.append(("imm", v))
        elif isinstance(v, (str, StrCat)):
            out.append(("label", v))
        else:
            out.append(("sym", v))
    return out


def step_rv(m, variant, ops):
    if variant in ("COMMENT",):
        return
    if variant == "LAB":
        m.events.append(("label", ops))
        return
    if variant in ("ADD", "SUB", "MUL", "DIV", "REM"):
        op = {"ADD": "add", "SUB": "sub", "MUL": "mul", "DIV": "sdiv", "REM": "srem"}[variant]
        _set(m, ops[0], (op, _val(m, ops[1]), _val(m, ops[2])))
    elif variant == "ADDI":
        if isinstance(ops[2][1], int) and not (-2048 <= ops[2][1] < 2048):
            m.errors.append("ADDI immediate %d does not fit 12 bits" % ops[2][1])
        _set(m, ops[0], ("add", _val(m, ops[1]), _val(m, ops[2])))
    elif variant == "LI":
        _set(m, ops[0], _val(m, ops[1]))
    elif variant == "MV":
        _set(m, ops[0], _val(m, ops[1]))
    elif variant == "LA":
        _set(m, ops[0], var("label:%r" % (ops[1][1],)))
    elif variant == "LW":
        if isinstance(ops[2][1], int) and not (-2048 <= ops[2][1] < 2048):
            m.errors.append("load offset %d does not fit 12 bits" % ops[2][1])
        _set(m, ops[0], m.load(ops[1][1], ops[2][1]))
    elif variant == "SW":
        if isinstance(ops[2][1], int) and not (-2048 <= ops[2][1] < 2048):
            m.errors.append("store offset %d does not fit 12 bits" % ops[2][1])
        m.store(ops[1][1], ops[2][1], _val(m, ops[0]))
    elif variant in RV_CC:
        m.events.append(("jcc", RV_CC[variant], norm(("cmp", _val(m, ops[0]), _val(m, ops[1]))), ops[2][1]))
    elif variant == "JAL":
        m.events.append(("jmp", ops[1], None))
    elif variant == "JALR":
        if isinstance(ops[2][1], int) and not (-2048 <= ops[2][1] < 2048):
            m.errors.append("JALR offset %d does not fit 12 bits" % ops[2][1])
        m.events.append(("jmp", ops[1], norm(("add", _val(m, ops[1]), _val(m, ops[2])))))
    else:
        m.errors.append("unknown RISC-V instruction %s" % variant)


def run(ctx, arch, codes, machine=None):
    if arch == "rv64":
        m = machine or Machine(arch)
        for c in codes:
            if not isinstance(c, Adt):
                raise AnalysisError("the folded emission list contains a value the interpreter could not determine (%r): the analysis cannot follow this code" % (c,))
            step_rv(m, c.variant, rv_operands(c))
        return m
    m = machine or Machine(arch)
    for c in codes:
        if not isinstance(c, Adt):
            raise AnalysisError("the folded emission list contains a value the interpreter could not determine (%r): the analysis cannot follow this code" % (c,))
        if c.variant == "COMMENT":
            continue
        if c.variant == "LAB":
            m.events.append(("label", c.fields.get("0")))
            continue
        variant, mn, ops = operands(ctx, arch, c)
        _check_registers(m, arch, ops)
        (step_x86 if arch == "x86_64" else step_a64)(m, variant, mn, ops)
    return m


# ---------------- branching exploration ----------------
class SpecNeeds(Exception):
    """the reference semantics needs a condition the explored path never tested"""

    def __init__(self, e):
        Exception.__init__(self, show(e))
        self.expr = e


def fact_key(e):
    return repr(norm(e))


def is_zero(facts, e):
    """True / False / None (unknown on this path)"""
    e = norm(e)
    if e[0] == "const":
        return e[1] == 0
    if e[0] == "addr":
        return False
    return facts.get(fact_key(e))


def _cmp_consts(cc, a, b):
    return {"Equal": a == b, "NotEqual": a != b, "Less": a < b, "LessOrEqual": a <= b, "Greater": a > b, "GreaterOrEqual": a >= b}[cc]


def _decide(cc, flags, facts):
    """(verdict, fact key, value-if-taken)"""
    if not flags or flags[0] != "cmp":
        return None, ("flags", repr(flags), cc), True
    a, b = flags[1], flags[2]
    if a[0] == "const" and b[0] == "const":
        return _cmp_consts(cc, a[1], b[1]), None, None
    if cc in ("Equal", "NotEqual"):
        d = norm(("sub", a, b)) if b != const(0) else a
        z = is_zero(facts, d)
        if z is not None:
            return (z if cc == "Equal" else not z), None, None
        return None, fact_key(d), (cc == "Equal")
    k = ("cc", cc, repr(a), repr(b))
    if k in facts:
        return facts[k], None, None
    return None, k, True


def _label_str(v):
    return v if isinstance(v, str) else repr(v)


def explore(ctx, arch, codes, m0, max_paths=4000, facts0=None, start=0):
    """run a list with local labels and conditional jumps on every feasible path.
    Yields (machine, facts, exit) with exit in {'end', ('label', L)}; returns at most max_paths paths and sets
    explore.truncated when the cap cut the enumeration."""
    labels = {}
    for i, c in enumerate(codes):
        if isinstance(c, Adt) and c.variant == "LAB":
            labels[_label_str(c.fields.get("0"))] = i
    out = []
    truncated = False
    stack = [(start, m0, dict(facts0 or {}))]
    steps = 0
    while stack:
        if len(out) >= max_paths:
            truncated = True
            break
        # alternate between the newest and the oldest pending fork so that a capped enumeration is spread over the tree
        pc, m, facts = stack.pop() if len(out) % 2 == 0 else stack.pop(0)
        while True:
            if pc >= len(codes):
                out.append((m, facts, "end"))
                break
            c = codes[pc]
            pc += 1
            steps += 1
            if steps > 5_000_000:
                raise AnalysisError("explore: step budget exceeded")
            if not isinstance(c, Adt):
                raise AnalysisError("the folded emission list contains a value the interpreter could not determine (%r): the analysis cannot follow this code" % (c,))
            if c.variant in ("COMMENT", "LAB"):
                continue
            if c.variant == "MARK":
                # a marker planted by the caller (e.g. where code generation recurses into the next statement): the path ends here
                out.append((m, facts, ("mark", pc - 1)))
                break
            n_ev = len(m.events)
            if arch == "rv64":
                step_rv(m, c.variant, rv_operands(c))
            else:
                variant, mn, ops = operands(ctx, arch, c)
                _check_registers(m, arch, ops)
                (step_x86 if arch == "x86_64" else step_a64)(m, variant, mn, ops)
            if len(m.events) == n_ev:
                continue
            ev = m.events[-1]
            if ev[0] == "jcc":
                m.events.pop()
                _, cc, flags, label = ev
                tgt = labels.get(_label_str(label))
                verdict, key, val_taken = _decide(cc, flags, facts)
                if verdict is None:
                    # fork: the not-taken side continues here, the taken side is pushed
                    m2 = m.clone()
                    f2 = dict(facts)
                    f2[key] = val_taken
                    facts = dict(facts)
                    facts[key] = not val_taken
                    if tgt is None:
                        out.append((m2, f2, ("label", _label_str(label))))
                    else:
                        stack.append((tgt, m2, f2))
                elif verdict:
                    if tgt is None:
                        out.append((m, facts, ("label", _label_str(label))))
                        break
                    pc = tgt
            elif ev[0] == "jmp":
                op = ev[1]
                if isinstance(op, tuple) and op[0] == "label":
                    m.events.pop()
                    tgt = labels.get(_label_str(op[1]))
                    if tgt is None:
                        out.append((m, facts, ("label", _label_str(op[1]))))
                        break
                    pc = tgt
                else:
                    out.append((m, facts, ("jump", ev[2])))
                    break
            elif ev[0] == "ret":
                out.append((m, facts, "ret"))
                break
    explore.truncated = truncated
    return out


explore.truncated = False
