"""Property -> rules registry.  Rules are added here as they are built; a property without rules is not claimed."""
from .rules import translate, determinism, panics, wiring, traversal, annot, shape, hygiene, enums, shrinking, fresh, sharing, codegen, abi, pmoves, labels, runtime, typing as typing_rules, formatting, linear, memory, termination, focus, inputs, statements


def _thorough_only(rule):
    def w(ctx):
        if ctx.tier != "thorough":
            return []
        return rule(ctx)
    w.__name__ = getattr(rule, "__name__", "rule")
    return w


PROPS = {
    "C16": {
        "rules": [formatting.rule_pgram, formatting.rule_lex, formatting.rule_litfmt, enums.rule_enum_surface,
                  traversal.rule_trav(["scc_printer::types::Print"]), formatting.rule_fmtwrite, formatting.rule_pspan],
        "text": "Printer/grammar agreement decided statically: every Fun syntax node's Print impl is folded into its token templates "
                "(abstract interpretation of MIR with the `pretty` builder modelled), each template is re-lexed with the grammar's "
                "longest-match lexer and must derive from a production that builds the node with holes bound to the same fields in "
                "the same order (R-PGRAM); adjacent token/hole pairs are checked for lexer merging (R-LEX); every syntactic field is "
                "printed (R-TRAV) and operators round-trip (R-ENUM/surface). R-FMTWRITE: every file the fmt command opens for writing is opened with truncation, so a shorter formatted text never leaves the old tail behind.",
        "assumptions": ["layout (groups, nesting, soft lines) never changes the token sequence - follows from pretty's semantics, trusted",
                        "round trip over all widths/indents is not enumerated; the token-level argument is layout-independent"],
    },
    "C15": {
        "rules": [typing_rules.rule_zip, typing_rules.rule_dup, typing_rules.rule_nodup, typing_rules.rule_result, typing_rules.rule_clause_exits, typing_rules.rule_lookup, typing_rules.rule_checkall, typing_rules.rule_instance, typing_rules.rule_tyrule, typing_rules.rule_tywf, typing_rules.rule_keyed,
                  traversal.rule_trav(["fun::typing::check::Check"]), annot.rule_annot_check, panics.rule_panic(("A",)), typing_rules.rule_nameeq],
        "text": "Rejection discipline of the type checker, decided for every program: zips are length-guarded (R-ZIP), declarations are "
                "inserted only after a duplicate check that returns Err (R-DUP), binder lists are checked for duplicates before use "
                "(R-NODUP), no typing Result is dropped or defused and no look-up is defaulted (R-RESULT), the clause-matching and "
                "arity diagnostics are reachable (R-EXITS), every subterm is checked and annotated (R-TRAV, R-ANNOT), the typing rule of every simple term form - which subterm is checked in which context against which type - is the rule of the language (R-TYRULE, read off the folded Check::check), supplied types are checked for well-formedness before a term is checked against them (R-TYWF), no typing rule gathers parts of the term into a keyed collection, where a duplicated clause would vanish unseen (R-KEYED), and nothing "
                "reachable from parsing/checking can panic (R-PANIC zone A). R-TYRULE: the typing rule each term form implements (literal, variable, arithmetic, conditional, let, label, goto, exit, print, parentheses, call, constructor, destructor) - which subterm is checked in which context against which type, which types are compared - is read off the folded Check::check and compared with the rule of the language.",
        "assumptions": ["acceptance of every well-typed program and correctness of type equality itself are not decided"],
    },
    "C20": {
        "rules": [runtime.rule_cint, runtime.rule_template, runtime.rule_ret, abi.rule_abi("x86_64"), abi.rule_abi("aarch64"), sharing.rule_deffirst],
        "text": "Runtime contract decided on the C sources and the generator: (R-CINT) interval abstract interpretation of print_i64/"
                "println_i64 from clang's AST for the whole int64_t range - no undefined behaviour, every store inside the buffer and "
                "a digit/'-'/newline, termination, write() covers exactly the stored characters; (R-TEMPLATE) every replace-needle of "
                "generate_c_driver occurs exactly once in the template, argv conversion returns a 64-bit type, the argc guard "
                "precedes the call, main returns asm_main's value; (R-ABI/ARGS) for every supported parameter count the argument "
                "registers reach the first environment positions without a hazard, and every live variable - the parameters of main "
                "included - survives each call of a print primitive (the print-call classes of R-ABI: which registers are evacuated, "
                "where to, and that they come back to the same places); (R-RET) the result is in the ABI return register "
                "and survives the epilogue.",
        "assumptions": ["that the digit loop yields the decimal representation beyond digit range, count and order of stores (value-level) is not decided",
                        "C library (atoll, write) and the OS truncation of the exit status"],
    },
    "C14": {
        "rules": [labels.rule_stride, labels.rule_jtorder, labels.rule_label, codegen.rule_isel("x86_64"), codegen.rule_isel("aarch64"),
                  codegen.rule_isel("rv64"), hygiene.rule_seed, typing_rules.rule_tyrule, codegen.rule_regfile, formatting.rule_nameprint],
        "text": "Well-formedness of the emitted assembly decided structurally: (R-LABEL) every label-defining site has one of five "
                "shapes whose languages are pairwise disjoint given the grammar's identifier classes, counters make generated labels "
                "unique, generated definition names consult the set of used names; (R-STRIDE) jump_length(n) = n * size of the single "
                "fixed-size jump that jump_label_fixed emits, one table entry per clause; (R-JTORDER) clauses are normalised to "
                "declaration order, which the tag arithmetic assumes - the normalisation itself happens in the type checker, whose "
                "checked clause lists of Case and New come out in declaration order whatever order the clauses are written in (R-TYRULE, "
                "folded over every clause list of up to three clauses); (R-REGFILE) every environment position is given an existing, unreserved register or a slot inside the spill area, all distinct; (R-IMM, via the symbolic machine) every immediate, shift and "
                "memory offset of the arithmetic/compare/move/literal templates fits the instruction form it is printed in, for "
                "literals of every magnitude in every placement.",
        "assumptions": ["validity of every instruction form as such (beyond immediates/offsets and memory-destination imul) is not decided",
                        "immediates of the memory-management sequences are compile-time constants (field offsets <= 64, stack offsets < 2048)"],
    },
    "C11": {
        "rules": [pmoves.rule_pmoves, statements.rule_stmt_substitute, pmoves.rule_cycle, pmoves.rule_subst_order, codegen.rule_isel_mov_only,
                  memory.rule_mem("x86_64", only_refcount=True), memory.rule_mem("aarch64", only_refcount=True), memory.rule_mem("rv64", only_refcount=True)],
        "text": "Backend-specific pieces of the simultaneous-assignment scheme, decided per backend on folded emission lists run on the "
                "symbolic machine: the value a cycle parks with store_temporary survives every kind of intermediate `mov` that can "
                "occur while it is parked and reaches the restored temporary; the guard contains_spill_edge is folded over every "
                "move tree with up to 4 nodes to determine when a spill-to-spill move (which clobbers the scratch register) can occur "
                "with the flag unset; `mov` itself is validated for every placement pair; reference counts are updated before the "
                "moves from the one transposed map and with the old context, 0/1/n targets map to erase/nothing/share(n-1); "
                "share_block_n and erase_block themselves - what a duplicated or dropped variable expands to - are validated for "
                "temporaries in registers and in spill slots against the reference-counting scheme (R-MEMRC).",
        "assumptions": ["correctness of the spanning-forest algorithm for all assignment maps is not decided (enumeration or proof of an "
                        "algorithm over all graphs is another family)"],
    },
    "C13": {
        "rules": [abi.rule_abi("x86_64"), abi.rule_abi("aarch64"), abi.rule_spwriters],
        "text": "Calling convention decided on folded emission lists executed on a symbolic machine: prologue/epilogue pairing and "
                "callee-saved coverage for every number of entry arguments (0..5 x86-64, 0..7 AArch64), argument shuffle, heap/free "
                "initialisation, and - for every environment size 0..20, every chirality pattern of the caller-saved positions, "
                "several placements of the printed value (register and spill) and both print variants - the print sequence: value in "
                "the first argument register, 16-byte aligned stack pointer at the call (entry residue + prologue delta + local "
                "pushes), and survival of every live variable register, heap/free pointers, spill slots and the stack pointer "
                "although the call clobbers every caller-saved register, the link register, flags and memory below the stack pointer.",
        "assumptions": ["R-SPWRITERS: only the prologue/epilogue and the save/restore helpers construct stack-pointer-modifying instructions",
                        "ABI tables (SysV x86-64, AAPCS64) in analysis/isa.py"],
    },
    "C06": {
        "rules": [codegen.rule_isel("x86_64"), enums.rule_enum_dispatch, traversal.rule_trav(["axcut2backend::statements::code_statement::CodeStatement"]),
                  abi.rule_abi_cached("x86_64"), pmoves.rule_cycle, pmoves.rule_pmoves, memory.rule_mem("x86_64"), statements.rule_stmt("x86_64"), codegen.rule_regfile],
        "text": "Instruction-selection templates of the x86-64 backend validated for every reachable operand placement (environment "
                "positions straddling the register/spill boundary): each emission function (add, sub, mul, div, rem, mov, "
                "load_immediate with boundary literals of every magnitude, the twelve conditional jumps) is folded from its MIR into "
                "the instruction list it pushes, and the list is executed on a symbolic machine (operand syntax = the repo's own "
                "printer, mnemonic semantics = ISA table): target = op(src1, src2), flags = cmp(fst, snd) with the right signed "
                "condition, nothing else clobbered, every immediate/offset encodable. Plus the dispatch tables of axcut2backend "
                "(sort/operator -> method, operand order) and traversal completeness of CodeStatement.",
        "assumptions": ["memory-management sequences (acquire/release/share/erase blocks), closures and jump tables are not validated: "
                        "run-time behaviour of branching generated code",
                        "ISA semantics table in analysis/isa.py (x86-64: mov/add/sub/imul/idiv/cqo/cmp/jcc/push/pop; AArch64; RV64)"],
    },
    "C07": {
        "rules": [codegen.rule_isel("aarch64"), enums.rule_enum_dispatch, traversal.rule_trav(["axcut2backend::statements::code_statement::CodeStatement"]),
                  abi.rule_abi_cached("aarch64"), pmoves.rule_cycle, pmoves.rule_pmoves, memory.rule_mem("aarch64"), statements.rule_stmt("aarch64"), codegen.rule_regfile],
        "text": "Instruction-selection templates of the AArch64 backend validated for every reachable operand placement (environment "
                "positions straddling the register/spill boundary): each emission function (add, sub, mul, div, rem, mov, "
                "load_immediate with boundary literals of every magnitude, the twelve conditional jumps) is folded from its MIR into "
                "the instruction list it pushes, and the list is executed on a symbolic machine (operand syntax = the repo's own "
                "printer, mnemonic semantics = ISA table): target = op(src1, src2), flags = cmp(fst, snd) with the right signed "
                "condition, nothing else clobbered, every immediate/offset encodable. Plus the dispatch tables of axcut2backend "
                "(sort/operator -> method, operand order) and traversal completeness of CodeStatement.",
        "assumptions": ["memory-management sequences (acquire/release/share/erase blocks), closures and jump tables are not validated: "
                        "run-time behaviour of branching generated code",
                        "ISA semantics table in analysis/isa.py (x86-64: mov/add/sub/imul/idiv/cqo/cmp/jcc/push/pop; AArch64; RV64)"],
    },
    "C08": {
        "rules": [codegen.rule_isel("rv64"), enums.rule_enum_dispatch, traversal.rule_trav(["axcut2backend::statements::code_statement::CodeStatement"]),
                  pmoves.rule_cycle, pmoves.rule_pmoves, memory.rule_mem("rv64"), statements.rule_stmt("rv64")],
        "text": "Instruction-selection templates of the RISC-V backend validated for every reachable operand placement (environment "
                "positions straddling the register/spill boundary): each emission function (add, sub, mul, div, rem, mov, "
                "load_immediate with boundary literals of every magnitude, the twelve conditional jumps) is folded from its MIR into "
                "the instruction list it pushes, and the list is executed on a symbolic machine (operand syntax = the repo's own "
                "printer, mnemonic semantics = ISA table): target = op(src1, src2), flags = cmp(fst, snd) with the right signed "
                "condition, nothing else clobbered, every immediate/offset encodable. Plus the dispatch tables of axcut2backend "
                "(sort/operator -> method, operand order) and traversal completeness of CodeStatement.",
        "assumptions": ["memory-management sequences (acquire/release/share/erase blocks), closures and jump tables are not validated: "
                        "run-time behaviour of branching generated code",
                        "ISA semantics table in analysis/isa.py (x86-64: mov/add/sub/imul/idiv/cqo/cmp/jcc/push/pop; AArch64; RV64)"],
    },
    "C04": {
        "rules": [shape.rule_shape, shrinking.rule_chirality, shrinking.rule_samesrc, shrinking.rule_declsrc, shrinking.rule_idcmp, shrinking.rule_cutvar, shrinking.rule_cutkind, enums.rule_enum_maps({"core2axcut"}),
                  fresh.rule_fresh, fresh.rule_maxid, fresh.rule_counter, fresh.rule_eta, traversal.rule_trav(["core2axcut::shrinking::Shrinking", "scc_core_lang::traits::substitution::SubstVar",
                                                                          "scc_core_lang::traits::typed_free_vars::TypedFreeVars"]),
                  inputs.rule_useall_for(["core2axcut"], 35), traversal.rule_siblings, sharing.rule_sharepath, enums.rule_sort_selfmaps, sharing.rule_liftstore, labels.rule_label],
        "text": "Structural necessary conditions of shrinking: all 18 well-typed (producer, consumer) cut shapes are handled before the "
                "wildcard (R-SHAPE); the chirality collapse folds to the documented 6-row table (R-CHI, abstract interpretation of "
                "shrink_binding); lifted definitions get exactly the free variables, in one order, on both sides (R-SAMESRC); generated "
                "(co)matches enumerate the declaration with consistent tags and fresh environments (R-DECLSRC); operator/sort tables "
                "are name-preserving (R-ENUM); fresh identifiers are fresh (R-FRESH/R-MAXID). R-SIBLING: the fields of a focused node that its renaming rewrites are all counted by its free-variable collection (lifted statements receive exactly their free variables).",
        "assumptions": ["that each arm's right-hand side is the right AxCut statement (e.g. producer-first vs consumer-first) is not decided"],
    },
    "C19": {
        "rules": [sharing.rule_share, sharing.rule_once, sharing.rule_liftstore, sharing.rule_sharepath, translate.rule_xlate],
        "text": "Sharing discipline decided by symbolic execution of the translation functions' MIR over lazily refined shapes (finite "
                "variant sets, no solver): a consumer or statement that reaches two or more consuming uses is the result of "
                "share()/lift(), or is pinned to a size-bounded shape, or is iterated at most once. All fun2core functions with a "
                "consumer parameter and all core2axcut functions with a statement parameter are covered, so a new duplicating site "
                "is found, not only the three known ones. Inside lift() itself the shared statement (or a clone of it) is translated "
                "once per path (R-ONCE): a second, throw-away translation repeats every nested lift. The collection of lifted definitions is "
                "only ever added to by the translation (R-LIFTSTORE): looking a lifted body up and copying it to a use site undoes the sharing.",
        "assumptions": ["the degree of the polynomial is not decided; growth from other sources than duplicated continuations was not found by reading"],
    },
    "C02": {
        "rules": [hygiene.rule_hyg, hygiene.rule_seed, hygiene.rule_binders, hygiene.rule_fvscope, hygiene.rule_seq, sharing.rule_sharepath, enums.rule_sort_selfmaps, fresh.rule_eta, inputs.rule_useall_for(["fun2core"], 50), enums.rule_enum_maps({"fun2core"}), enums.rule_enum_surface, translate.rule_xlate,
                  traversal.rule_trav(["fun::traits::used_binders::UsedBinders", "fun2core::compile::Compile"])],
        "text": "Hygiene and naming clauses of the Fun->Core translation, decided for every program at once: (R-HYG) the incoming "
                "consumer is never placed under a binder copied verbatim from the source; (R-SEED) fresh names are seeded from the "
                "parameters and from all binders of the body before the first fresh name is drawn, lifted labels come from "
                "fresh_name over all definition names, no literal names; (R-TRAV) UsedBinders and Compile visit every subterm; "
                "(R-ENUM) comparison sorts and operators are translated name-preservingly from token to Core; (R-XLATE) the translation "
                "scheme of the simple term forms - which subterm is translated with which consumer, what is cut against what, where the "
                "incoming consumer ends up - is the continuation-passing translation of the language (read off the folded compile_with_cont).",
        "assumptions": ["the translation of constructors, destructors, case and new (symbol-table dependent) is decided only by the structural rules, not by R-XLATE"],
    },
    "C03": {
        "rules": [traversal.rule_trav(["scc_core_lang::traits::substitution::Subst", "scc_core_lang::traits::substitution::SubstVar",
                                   "scc_core_lang::traits::uniquify::Uniquify", "scc_core_lang::traits::focus::Focusing",
                                   "scc_core_lang::traits::focus::Bind", "scc_core_lang::traits::typed_free_vars::TypedFreeVars"]), wiring.rule_wire_intra, shape.rule_shape,
                  fresh.rule_fresh, fresh.rule_maxid, fresh.rule_counter, fresh.rule_eta, fresh.rule_shadow, fresh.rule_substscope, focus.rule_bindorder, focus.rule_focus_cut, focus.rule_bindseq, enums.rule_sort_selfmaps, inputs.rule_useall_for(["scc_core_lang"], 100)],
        "text": "Structural necessary conditions of focusing: every Subst/SubstVar/Uniquify/Focusing/Bind/TypedFreeVars impl of Core "
                "visits every subterm (R-TRAV), uniquify dominates the focusing of definitions (R-WIRE), and only producer-only "
                "shapes reach the `cannot happen` arms of Term<Cns> (R-SHAPE); a local copy of the identifier counter that is lent to a "
                "callee is read again afterwards, so no ids are forgotten (R-COUNTER). Does not decide evaluation order or semantic equivalence.",
        "assumptions": ["evaluation order produced by bind/bind_many and by-name vs once evaluation are properties of computed values, not decided"],
    },
    "C05": {
        "rules": [traversal.rule_trav(["axcut::traits::free_vars::FreeVars", "axcut::traits::substitution::Subst",
                                   "axcut::traits::typed_free_vars::TypedFreeVars", "axcut::traits::linearize::Linearizing"]), wiring.rule_wire_intra, annot.rule_annot_freevars, shape.rule_shape,
                  fresh.rule_fresh, linear.rule_linear_subst, linear.rule_linear_ctx, inputs.rule_useall_for(["axcut"], 50), traversal.rule_siblings],
        "text": "Structural necessary conditions of linearization: every FreeVars/Subst/TypedFreeVars/Linearizing impl of AxCut visits "
                "every sub-statement (R-TRAV), free-variable annotation precedes linearization (R-WIRE) and is set on every path "
                "(R-ANNOT), only Substitute reaches the panic of Statement::linearize (R-SHAPE). R-SIBLING: the same cross-check between AxCut's Subst and FreeVars / TypedFreeVars.",
        "assumptions": ["exactness of every environment on every path is value-level reasoning about lists, not decided"],
    },
    "C12": {
        "rules": [panics.rule_panic(("B",)), annot.rule_annot_check, annot.rule_annot_freevars, shape.rule_shape,
                  traversal.rule_trav(["fun::typing::check::Check"]), wiring.rule_wire_intra, hygiene.rule_fvscope, shrinking.rule_cutvar, traversal.rule_siblings, formatting.rule_nameprint, typing_rules.rule_tywf,
                  linear.rule_linear_subst, linear.rule_linear_ctx, panics.rule_idxguard, fresh.rule_eta, typing_rules.rule_tyrule, hygiene.rule_seed],
        "text": "'No internal failure' clause: every panic-capable site reachable from the post-check stage entry points is audited, "
                "and the annotation/shape classes are discharged by checked rules rather than trusted: Check sets every annotation on "
                "every Ok path and visits every subterm (R-ANNOT, R-TRAV), free-variable and closure-environment annotations are set "
                "before they are read (R-ANNOT, R-WIRE), no well-typed shape reaches a panicking wildcard (R-SHAPE). R-NAMEPRINT: the printers of types and type arguments leave no line-break opportunity when printed as names (print_to_string(None)), so the names of type instances do not depend on the page width; R-SIBLING: renaming and free-variable collection of a node agree on its variable fields. Well-scopedness after linearization - the stage the property names last - is decided by R-LINSUBST and R-LINCTX: over all alias patterns of arguments and environments the inserted substitutions bind pairwise distinct variables and every sub-statement is linearized in the environment it runs in.",
        "assumptions": ["LOOKUP rows (well-scopedness) are the residual trusted base",
                        "that each intermediate program type-checks in its own language is not decided"],
    },
    "C01": {
        "rules": [wiring.rule_wire_chain, wiring.rule_wire_intra],
        "text": "Decides the structural clause 'obtained through the x86-64 path': the driver's stage chain parsed->checked->compiled->"
                "focused->shrunk->linearized->compile::<x86-64>->into_x86_64_routine is wired as documented (each stage consumes the "
                "previous stage's result, applies its transformation, returns that result), the argument count given to the C "
                "driver is the one returned by the same compilation, and intra-stage orders (uniquify before focus, free_vars "
                "before linearize, _Cont added) hold. Necessary condition of C01, not the behavioural equivalence itself.",
        "assumptions": ["behavioural equivalence itself is the conjunction of C02-C06, C13, C14, C20 and of semantic facts not decided statically"],
    },
    "C18": {
        "rules": [panics.rule_panic(("A", "B")), panics.rule_gact, termination.rule_descent, termination.rule_loops, panics.rule_span, panics.rule_idxguard, hygiene.rule_fvscope, typing_rules.rule_tywf, typing_rules.rule_tyrule, formatting.rule_nameprint, panics.rule_negrange],
        "text": "Panic-site closure: every panic-capable construct reachable in the resolved whole-workspace call graph from the "
                "parser, the type checker and every later stage entry point is enumerated and must be an audited row; zone A "
                "(everything reachable from parse_module/parse_term/Program::check, including all 399 grammar actions) accepts "
                "only locally discharged rows. Decides 'never panics on user input' for all inputs at once. Termination: R-DESCENT decides that "
                "every recursion cycle of the pipeline's call graph is a structural descent (each recursive call receives a part of its "
                "caller's input, or an audited renaming of one), so the recursion depth is bounded by the program; R-LOOP decides that every loop is left through the exhaustion of a finite "
                "iterator or popped collection (three audited searches excepted). R-SPAN: diagnostic source spans are empty or given by token boundaries, never a constant number of bytes (miette panics when a label ends inside a multi-byte character). R-IDXGUARD: a length test in front of a constant index lets only lengths through for which the index is in range. Two invariants whose loss ends in a panic of a later stage are checked where they are established: free variables of unfocused Core are collected per binder scope (R-FVSCOPE; otherwise a lifted definition lacks a parameter and code generation fails with `Variable not found`), and a supplied type is checked for well-formedness before a term is checked against it (R-TYWF; otherwise shrinking fails with `Type not found`); and a match is accepted only with exactly one clause per xtor of its type (R-TYRULE over every clause list of up to three clauses; otherwise the reduction of a known cut fails with `Xtor not found in clauses`).",
        "assumptions": ["lalrpop's generated state machine and third-party crates do not panic",
                        "LOOKUP rows: checked programs are well-scoped (name lookups succeed)",
                        "stack overflow and allocation failure are outside the property ('within stack limits')"],
    },
    "C17": {
        "rules": [determinism.rule_hash, determinism.rule_static, determinism.rule_ambient, determinism.rule_trunc, determinism.rule_cachekey],
        "text": "Static decision of the ways the pipeline could become non-deterministic: (R-HASH) every iteration over a "
                "std hash collection in non-test workspace code ends in an order-insensitive sink; (R-STATIC) the only global "
                "mutable state is the label counter, touched only by fresh_label and used only as label text; (R-AMBIENT) no "
                "ambient source (env, time, ids, RandomState, addresses) is called from the pipeline crates, and in the command line and the "
                "driver the terminal and the environment are consulted only by the commands that lay text out for a reader (fmt, texify, "
                "completions), never on a path from the commands that print the stages of a compilation; (R-TRUNC) every artefact is written into an empty file (File::create, or "
                "OpenOptions with truncate / append / create_new), so the bytes on disk do not depend on what an earlier compilation "
                "left under the same name. Decided on the resolved MIR of every body of the workspace.",
        "assumptions": ["third-party crates (pretty, lalrpop-util, miette) are deterministic",
                        "iteration order of Vec/BTreeMap/BTreeSet/VecDeque is a function of their contents"],
    },
}


def _compose_c01():
    """C01 (end to end through x86-64) is the conjunction of the stage properties on that path: its check runs the wiring rules and
    every rule of C02-C06, C14 and C20 (the x86-64 calling-convention rule of C13 is part of C06's list); a violation of any of
    them changes what some compiled x86-64 executable does."""
    seen = set()
    out = []
    for r in list(PROPS["C01"]["rules"]) + [r for p in ("C02", "C03", "C04", "C05", "C06", "C14", "C20") for r in PROPS[p]["rules"]]:
        if id(r) in seen:
            continue
        seen.add(id(r))
        out.append(r)
    PROPS["C01"]["rules"] = out
    PROPS["C01"]["text"] += (" In addition the check runs every rule of the stage properties on the x86-64 path (C02 translation hygiene, C03 focusing, "
                             "C04 shrinking, C05 linearization, C06 x86-64 code generation incl. calling convention, parallel moves and memory "
                             "management, C14 labels and jump tables, C20 runtime contract): C01 is their conjunction, and each of those rules "
                             "reports constructs that change the behaviour of some compiled executable.")


_compose_c01()
