"""Property -> rules registry.  Rules are added here as they are built; a property without rules is not claimed."""
from .rules import determinism


def _thorough_only(rule):
    def w(ctx):
        if ctx.tier != "thorough":
            return []
        return rule(ctx)
    w.__name__ = getattr(rule, "__name__", "rule")
    return w


PROPS = {
    "C17": {
        "rules": [determinism.rule_hash, determinism.rule_static, determinism.rule_ambient],
        "text": "Static decision of the three ways the pipeline could become non-deterministic: (R-HASH) every iteration over a "
                "std hash collection in non-test workspace code ends in an order-insensitive sink; (R-STATIC) the only global "
                "mutable state is the label counter, touched only by fresh_label and used only as label text; (R-AMBIENT) no "
                "ambient source (env, time, ids, RandomState, addresses) is called from the pipeline crates. Decided on the "
                "resolved MIR of every body of the workspace.",
        "assumptions": ["third-party crates (pretty, lalrpop-util, miette) are deterministic",
                        "iteration order of Vec/BTreeMap/BTreeSet/VecDeque is a function of their contents"],
    },
}
