"""Property -> rules registry.  Rules are added here as they are built; a property without rules is not claimed."""
from .rules import determinism, panics


def _thorough_only(rule):
    def w(ctx):
        if ctx.tier != "thorough":
            return []
        return rule(ctx)
    w.__name__ = getattr(rule, "__name__", "rule")
    return w


PROPS = {
    "C18": {
        "rules": [panics.rule_panic(("A", "B")), panics.rule_gact],
        "text": "Panic-site closure: every panic-capable construct reachable in the resolved whole-workspace call graph from the "
                "parser, the type checker and every later stage entry point is enumerated and must be an audited row; zone A "
                "(everything reachable from parse_module/parse_term/Program::check, including all 399 grammar actions) accepts "
                "only locally discharged rows. Decides 'never panics on user input' for all inputs at once; termination is not decided.",
        "assumptions": ["lalrpop's generated state machine and third-party crates do not panic",
                        "LOOKUP rows: checked programs are well-scoped (name lookups succeed)",
                        "stack overflow and allocation failure are outside the property ('within stack limits')"],
    },
    "C17": {
        "rules": [determinism.rule_hash, determinism.rule_static, determinism.rule_ambient],
        "text": "Static decision of the three ways the pipeline could become non-deterministic: (R-HASH) every iteration over a "
                "std hash collection in non-test workspace code ends in an order-insensitive sink; (R-STATIC) the only global "
                "mutable state is the label counter, touched only by fresh_label and used only as label text; (R-AMBIENT) no "
                "ambient source (env, time, ids, RandomState, addresses) is called from the pipeline crates. Decided on the "
                "resolved MIR of every body of the workspace.",
        "assumptions": ["third-party crates (pretty, lalrpop-util, miette) are deterministic",
                        "iteration order of Vec/BTreeMap/BTreeSet/VecDeque is a function of their contents"],
    },
}
