"""Interpreter hooks that model the `pretty` document builder and the printer theme, so that `Print::print` impls can be
folded into token templates (what text a value is printed as)."""
from .interp import Adt, Sym, StrCat, Unknown, Vec, Ref, strcat


class Doc:
    def __init__(self, toks=None):
        self.toks = list(toks or [])

    def __repr__(self):
        return "doc(%s)" % render(self)

    def __add__(self, o):
        return Doc(self.toks + o.toks)


def to_doc(I, v):
    v = I.deref(v)
    if isinstance(v, Doc):
        return v
    if isinstance(v, str):
        return Doc([("text", v)])
    if isinstance(v, StrCat):
        return Doc([("text", p) if isinstance(p, str) else ("sym", repr(p)) for p in v.parts])
    if isinstance(v, int) and not isinstance(v, bool):
        return Doc([("text", str(v))])
    return Doc([("sym", repr(v))])


def render(d):
    out = []
    for t in d.toks:
        if t[0] in ("text", "kw", "ctor", "dtor", "typ", "comment"):
            out.append(t[1])
        elif t[0] == "space":
            out.append(" ")
        elif t[0] in ("line", "hardline"):
            out.append("\n")
        elif t[0] == "softline":
            out.append("")
        elif t[0] == "sym":
            out.append("<%s>" % t[1])
    return "".join(out)


LAYOUT_ONLY = {"group", "nest", "align", "indent", "hang", "annotate", "into_doc", "pretty", "width"}


def doc_hook(I, p, fr, t, args):
    c = t.get("callee") or ""
    n = t.get("callee_name") or ""
    rk = t.get("resolved") or ""
    if c.startswith("pretty::") or rk.startswith("pretty::"):
        if n in ("text", "as_string"):
            return to_doc(I, args[1] if len(args) > 1 else args[0])
        if n == "append":
            return to_doc(I, args[0]) + to_doc(I, args[1])
        if n in ("space",):
            return Doc([("space",)])
        if n in ("line",):
            return Doc([("line",)])
        if n in ("hardline",):
            return Doc([("hardline",)])
        if n in ("line_", "softline", "softline_"):
            return Doc([("softline",)])      # a place where the layout may break the line (prints nothing when it does not)
        if n in ("nil",):
            return Doc([])
        if n == "flat_alt" and len(args) > 1:
            # printed one way when the enclosing group is broken over several lines, another way when it fits on one: both are texts
            # the printer can produce, so both must parse
            from .interp import Fork
            return Fork([("the enclosing group is broken over several lines", to_doc(I, args[0])), ("the enclosing group fits on one line", to_doc(I, args[1]))])
        if n in LAYOUT_ONLY or n in ("clone", "to_owned", "borrow", "deref"):
            return to_doc(I, args[0])
        if n == "enclose" and len(args) > 2:
            return to_doc(I, args[1]) + to_doc(I, args[0]) + to_doc(I, args[2])
        if n in ("parens", "brackets", "braces", "angles", "double_quotes", "single_quotes"):
            o, cl = {"parens": "()", "brackets": "[]", "braces": "{}", "angles": "<>", "double_quotes": '""', "single_quotes": "''"}[n]
            return Doc([("text", o)]) + to_doc(I, args[0]) + Doc([("text", cl)])
        if n in ("intersperse", "concat"):
            src = I.deref(args[1]) if len(args) > 1 else None
            items = src.items if isinstance(src, Vec) else None
            from .interp import Iter as _Iter
            if items is None and isinstance(src, _Iter) and src.items is not None:
                items = src.items[src.pos:]
            if items is None:
                from .interp import Iter
                if isinstance(src, Iter) and src.sym is not None:
                    return Doc([("sym", repr(src.sym))])
                return Doc([("sym", "list(%r)" % (src,))])
            sep = to_doc(I, args[2]) if n == "intersperse" and len(args) > 2 else Doc([])
            d = Doc([])
            for i, it in enumerate(items):
                if i:
                    d = d + sep
                d = d + to_doc(I, it)
            return d
        return Doc([("sym", "pretty::" + n)])
    if c.startswith("scc_printer::theme::ThemeExt::") or "ThemeExt" in c:
        kind = {"keyword": "kw", "ctor": "ctor", "dtor": "dtor", "typ": "typ", "comment": "comment"}.get(n)
        if kind:
            v = I.deref(args[1])
            if isinstance(v, str):
                return Doc([(kind, v)])
            return to_doc(I, v)
    if c.startswith("scc_printer::util::") and n in ("braces_anno", "parens_anno", "brackets_anno", "backslash_anno"):
        o, cl = {"braces_anno": "{}", "parens_anno": "()", "brackets_anno": "[]", "backslash_anno": ("\\", "")}[n]
        return Doc([("text", o)]) + to_doc(I, args[0]) + Doc([("text", cl)])
    if n == "print_to_string" and c.startswith("scc_printer::"):
        v = I.deref(args[0])
        if isinstance(v, (str, StrCat)):
            return v
        if isinstance(v, Sym):
            return StrCat([v])
        return NotImplemented
    if n == "print" and t.get("callee_trait") == "scc_printer::types::Print":
        v = I.deref(args[0])
        if isinstance(v, (str, StrCat, Sym)) or (isinstance(v, int) and not isinstance(v, bool)):
            return to_doc(I, v)
        return NotImplemented
    return NotImplemented
