"""Audit tables: frozen, hand-confirmed rule instances (one reason per row)."""
import os
import tomllib

from .facts import VERIF, AnalysisError


def load(name):
    p = os.path.join(VERIF, "audit", name + ".toml")
    with open(p, "rb") as f:
        d = tomllib.load(f)
    rows = d.get("row", [])
    for r in rows:
        if "key" not in r or "reason" not in r:
            raise AnalysisError("audit table %s: row without key/reason: %r" % (name, r))
    return d, {r["key"]: r for r in rows}
