"""Collection provenance: which root collection(s) a Vec/iterator value was built from."""
from .mir import Fn, Flow, op_root, place_fields

# order- and content-preserving plumbing only (rev/filter/zip/chain/enumerate are deliberately absent: they change the sequence)
ITER_PASS = {"iter", "iter_mut", "into_iter", "map", "cloned", "copied", "collect", "into", "from", "clone",
             "as_slice", "to_vec", "deref", "deref_mut", "as_ref", "unwrap_or_clone", "new", "to_owned",
             "into_boxed_slice", "into_vec", "from_iter", "by_ref", "as_mut", "borrow", "branch", "unwrap", "expect", "unzip"}


def make_flow(fn, fx, extra_names=()):
    names = set(ITER_PASS) | set(extra_names)

    def p(t):
        n = t.get("callee_name")
        if n not in names:
            return False
        c = t.get("callee") or ""
        if c.startswith(("core::", "alloc::", "std::")):
            return True
        if n in extra_names:
            # a helper of the workspace that hands a collection on: as a method of the translation state it takes the collection second
            a = t.get("args") or []
            if len(a) > 1 and a[0].get("pl") and not a[0]["pl"]["p"]:
                ty0 = fn.f["locals"][a[0]["pl"]["l"]]["ty"]
                if ty0.startswith("&") and "State" in ty0:
                    return 1
            return True
        return False
    return Flow(fn, extra_pass=p, only_extra=True)


_HELPER_MEMO = {}


def _helper_roots(fx, key, sub, extra_names, hdepth, stop_names=()):
    """roots of (the `sub` component of) the value a workspace helper returns, in the helper's own terms"""
    mk = (id(fx), key, sub, tuple(sorted(extra_names)), tuple(sorted(stop_names)))
    if mk not in _HELPER_MEMO:
        _HELPER_MEMO[mk] = None
        hfn = Fn(fx.fns[key])
        hflow = make_flow(hfn, fx, extra_names=extra_names)
        pl = {"l": 0, "p": [{"f": i, "n": n} for i, n in enumerate(sub)]}
        _HELPER_MEMO[mk] = (hfn, collection_roots(hfn, hflow, {"k": "copy", "pl": pl}, 0, fx=fx, extra_names=extra_names, hdepth=hdepth + 1, stop_names=stop_names))
    return _HELPER_MEMO[mk]


def collection_roots(fn, flow, operand, depth=0, fx=None, extra_names=(), hdepth=0, stop_names=()):
    """Root origins of a collection-valued operand.  A root is an origin tuple from Flow.origins; a collection created
    empty (Vec::new/with_capacity/default) and filled by `push` inside a loop is replaced by the roots of the loop's
    iterator and marked ('loop', ...)."""
    r = op_root(operand)
    if r is None:
        return {("const",)}
    out = set()
    for o in flow.origins(r, tuple(place_fields(operand["pl"]))):
        if o[0] == "call":
            t = fn.term(o[1])
            if t.get("callee_name") in ("new", "with_capacity", "default") and (t.get("callee") or "").startswith(("alloc::", "std::", "core::")) and depth < 3:
                filled = _fill_roots(fn, flow, t["dest"]["l"], depth)
                out |= filled if filled else {o}
                continue
            # a helper of the workspace: what it returns, traced through its body (its parameters mapped back to the arguments here)
            k2 = t.get("resolved_key") or (t.get("callee_key") if not t.get("callee_trait") else None)
            if fx is not None and k2 in fx.fns and hdepth < 3 and "{closure" not in k2 and len(fx.fns[k2]["blocks"]) < 200 \
                    and t.get("callee_name") not in stop_names:
                hr = _helper_roots(fx, k2, tuple(o[2]), extra_names, hdepth, stop_names)
                if hr is not None:
                    hfn, roots = hr
                    mapped = set()
                    okmap = True
                    for r2 in roots:
                        tag = r2[0] if r2[0] != "loop" else r2[1]
                        body = r2 if r2[0] != "loop" else r2[1:]
                        if tag == "call":
                            mapped.add(("hcall", hfn.term(body[1]).get("callee_name"), hfn.term(body[1]).get("callee_key")))
                        elif tag == "hcall":
                            mapped.add(body)
                        elif tag == "arg" and body[1] - 1 < len(t["args"]) and t["args"][body[1] - 1].get("k") in ("copy", "move"):
                            a = t["args"][body[1] - 1]
                            a2 = {"k": a["k"], "pl": {"l": a["pl"]["l"], "p": list(a["pl"]["p"]) + [{"f": 0, "n": n} for n in body[2]]}}
                            mapped |= collection_roots(fn, flow, a2, depth + 1, fx=fx, extra_names=extra_names, hdepth=hdepth, stop_names=stop_names)
                        else:
                            okmap = False
                    if okmap and mapped:
                        out |= mapped
                        continue
        if o[0] == "agg" and depth < 4:
            rv = flow.agg_at(o)
            if rv.get("agg") == "adt" and len(rv["ops"]) <= 2 and rv.get("fields") and set(rv["fields"]) & {"bindings", "entries"}:
                for fld, op in zip(rv["fields"], rv["ops"]):
                    if fld in ("bindings", "entries"):
                        out |= collection_roots(fn, flow, op, depth + 1, fx=fx, extra_names=extra_names, hdepth=hdepth, stop_names=stop_names)
                continue
        out.add(o)
    return out


def _aliases(fn, local):
    """locals that alias the collection created in `local`: copies, moves and borrows of it, and borrows of the field of an
    aggregate it was moved into (`let c = Ctx { bindings: v }; c.bindings.push(..)`)"""
    al = {local}
    held = set()        # (aggregate local, field name) holding the collection
    changed = True
    while changed:
        changed = False
        for bi, si, s in fn.stmts():
            rv = s["rv"]
            if s["lhs"]["p"]:
                continue
            src = None
            if rv["k"] in ("ref", "rawptr"):
                src = rv["pl"]
            elif rv["k"] in ("use", "cast") and rv["op"].get("k") in ("copy", "move"):
                src = rv["op"]["pl"]
            elif rv["k"] == "agg" and rv.get("agg") == "adt" and rv.get("fields"):
                for fld, op in zip(rv["fields"], rv["ops"]):
                    if op.get("k") in ("copy", "move") and op["pl"]["l"] in al and not op["pl"]["p"] and (s["lhs"]["l"], fld) not in held:
                        held.add((s["lhs"]["l"], fld))
                        changed = True
            if src and s["lhs"]["l"] not in al:
                flds = [e["n"] for e in src["p"] if isinstance(e, dict) and "f" in e]
                if (src["l"] in al and not flds) or (len(flds) == 1 and (src["l"], flds[0]) in held):
                    al.add(s["lhs"]["l"])
                    changed = True
                elif not flds and any(h[0] == src["l"] for h in held):
                    # a copy / move / borrow of the whole aggregate holds the collection in the same field
                    for h in list(held):
                        if h[0] == src["l"] and (s["lhs"]["l"], h[1]) not in held:
                            held.add((s["lhs"]["l"], h[1]))
                            changed = True
    return al


def _fill_roots(fn, flow, vec_local, depth):
    """roots of the iterators driving the loops in which `vec_local` receives pushes"""
    al = _aliases(fn, vec_local)
    # moved-into locals (let mut v = Vec::new(); ... v) are aliases as well via `use`
    roots = set()
    nexts = [(bi, t) for bi, t in fn.calls() if t.get("callee_name") == "next" and t.get("callee_trait") == "core::iter::traits::iterator::Iterator"]
    for bi, t in fn.calls():
        if t.get("callee_name") in ("push", "push_back", "push_front", "insert", "extend") and t["args"]:
            a0 = op_root(t["args"][0])
            if a0 in al:
                drv = [(nb, nt) for nb, nt in nexts if fn.dominates(nb, bi)]
                if not drv:
                    roots.add(("push-outside-loop", bi))
                for nb, nt in drv:
                    roots |= {("loop",) + tuple(x) for x in collection_roots(fn, flow, nt["args"][0], depth + 1)}
    return roots


def strip_loop(roots):
    return {r[1:] if r and r[0] == "loop" else r for r in roots}
