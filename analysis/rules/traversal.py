"""R-TRAV: traversal completeness of the syntax-directed traits."""
from .. import audit
from ..core import RuleResult
from ..mir import Fn, Flow, op_root, place_fields, ret_param_sources

# trait -> (methods that constitute "the traversal", family = method names that count as the recursive call)
TRAV_TRAITS = {
    "fun::typing::check::Check": (["check"], {"check", "check_args"}),
    "fun::traits::used_binders::UsedBinders": (["used_binders"], {"used_binders"}),
    "fun2core::compile::Compile": (["compile_with_cont", "compile"], {"compile_with_cont", "compile", "compile_subst", "compile_clause", "compile_coclause"}),
    "scc_core_lang::traits::substitution::Subst": (["subst_sim"], {"subst_sim"}),
    "scc_core_lang::traits::substitution::SubstVar": (["subst_sim"], {"subst_sim"}),
    "scc_core_lang::traits::uniquify::Uniquify": (["uniquify"], {"uniquify"}),
    "scc_core_lang::traits::focus::Focusing": (["focus"], {"focus", "bind", "bind_many"}),
    "scc_core_lang::traits::focus::Bind": (["bind"], {"focus", "bind", "bind_many"}),
    "scc_core_lang::traits::typed_free_vars::TypedFreeVars": (["typed_free_vars"], {"typed_free_vars"}),
    "core2axcut::shrinking::Shrinking": (["shrink"], {"shrink"}),
    "axcut::traits::free_vars::FreeVars": (["free_vars"], {"free_vars"}),
    "axcut::traits::substitution::Subst": (["subst_sim"], {"subst_sim"}),
    "axcut::traits::typed_free_vars::TypedFreeVars": (["typed_free_vars"], {"typed_free_vars"}),
    "axcut::traits::linearize::Linearizing": (["linearize"], {"linearize"}),
    "axcut2backend::statements::code_statement::CodeStatement": (["code_statement"], {"code_statement"}),
    "scc_printer::types::Print": (["print"], {"print", "print_prec", "print_to_string"}),
}
# traits for which reading the field is the criterion (the field is rendered/translated, not only recursed into)
MENTION_ONLY = {"scc_printer::types::Print", "axcut2backend::statements::code_statement::CodeStatement",
                "core2axcut::shrinking::Shrinking", "axcut::traits::linearize::Linearizing", "fun::typing::check::Check",
                "fun2core::compile::Compile"}
PRINT_CRATES = {"fun", "scc_core_lang", "axcut"}
WRAPPERS = ("alloc::rc::Rc", "alloc::boxed::Box", "alloc::vec::Vec", "core::option::Option", "alloc::collections::vec_deque::VecDeque")

ITER_CONSUMERS = {"map", "for_each", "fold", "extend", "collect", "flat_map", "filter_map", "any", "all", "try_fold", "next", "unzip", "zip"}
STD_PASS = {"iter", "iter_mut", "into_iter", "as_slice", "as_ref", "unwrap_or_clone", "map", "clone", "cloned", "branch", "as_deref",
            "as_mut", "take", "unwrap", "expect", "zip", "rev", "enumerate", "deref", "deref_mut", "into", "from", "new", "to_owned"}


def _closure_family(fx, parent_key, family):
    """paths of closures (transitively nested) of parent_key whose body calls a method of the family"""
    out = set()
    for k, g in fx.fns.items():
        par = g.get("parent") or ""
        if par == parent_key or par.startswith(parent_key + "::{"):
            for b in g["blocks"]:
                t = b["term"]
                if t["k"] == "call" and t.get("callee_name") in family and (t.get("callee") or "").split("::")[0] in fx.crates:
                    kk = k
                    while kk and kk != parent_key and kk in fx.fns:
                        out.add(fx.fns[kk]["path"])
                        kk = fx.fns[kk].get("parent")
                    break
    return out


def _pl(pl, out):
    if not pl:
        return
    for e in pl["p"]:
        if isinstance(e, dict) and "f" in e and e.get("of"):
            out.add((e["of"], e["n"]))


def _mentions(fx, key):
    out = set()
    keys = [key] + [k for k, g in fx.fns.items() if (g.get("parent") or "") == key or (g.get("parent") or "").startswith(key + "::{")]
    for k in keys:
        f = fx.fns[k]
        for b in f["blocks"]:
            for s in b["stmts"]:
                _pl(s.get("lhs"), out)
                rv = s.get("rv")
                if rv:
                    _pl(rv.get("pl"), out)
                    for kk in ("op", "a", "b"):
                        if isinstance(rv.get(kk), dict):
                            _pl(rv[kk].get("pl"), out)
                    for o in rv.get("ops", []):
                        _pl(o.get("pl"), out)
            t = b["term"]
            for a in t.get("args", []):
                _pl(a.get("pl"), out)
            for kk in ("discr", "cond", "func"):
                if isinstance(t.get(kk), dict):
                    _pl(t[kk].get("pl"), out)
            _pl(t.get("pl"), out)
            _pl(t.get("dest"), out)
        for v in f["vars"]:
            _pl(v["pl"], out)
    return out


def _delegates_whole_self(fx, key):
    """the method hands `self` as a whole (no field projection) to a workspace function: fields are that callee's business"""
    f = fx.fns[key]
    if f["argc"] < 1:
        return False
    alias = {1}
    ws = set(fx.crates)
    for _ in range(3):
        for b in f["blocks"]:
            for s in b["stmts"]:
                if s["k"] == "assign" and not s["lhs"]["p"]:
                    rv = s["rv"]
                    pl = rv.get("pl") if rv["k"] in ("ref", "rawptr") else (rv.get("op", {}).get("pl") if rv["k"] in ("use", "cast") else None)
                    if pl and pl["l"] in alias and all(e == "*" for e in pl["p"]):
                        alias.add(s["lhs"]["l"])
    for b in f["blocks"]:
        t = b["term"]
        if t["k"] != "call":
            continue
        c = t.get("resolved") or t.get("callee") or ""
        for a in t["args"]:
            pl = a.get("pl")
            if pl and pl["l"] in alias and all(e == "*" for e in pl["p"]):
                if c.split("::")[0].lstrip("<") in ws:
                    return True
                if t.get("callee_name") in ("unwrap_or_clone", "clone", "into", "from") and t["dest"]["l"] not in alias:
                    alias.add(t["dest"]["l"])
    return False


def _is_fam_closure(flow, a, fam_closures):
    l = op_root(a)
    if l is None:
        return False
    for o in flow.origins(l, ()):
        if o[0] == "agg" and flow.agg_at(o).get("closure") in fam_closures:
            return True
    return False


_REACH_MEMO = {}


def _reaching(fx, key, tr, family, depth=0):
    """(parameter, first field or None) pairs of `key` that flow into a call of the traversal family: directly, through an iterator
    adaptor whose closure performs the call, by being captured by such a closure, or through a helper of the workspace that
    hands its own parameter on to the family (followed two levels deep)"""
    mk = (id(fx), key, tr, tuple(sorted(family)))
    if mk in _REACH_MEMO:
        return _REACH_MEMO[mk]
    _REACH_MEMO[mk] = set()
    fn = Fn(fx.fns[key])
    flow = Flow(fn, extra_pass=lambda t: t.get("callee_name") in STD_PASS and (t.get("callee") or "").startswith(("core::", "alloc::", "std::")))
    fam_closures = _closure_family(fx, key, family)
    reached = set()

    def note(operand, d=0):
        r = op_root(operand)
        if r is None:
            return
        for o in flow.origins(r, tuple(place_fields(operand["pl"]))):
            if o[0] == "arg":
                reached.add((o[1], o[2][0] if o[2] else None))
            elif o[0] == "call" and d < 4:
                # the value handed on is the result of a call: it stands for what that result derives from - the parameters a
                # workspace helper builds its result from (`renaming.apply(self.body)`), else the receiver of the call
                tc = fn.term(o[1])
                k3 = tc.get("resolved_key") or (tc.get("callee_key") if not tc.get("callee_trait") else None)
                srcs = ret_param_sources(fx, k3) if k3 in fx.fns else None
                for pi in (sorted(srcs) if srcs else [1]):
                    if pi - 1 < len(tc["args"]) and tc["args"][pi - 1].get("k") in ("copy", "move"):
                        note(tc["args"][pi - 1], d + 1)

    for bi, t in fn.calls():
        c = t.get("callee") or ""
        in_ws = c.split("::")[0] in fx.crates
        fam = (t.get("callee_trait") == tr) or (t.get("callee_name") in family and in_ws)
        has_closure = any((a.get("k") in ("copy", "move") and _is_fam_closure(flow, a, fam_closures)) or
                          (a.get("k") == "const" and a.get("closure") in fam_closures) for a in t["args"])
        if fam or (has_closure and (t.get("callee_name") in ITER_CONSUMERS or in_ws or t.get("callee_name") == "new")):
            for a in t["args"]:
                note(a)
            continue
        k2 = t.get("resolved_key") or (t.get("callee_key") if not t.get("callee_trait") else None)
        if in_ws and depth < 2 and k2 in fx.fns and k2 != key and "{closure" not in k2:
            for (pi, _fld) in _reaching(fx, k2, tr, family, depth + 1):
                if pi - 1 < len(t["args"]):
                    note(t["args"][pi - 1])
    for bi, si, s in fn.stmts():
        rv = s["rv"]
        if rv["k"] == "agg" and rv.get("closure") in fam_closures:
            for o in rv["ops"]:
                note(o)
    # closures of a helper receive its parameters as captures: what they hand to the family counts for the helper
    _REACH_MEMO[mk] = reached
    return reached


def _fields_reaching_family(fx, key, tr, family):
    return {fld for (pi, fld) in _reaching(fx, key, tr, family) if pi == 1 and fld}


MUST_TRAITS = {"scc_core_lang::traits::uniquify::Uniquify", "scc_core_lang::traits::substitution::Subst", "scc_core_lang::traits::substitution::SubstVar",
               "axcut::traits::substitution::Subst", "axcut::traits::free_vars::FreeVars", "scc_core_lang::traits::focus::Focusing"}


def _skipping_path(fx, key, tr, family, field):
    """a path from the entry of the traversal method to its return on which the field never reaches the traversal family although
    nothing on the path depends on the field itself (a test of the field's own shape - `if let Some(x) = self.f`, a loop over it -
    legitimately decides whether there is anything to visit).  Returns the line of the return reached, or None."""
    fn = Fn(fx.fns[key])
    f = fx.fns[key]
    flow = Flow(fn, extra_pass=lambda t: t.get("callee_name") in STD_PASS and (t.get("callee") or "").startswith(("core::", "alloc::", "std::")))
    fam_closures = _closure_family(fx, key, family)

    def from_field(operand, d=0):
        r = op_root(operand)
        if r is None:
            return False
        for o in flow.origins(r, tuple(place_fields(operand["pl"]))):
            if o[0] == "arg" and o[1] == 1 and o[2] and o[2][0] == field:
                return True
            if o[0] == "call" and d < 4:
                tc = fn.term(o[1])
                k3 = tc.get("resolved_key") or (tc.get("callee_key") if not tc.get("callee_trait") else None)
                srcs = ret_param_sources(fx, k3) if k3 in fx.fns else None
                for pi in (sorted(srcs) if srcs else [1]):
                    if pi - 1 < len(tc["args"]) and tc["args"][pi - 1].get("k") in ("copy", "move") and from_field(tc["args"][pi - 1], d + 1):
                        return True
        return False
    visit = set()       # blocks in which the field is handed to the family
    for bi, t in fn.calls():
        c = t.get("callee") or ""
        in_ws = c.split("::")[0] in fx.crates
        fam = (t.get("callee_trait") == tr) or (t.get("callee_name") in family and in_ws)
        has_closure = any((a.get("k") in ("copy", "move") and _is_fam_closure(flow, a, fam_closures)) or
                          (a.get("k") == "const" and a.get("closure") in fam_closures) for a in t["args"])
        helper = False
        k2 = t.get("resolved_key") or (t.get("callee_key") if not t.get("callee_trait") else None)
        if not fam and in_ws and k2 in fx.fns and "{closure" not in k2:
            hp = {pi for (pi, _f) in _reaching(fx, k2, tr, family, 1)}
            helper = any(pi - 1 < len(t["args"]) and from_field(t["args"][pi - 1]) for pi in hp)
        if helper or ((fam or (has_closure and (t.get("callee_name") in ITER_CONSUMERS or in_ws or t.get("callee_name") == "new"))) and any(from_field(a) for a in t["args"])):
            visit.add(bi)
    for bi, si, s_ in fn.stmts():
        rv = s_["rv"]
        if rv["k"] == "agg" and rv.get("closure") in fam_closures and any(from_field(o) for o in rv["ops"]):
            visit.add(bi)
    if not visit:
        return None         # the may-rule reports a field that is never visited
    # switches that depend on the field itself end the search: they decide whether there is anything to visit
    own = set()
    for b in fn.reach:
        t = f["blocks"][b]["term"]
        if t["k"] == "switch" and isinstance(t.get("discr"), dict) and t["discr"].get("pl"):
            if from_field(t["discr"]):
                own.add(b)
            else:
                for d in fn.defs().get(t["discr"]["pl"]["l"], []):
                    rv = d.get("rv") or {}
                    if rv.get("k") == "discr" and rv.get("pl") and from_field({"k": "copy", "pl": rv["pl"]}):
                        own.add(b)
                    if d["kind"] == "call" and d["term"]["args"] and from_field(d["term"]["args"][0]) and d["term"].get("callee_name") in ("is_empty", "is_some", "is_none", "len", "next", "pop", "pop_front"):
                        own.add(b)
    seen, work = set(), [0]
    while work:
        x = work.pop()
        if x in seen or x in visit or x in own or x not in fn.reach:
            continue
        seen.add(x)
        if f["blocks"][x]["term"]["k"] == "return":
            return (f["blocks"][x]["term"].get("sp") or f["sp"]).get("line")
        work.extend(fn.succ[x])
    return None


def _family_with_helpers(ctx, trait, family):
    """the family of recursive calls, extended by the helpers of the trait's crate that make such a call on one of their own
    parameters (`bind_operand(term, k, max_id)` = `term.bind(k', max_id)`), three levels"""
    def build():
        fx = ctx.fx
        crate = trait.split("::")[0]
        fam = set(family)
        for _ in range(3):
            grew = False
            for k, g in fx.fns.items():
                if g["crate"] != crate or "{" in k or k.startswith("<") or not g.get("name") or g["name"] in fam or g["argc"] == 0:
                    continue
                bodies = [g] + [h for hk, h in fx.fns.items() if (h.get("parent") or "").startswith(k) and "{promoted" not in hk]
                hit = False
                for h in bodies[:1]:
                    hfn = None
                    for b in h["blocks"]:
                        t = b["term"]
                        if t["k"] != "call" or t.get("callee_name") not in fam or (t.get("callee") or "").split("::")[0] not in fx.crates:
                            continue
                        hfn = hfn or Fn(h)
                        hflow = Flow(hfn, extra_pass=lambda t_: t_.get("callee_name") in STD_PASS and (t_.get("callee") or "").startswith(("core::", "alloc::", "std::")))
                        for a in t["args"][:1]:
                            r = op_root(a)
                            if r is not None and any(o[0] == "arg" and 1 <= o[1] <= h["argc"] for o in hflow.origins(r, ())):
                                hit = True
                if hit:
                    fam.add(g["name"])
                    grew = True
            if not grew:
                break
        return fam
    return ctx.memo("trav_family:" + trait, build)


def rule_trav(traits=None, name="R-TRAV"):
    def rule(ctx):
        fx = ctx.fx
        res = RuleResult(name, "traversal completeness: for every `impl T for S` of the syntax-directed traits, each field of S whose "
                         "(instantiated) type implements T or is a type parameter must be visited by the traversal method: it flows "
                         "into a recursive call of the trait family (directly, via an iterator adaptor, or captured by a closure "
                         "that makes the call); for rendering/translation traits it must at least be read. Legitimately skipped "
                         "fields (binders, labels, annotations) are rows of audit/traversal.toml")
        doc, rows = audit.load("traversal")
        skip_fields = set(doc.get("skip_fields", {}).get("names", []))
        impl_adts = {}
        for imp in fx.impls:
            tr = imp.get("trait")
            if tr in TRAV_TRAITS:
                for a in (imp.get("self_adt"), imp.get("self_core")):
                    if a:
                        impl_adts.setdefault(tr, set()).add(a)
        want = traits or list(TRAV_TRAITS)
        n_impls = 0
        used_rows = set()
        for imp in fx.impls:
            tr = imp.get("trait")
            if tr not in want:
                continue
            adt = imp.get("self_adt")
            if not adt or adt not in fx.adts or adt.startswith(WRAPPERS) or "inst_variants" not in imp:
                continue
            if tr == "scc_printer::types::Print" and imp["crate"] not in PRINT_CRATES:
                continue
            methods, family = TRAV_TRAITS[tr]
            family = _family_with_helpers(ctx, tr, family)
            mkeys = [m["key"] for m in imp["methods"] if m["name"] in methods and m["key"] in fx.fns]
            if not mkeys:
                continue
            n_impls += 1
            f = fx.fns[mkeys[0]]
            if all(_delegates_whole_self(fx, mk) for mk in mkeys):
                res.inst("%s|%s|<whole self delegated>" % (tr, imp["self"]), f["sp"]["file"], f["sp"]["line"], "ok",
                         "passes self as a whole to another workspace function", nontrivial=False)
                continue
            ment = set()
            reached = set()
            for mk in mkeys:
                ment |= _mentions(fx, mk)
                if tr not in MENTION_ONLY:
                    reached |= _fields_reaching_family(fx, mk, tr, family)
            is_enum = fx.adts[adt]["kind"] == "enum"
            for v in imp["inst_variants"]:
                owner = "%s::%s" % (adt, v["name"])
                for fld in v["fields"]:
                    core = fld.get("core") or fld.get("adt")
                    trav = (core in impl_adts.get(tr, ())) or fld["is_param"]
                    if not trav or fld["name"] in skip_fields:
                        continue
                    fullkey = "%s|%s|%s.%s" % (tr, adt, v["name"], fld["name"])
                    mentioned = (owner, fld["name"]) in ment
                    strong = (tr in MENTION_ONLY) or is_enum or (fld["name"] in reached)
                    skip_line = None
                    if mentioned and strong and tr in MUST_TRAITS and not is_enum and fullkey not in rows:
                        for mk in mkeys:
                            skip_line = skip_line or _skipping_path(fx, mk, tr, family, fld["name"])
                    if skip_line is not None:
                        res.inst(fullkey + "@every-path", f["sp"]["file"], f["sp"]["line"], "violation")
                        res.violate(fullkey + "@every-path", "`%s::%s` for %s hands field `%s` to the recursive %s call on some paths only: there is a path to the "
                                    "return (line %s) that skips it although nothing on that path looks at the field itself - on that path the subterm is not traversed" %
                                    (tr.split("::")[-1], methods[0], imp["self"].split("::")[-1], fld["name"], "/".join(sorted(family)), skip_line),
                                    f["sp"]["file"], f["sp"]["line"])
                    elif mentioned and strong:
                        res.inst(fullkey, f["sp"]["file"], f["sp"]["line"], "ok")
                    elif fullkey in rows:
                        used_rows.add(fullkey)
                        res.inst(fullkey, f["sp"]["file"], f["sp"]["line"], "audited", rows[fullkey]["reason"])
                    else:
                        what = "never touches" if not mentioned else "reads but never hands to the recursive %s call" % "/".join(sorted(family))
                        res.inst(fullkey, f["sp"]["file"], f["sp"]["line"], "violation")
                        res.violate(fullkey, "`%s::%s` for %s %s field `%s` (type %s): the subterm is silently skipped" %
                                    (tr.split("::")[-1], methods[0], imp["self"].split("::")[-1] + ("::" + v["name"] if is_enum else ""),
                                     what, fld["name"], fld["ty"]), f["sp"]["file"], f["sp"]["line"])
        res.notes.append("impl methods examined: %d; audit rows used: %d of %d" % (n_impls, len(used_rows), len(rows)))
        return res
    rule.__name__ = "rule_trav"
    return rule


def _fields_into(fx, key, trait, names, acc_param=None):
    """first-level fields of `self` that flow - through moves, borrows, clones, aggregates and helpers - into a call of the trait
    family / one of `names`, or (acc_param given) into a value inserted into the accumulator parameter"""
    fn = Fn(fx.fns[key])
    flow = Flow(fn, extra_pass=lambda t: t.get("callee_name") in STD_PASS and (t.get("callee") or "").startswith(("core::", "alloc::", "std::")), fx=fx)
    out = set()

    def fields_of(operand, d=0, seen=None):
        seen = seen if seen is not None else set()
        r = op_root(operand)
        if r is None:
            return set()
        res_ = set()
        for o in flow.origins(r, tuple(place_fields(operand["pl"]))):
            if o in seen:
                continue
            seen.add(o)
            if o[0] == "arg" and o[1] == 1 and o[2]:
                res_.add(o[2][0])
            elif o[0] == "arg" and o[1] == 1:
                res_.add("*")       # the node as a whole (handed to a helper that picks what it needs)
            elif o[0] == "agg" and d < 5:
                for op in flow.agg_at(o)["ops"]:
                    if op.get("k") in ("copy", "move"):
                        res_ |= fields_of(op, d + 1, seen)
            elif o[0] == "call" and d < 5:
                tc = fn.term(o[1])
                k3 = tc.get("resolved_key") or (tc.get("callee_key") if not tc.get("callee_trait") else None)
                srcs = ret_param_sources(fx, k3) if k3 in fx.fns else None
                for pi in (sorted(srcs) if srcs else range(1, len(tc["args"]) + 1)):
                    if pi - 1 < len(tc["args"]) and tc["args"][pi - 1].get("k") in ("copy", "move"):
                        res_ |= fields_of(tc["args"][pi - 1], d + 1, seen)
        return res_
    bodies = [(fn, flow)]
    for bi, t in fn.calls():
        c = t.get("callee") or ""
        fam = t.get("callee_trait") == trait or (t.get("callee_name") in names and c.split("::")[0] in fx.crates)
        ins = False
        if acc_param is not None and t.get("callee_name") in ("insert", "extend", "push") and c.startswith(("alloc::", "std::", "core::")) and t["args"]:
            r0 = op_root(t["args"][0])
            ins = r0 is not None and any(o[0] == "arg" and o[1] == acc_param for o in flow.origins(r0, ()))
        if fam:
            for a in t["args"][:1]:
                out |= fields_of(a)
        elif ins:
            for a in t["args"][1:]:
                out |= fields_of(a)
    return out


def rule_siblings(ctx):
    """R-SIBLING: free-variable collection and renaming of one node agree on which of its fields are variables"""
    fx = ctx.fx
    res = RuleResult("R-SIBLING", "cross-check of sibling traversals of the focused Core statements and of the AxCut statements: the fields of a node that "
                     "its renaming (`SubstVar::subst_sim` / AxCut `Subst::subst_sim`) rewrites are occurrences of variables and subterms, so each "
                     "of them must also be counted by the node's free-variable collection (`typed_free_vars` / `free_vars`: handed to the "
                     "recursive call or inserted into the set), and vice versa - a field one of them forgets is a variable that lifting or "
                     "linearization passes on wrongly")
    pairs = [("scc_core_lang::traits::substitution::SubstVar", "subst_sim", "scc_core_lang::traits::typed_free_vars::TypedFreeVars", "typed_free_vars", 2),
             ("axcut::traits::substitution::Subst", "subst_sim", "axcut::traits::free_vars::FreeVars", "free_vars", 2),
             ("axcut::traits::substitution::Subst", "subst_sim", "axcut::traits::typed_free_vars::TypedFreeVars", "typed_free_vars", 2)]
    n = 0
    _, rows = audit.load("traversal")
    for tr_s, m_s, tr_f, m_f, accp in pairs:
        # keyed by the impl's self type as written (IfC and the focused IfC<Identifier, FsStatement> are impls for one ADT)
        impl_s = {imp.get("self"): imp for imp in fx.impls if imp.get("trait") == tr_s and imp.get("self_adt") in fx.adts}
        impl_f = {imp.get("self"): imp for imp in fx.impls if imp.get("trait") == tr_f and imp.get("self_adt") in fx.adts}
        for selfty in sorted(set(impl_s) & set(impl_f)):
            adt = impl_s[selfty]["self_adt"]
            if adt.startswith(WRAPPERS) or fx.adts[adt]["kind"] != "struct":
                continue
            impl_s[adt], impl_f[adt] = impl_s[selfty], impl_f[selfty]
            ks = [m["key"] for m in impl_s[adt]["methods"] if m["name"] == m_s and m["key"] in fx.fns]
            kf = [m["key"] for m in impl_f[adt]["methods"] if m["name"] == m_f and m["key"] in fx.fns]
            if not ks or not kf:
                continue
            fs = _fields_into(fx, ks[0], tr_s, {m_s})
            ff = _fields_into(fx, kf[0], tr_f, {m_f}, acc_param=accp)
            # annotations (the cached free-variable sets, the closure environment) are renamed along with the node but are results of
            # the free-variable pass, not inputs to it: optional sets of ids and the optional closure context
            ann = set()
            if adt.startswith("axcut::"):
                ann |= {fd["name"] for fd in fx.adts[adt]["variants"][0]["fields"] if fd["ty"].startswith("std::option::Option<std::collections::HashSet") or
                        (fd["name"] == "context" and fd["ty"].startswith("std::option::Option<"))}
            fs -= ann
            f0 = fx.fns[kf[0]]
            n += 1
            ikey = "%s|%s" % (tr_f.split("::")[-1], selfty)
            # binders are renamed consistently or removed from the set: fields that only one side touches are compared after removing
            # the ones the free-variable side *removes* (a binder) - those are audited by name in audit/traversal.toml (skip_fields)
            only_s = sorted(fs - ff - {"*"})
            if "*" in ff:
                res.inst(ikey, f0["sp"]["file"], f0["sp"]["line"], "ok", "the node as a whole is handed to a helper whose result is counted", nontrivial=False)
            elif only_s:
                res.inst(ikey, f0["sp"]["file"], f0["sp"]["line"], "violation", "renamed but not counted: %s" % only_s)
                res.violate(ikey, "%s renames field(s) %s of %s, but %s never counts them (neither hands them to the recursive call nor inserts them into the "
                            "set): a free variable is missing from the set, so a lifted or linearized statement does not receive it" %
                            (m_s, ", ".join(only_s), adt.split("::")[-1], m_f), f0["sp"]["file"], f0["sp"]["line"])
            else:
                res.inst(ikey, f0["sp"]["file"], f0["sp"]["line"], "ok", "renamed fields %s all counted" % sorted(fs))
    res.require_floor(10)
    return res
