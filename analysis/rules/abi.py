"""C13: the generated routine honours the platform calling convention - decided on folded emission lists run on the
symbolic machine, for every number of entry arguments and every (environment size, chirality pattern, argument placement)
class at a print."""
import itertools

from .. import backend, isa, interp
from ..core import RuleResult
from ..facts import AnalysisError
from ..interp import Adt, Sym, Vec
from .codegen import Target, temporary_at, _read_loc

AX = "axcut::syntax::"


def binding(i, chi):
    return Adt(AX + "context::ContextBinding", "ContextBinding", {
        "var": Adt(AX + "names::Identifier", "Identifier", {"name": "v%d" % i, "id": i + 1}),
        "chi": Adt(AX + "context::Chirality", chi, {}),
        "ty": Adt(AX + "types::Ty", "I64", {}) if chi == "Ext" else Adt(AX + "types::Ty", "Decl", {"0": Sym("T")}),
    })


def emission(ctx, key, args, vec_index, initial=None):
    v = Vec(list(initial)) if initial else Vec()
    a = list(args)
    a.insert(vec_index, v)
    _, outs = backend.fold(ctx, key, a)
    msg = backend.fold_verdict(outs, "R-ABI: %s" % key.split("::")[-1])
    if msg:
        return None         # the emission function panics on this input
    outs = [o for o in outs if not getattr(o, "diverged", None)]
    return outs[0].final.locals[vec_index + 1].items


def emission_auto(ctx, key, args):
    """the instruction list an emission function produces for the given (non-list) arguments, whether it appends to a `&mut Vec<Code>`
    parameter or returns the list"""
    f = ctx.fx.fn(key)
    vec_at = [i - 1 for i in range(1, f["argc"] + 1) if f["locals"][i]["ty"].startswith("&mut std::vec::Vec<") or f["locals"][i]["ty"].startswith("&mut Vec<")]
    if vec_at:
        return emission(ctx, f["key"], args, vec_at[0])
    _, outs = backend.fold(ctx, f["key"], list(args))
    msg = backend.fold_verdict(outs, "R-ABI: %s" % key.split("::")[-1])
    if msg:
        return None
    outs = [o for o in outs if not getattr(o, "diverged", None)]
    r = outs[0].result
    return r.items if isinstance(r, Vec) else None


def generator_registers(tg):
    """printed names of every register the generator may write: variable registers and the reserved ones"""
    reg_num = tg.consts["REGISTER_NUM"]["val"]
    out = set()
    for n in range(reg_num):
        v = tg.reg_val(n)
        nm = tg.names.get(repr(v))
        if nm:
            out.add(nm)
    return out


def rule_abi(b):
    def rule(ctx):
        arch = b
        tg = Target(ctx, b)
        crate = tg.crate
        res = RuleResult("R-ABI/" + b, "calling convention of the %s routine decided on folded emission lists: (SAVE) every callee-saved "
                         "register the generator can write is saved by setup; (PAIR) setup followed by arbitrary generated code and "
                         "cleanup returns with the entry stack pointer and all callee-saved registers restored; (ARGS) for every "
                         "supported number of parameters the argument registers reach the first environment positions without a move "
                         "overwriting a register a later move reads, heap/free initialised; (CALL) for every environment size 0..20, "
                         "chirality pattern of the caller-saved positions and placement of the printed value, the print sequence "
                         "calls with the value in the first argument register and an aligned stack pointer, and afterwards the stack "
                         "pointer, heap/free pointers, every live variable register and every spill slot hold their old values "
                         "although the call clobbers all caller-saved registers, the link register and memory below the stack pointer" % b)
        sp = isa.SP[arch]
        gen = generator_registers(tg)
        callee_saved = isa.CALLEE_SAVED[arch]
        max_args = 5 if arch == "x86_64" else 7
        # ---- SAVE + PAIR ----
        cleanup = emission_auto(ctx, crate + "::into_routine::cleanup", [])
        if cleanup is None:
            raise AnalysisError("R-ABI: cleanup could not be folded")
        for n in range(max_args + 1):
            setup = emission_auto(ctx, crate + "::into_routine::setup", [n])
            if setup is None:
                raise AnalysisError("R-ABI: setup(%d) could not be folded" % n)
            m = isa.Machine(arch)
            init = {}
            for r in sorted(gen | callee_saved | set(isa.ARG_REGS[arch])):
                if r == sp:
                    continue
                init[r] = isa.var("entry:" + r)
                m.regs[r] = init[r]
            isa.run(ctx, arch, setup, m)
            saved_vals = set(m.mem.values())
            ikey = "%s:setup(%d)" % (b, n)
            problems = list(m.errors)
            # SAVE
            for r in sorted(gen & callee_saved):
                if init[r] not in saved_vals:
                    problems.append("callee-saved register %s can be written by generated code but is not saved by setup" % r)
            sp_after_setup = m.r(sp)
            # ARGS: parameter i (1-based among main's parameters) must sit in the Snd temporary of position i-1
            for i in range(1, n + 1):
                t = temporary_at(tg, 2 * (i - 1) + 1)
                loc = tg.loc_of(t)
                got = _read_loc(m, loc)
                want = init[isa.ARG_REGS[arch][i]]
                if got != want:
                    problems.append("parameter %d: %s holds %s, expected the value of argument register %s" % (i, loc[1], isa.show(got), isa.ARG_REGS[arch][i]))
            heap = tg.const_reg_name("HEAP")
            free = tg.const_reg_name("FREE")
            if m.r(heap) != init[isa.ARG_REGS[arch][0]]:
                problems.append("heap pointer %s is not initialised from the first argument register" % heap)
            fo = interp.run_fn(ctx.fx, crate + "::config::field_offset",
                               [Adt("axcut2backend::config::TemporaryNumber", "Fst", {}), tg.consts["FIELDS_PER_BLOCK"]["val"]])[1]
            foff = interp.sole_int(fo[0].result) if fo and isinstance(fo[0].result, Adt) else None
            if foff is None or m.r(free) != isa.norm(("add", init[isa.ARG_REGS[arch][0]], isa.const(foff))):
                problems.append("free pointer %s is %s, expected heap + one block (%s)" % (free, isa.show(m.r(free)), foff))
            # alignment bookkeeping for CALL
            if sp_after_setup[0] != "addr":
                problems.append("stack pointer after setup is not entry-relative")
            # PAIR: arbitrary generated code in between: every generator register becomes garbage, sp and stack memory are kept
            for r in gen:
                if r != sp:
                    m.regs[r] = ("garbage", "generated code")
            m.events.clear()
            isa.run(ctx, arch, cleanup, m)
            problems += [e for e in m.errors if e not in problems]
            rets = [e for e in m.events if e[0] == "ret"]
            if len(rets) != 1:
                problems.append("cleanup does not end in exactly one return")
            elif rets[0][1] != ("addr", "sp0", 0):
                problems.append("stack pointer at return is %s, not its entry value" % isa.show(rets[0][1]))
            for r in sorted(callee_saved & (gen | {"X29", "X30"})):
                if r in init and m.r(r) != init[r]:
                    problems.append("callee-saved register %s is not restored at return (holds %s)" % (r, isa.show(m.r(r))))
            f = ctx.fx.fns[crate + "::into_routine::setup"]
            if problems:
                res.inst(ikey, f["sp"]["file"], f["sp"]["line"], "violation")
                res.violate(ikey, "; ".join(problems[:4]), f["sp"]["file"], f["sp"]["line"])
            else:
                res.inst(ikey, f["sp"]["file"], f["sp"]["line"], "ok", "sp after setup %s" % isa.show(sp_after_setup))
        setup_delta = sp_after_setup[2] if sp_after_setup[0] == "addr" else 0
        # ---- CALL: print sequences ----
        pkey = tg.method("print_i64")
        f = ctx.fx.fns[pkey]
        cs_first = tg.consts["CALLER_SAVE_FIRST"]["val"]
        cs_last = tg.consts["CALLER_SAVE_LAST"]["val"]
        half = (cs_last + 1 - cs_first) // 2
        n_cases = 0
        bad = []
        heap = tg.const_reg_name("HEAP")
        free = tg.const_reg_name("FREE")
        for k in range(0, 21):
            pats = list(itertools.product(("Ext", "Prd"), repeat=min(k, half)))
            if len(pats) > 16 and ctx.tier != "thorough":
                # all-Ext, all-Prd and the alternations are enough beyond the pattern length that matters
                pats = pats[:1] + pats[-1:] + [p for p in pats if all(p[i] != p[i + 1] for i in range(len(p) - 1))]
            for pat in pats:
                ctxv = Vec([binding(i, pat[i] if i < len(pat) else "Ext") for i in range(k)])
                arg_positions = sorted({0, k - 1, k // 2}) if k > 0 else []
                if ctx.tier == "thorough":
                    arg_positions = list(range(k))
                for ap in arg_positions:
                    if ap < 0:
                        continue
                    src = temporary_at(tg, 2 * ap + 1)
                    for newline in (False, True):
                        codes = emission(ctx, pkey, [newline, src, ctxv], 3)
                        n_cases += 1
                        if codes is None:
                            bad.append((k, pat, ap, ["the print sequence generator panics on this input"], []))
                            continue
                        m = isa.Machine(arch)
                        init = {}
                        live = []
                        for pos in range(2 * k):
                            chi = pat[pos // 2] if pos // 2 < len(pat) else "Ext"
                            if chi == "Ext" and pos % 2 == 0:
                                continue            # external values occupy only the second temporary
                            loc = tg.loc_of(temporary_at(tg, pos))
                            v = isa.var("live:%d" % pos)
                            init[loc] = v
                            live.append(loc)
                            if loc[0] == "reg":
                                m.regs[loc[1]] = v
                            else:
                                m.mem[loc[1]] = v
                        for r in (heap, free):
                            init[("reg", r)] = isa.var("keep:" + r)
                            m.regs[r] = init[("reg", r)]
                        isa.run(ctx, arch, codes, m)
                        pr = list(m.errors)
                        calls = [e for e in m.events if e[0] == "call"]
                        if len(calls) != 1:
                            pr.append("%d calls emitted" % len(calls))
                        else:
                            _, sym, spv, argv = calls[0]
                            want_sym = "println_i64" if newline else "print_i64"
                            if sym != want_sym:
                                pr.append("calls %r instead of %s" % (sym, want_sym))
                            a0 = list(argv.values())[0]
                            if a0 != init.get(tg.loc_of(src)):
                                pr.append("first argument register holds %s, not the printed variable" % isa.show(a0))
                            if spv[0] != "addr":
                                pr.append("stack pointer at the call is not entry-relative")
                            else:
                                entry_res = 8 if arch == "x86_64" else 0
                                if (entry_res + setup_delta + spv[2]) % 16 != 0:
                                    pr.append("stack pointer at the call is entry%+d: not 16-byte aligned" % (setup_delta + spv[2]))
                        if m.r(sp) != ("addr", "sp0", 0):
                            pr.append("stack pointer after the sequence is %s" % isa.show(m.r(sp)))
                        for loc in live + [("reg", heap), ("reg", free)]:
                            if _read_loc(m, loc) != init[loc]:
                                pr.append("%s does not survive the call (now %s)" % (loc[1] if loc[0] == "reg" else "slot%+d" % loc[1][1], isa.show(_read_loc(m, loc))))
                        if arch == "aarch64":
                            deltas = [e for e in m.written_regs if e == sp]
                        if pr:
                            bad.append((k, pat, ap, pr, codes))
        # two prints in a row (the second sequence is generated onto the instructions of the first: a generator that looks back at
        # what was emitted before - to merge the save / restore of neighbouring prints, say - is judged on the merged sequence)
        n_pairs = 0
        bad2 = []
        # the statement-level generator announces every statement with a comment before it calls the print sequence generator
        ann = None
        try:
            _, couts = backend.fold(ctx, tg.method("comment"), ["println_i64 v;"])
            couts = [o for o in couts if not getattr(o, "diverged", None)]
            ann = couts[0].result if len(couts) == 1 else None
        except (AnalysisError, KeyError):
            ann = None
        if ann is None:
            raise AnalysisError("R-ABI: the comment instruction of the %s backend could not be built" % b)
        for k in range(1, 21):
            pats = [tuple("Ext" for _ in range(min(k, half))), tuple("Prd" for _ in range(min(k, half)))]
            pats += [tuple(("Ext", "Prd")[i % 2] for i in range(min(k, half)))] if k > 1 else []
            for pat in dict.fromkeys(pats):
                ctxv = Vec([binding(i, pat[i] if i < len(pat) else "Ext") for i in range(k)])
                pos2 = sorted({0, 1, 2, 3, k // 2, k - 1} & set(range(k)))
                for ap1, ap2 in [(k - 1, a2) for a2 in pos2] + [(0, k - 1)]:
                    src1, src2 = temporary_at(tg, 2 * ap1 + 1), temporary_at(tg, 2 * ap2 + 1)
                    c1 = emission(ctx, pkey, [False, src1, ctxv], 3, initial=[ann])
                    if c1 is None:
                        continue        # reported by the single-print class
                    codes = emission(ctx, pkey, [True, src2, ctxv], 3, initial=list(c1) + [ann])
                    n_pairs += 1
                    if codes is None:
                        bad2.append((k, pat, ap1, ap2, ["the print sequence generator panics when it follows another print"], []))
                        continue
                    m = isa.Machine(arch)
                    init, live = {}, []
                    for pos in range(2 * k):
                        chi = pat[pos // 2] if pos // 2 < len(pat) else "Ext"
                        if chi == "Ext" and pos % 2 == 0:
                            continue
                        loc = tg.loc_of(temporary_at(tg, pos))
                        v = isa.var("live:%d" % pos)
                        init[loc] = v
                        live.append(loc)
                        if loc[0] == "reg":
                            m.regs[loc[1]] = v
                        else:
                            m.mem[loc[1]] = v
                    for r in (heap, free):
                        init[("reg", r)] = isa.var("keep:" + r)
                        m.regs[r] = init[("reg", r)]
                    isa.run(ctx, arch, codes, m)
                    pr = list(m.errors)
                    calls = [e for e in m.events if e[0] == "call"]
                    if len(calls) != 2:
                        pr.append("%d calls emitted for two prints" % len(calls))
                    else:
                        for (_, sym, spv, argv), want_sym, src in zip(calls, ("print_i64", "println_i64"), (src1, src2)):
                            if sym != want_sym:
                                pr.append("calls %r instead of %s" % (sym, want_sym))
                            a0 = list(argv.values())[0]
                            if a0 != init.get(tg.loc_of(src)):
                                pr.append("%s: first argument register holds %s, not the printed variable" % (want_sym, isa.show(a0)))
                            if spv[0] != "addr":
                                pr.append("stack pointer at the call is not entry-relative")
                            else:
                                entry_res = 8 if arch == "x86_64" else 0
                                if (entry_res + setup_delta + spv[2]) % 16 != 0:
                                    pr.append("stack pointer at the call of %s is entry%+d: not 16-byte aligned" % (want_sym, setup_delta + spv[2]))
                    if m.r(sp) != ("addr", "sp0", 0):
                        pr.append("stack pointer after the two sequences is %s" % isa.show(m.r(sp)))
                    for loc in live + [("reg", heap), ("reg", free)]:
                        if _read_loc(m, loc) != init[loc]:
                            pr.append("%s does not survive the two calls (now %s)" % (loc[1] if loc[0] == "reg" else "slot%+d" % loc[1][1], isa.show(_read_loc(m, loc))))
                    if pr:
                        bad2.append((k, pat, ap1, ap2, pr, codes))
        ikey2 = "%s:print_i64;print_i64" % b
        if bad2:
            k, pat, ap1, ap2, pr, codes = bad2[0]
            res.inst(ikey2, f["sp"]["file"], f["sp"]["line"], "violation", "%d of %d cases wrong" % (len(bad2), n_pairs))
            res.violate(ikey2, "two prints in a row with %d live variables (chirality %s, printed variables at positions %d and %d): %s [%d of %d cases wrong]" %
                        (k, "".join(c[0] for c in pat), ap1, ap2, "; ".join(pr[:3]), len(bad2), n_pairs), f["sp"]["file"], f["sp"]["line"],
                        {"emitted": [repr(c) for c in codes][:80]})
        else:
            res.inst(ikey2, f["sp"]["file"], f["sp"]["line"], "ok", "%d (size, chirality pattern, argument positions) pairs of prints" % n_pairs)
        ikey = "%s:print_i64" % b
        if bad:
            k, pat, ap, pr, codes = bad[0]
            res.inst(ikey, f["sp"]["file"], f["sp"]["line"], "violation", "%d of %d cases wrong" % (len(bad), n_cases))
            res.violate(ikey, "print with %d live variables (chirality %s, printed variable at position %d): %s [%d of %d cases wrong]" %
                        (k, "".join(c[0] for c in pat), ap, "; ".join(pr[:3]), len(bad), n_cases), f["sp"]["file"], f["sp"]["line"],
                        {"emitted": [repr(c) for c in codes][:60]})
        else:
            res.inst(ikey, f["sp"]["file"], f["sp"]["line"], "ok", "%d (size, chirality pattern, argument position, newline) cases" % n_cases)
        res.notes.append("print cases simulated: %d" % n_cases)
        res.require_floor(max_args + 2)
        return res
    rule.__name__ = "rule_abi_" + b
    return rule


SP_WRITER_FNS = {"setup", "cleanup", "save_caller_save_registers", "restore_caller_save_registers"}


def rule_spwriters(ctx):
    """who-may-write the stack pointer"""
    from ..mir import Fn, Flow, op_root
    fx = ctx.fx
    res = RuleResult("R-SPWRITERS", "who-may-write the stack pointer: `Code` values that modify it (PUSH/POP, STP/LDP with writeback, "
                     "ADD/SUB/MOV with the stack pointer as destination) are constructed only in setup, cleanup, "
                     "save_caller_save_registers and restore_caller_save_registers of each backend; with the pairing checked by "
                     "R-ABI this gives 'SP has its entry value at return' for every program")
    n = 0
    from .. import callgraph
    cg = callgraph.get(ctx)
    rev = {}
    for a_, bs_ in cg.edges.items():
        for b_ in bs_:
            rev.setdefault(b_.split("::{")[0], set()).add(a_.split("::{")[0])
    COVERED = SP_WRITER_FNS | {"print_i64", "println_i64"}

    def only_from_covered(k0):
        """a helper all of whose callers (transitively, within its crate) are the functions R-ABI folds: the prologue / epilogue, the
        save / restore helpers and the print calls - its stack-pointer writes are part of those folds"""
        crate0 = fx.fns[k0]["crate"] if k0 in fx.fns else k0.lstrip("<").split("::")[0]
        seen_, work_ = set(), [k0]
        roots_ok = True
        any_caller = False
        while work_:
            x_ = work_.pop()
            if x_ in seen_:
                continue
            seen_.add(x_)
            callers = {c_ for c_ in rev.get(x_, ()) if c_ in fx.fns and fx.fns[c_]["crate"] == crate0 and c_ != x_}
            if x_ != k0 and x_.split("::")[-1] in COVERED:
                continue
            if not callers:
                if x_ == k0 or x_.split("::")[-1] not in COVERED:
                    roots_ok = False
                continue
            any_caller = True
            work_.extend(callers)
        return roots_ok and any_caller
    for b in ("x86_64", "aarch64"):
        crate = backend.BACKENDS[b]["crate"]
        code = backend.code_adt(b)
        tg = Target(ctx, b)
        spname = isa.SP[b]
        for key, f in sorted(fx.fns.items()):
            if f["crate"] != crate or "{promoted" in key or f.get("impl_trait") in ("core::clone::Clone", "core::fmt::Debug"):
                continue
            fn = None
            # the stack pointer must not be handed to a helper as an operand register
            for bi, blk in enumerate(f["blocks"]):
                t = blk["term"]
                if t["k"] == "call" and (t.get("callee") or "").split("::")[0] in fx.crates and t.get("callee_trait") != "scc_printer::types::Print":
                    for a in t["args"]:
                        if a.get("k") == "const" and (a.get("def") or "").endswith("::STACK"):
                            n += 1
                            res.inst("%s@passes-STACK" % key, t["sp"]["file"], t["sp"]["line"], "violation")
                            res.violate("%s@passes-STACK" % key, "%s passes the stack pointer register to %s as an ordinary operand" % (key, t.get("callee_key")), t["sp"]["file"], t["sp"]["line"])
            for bi, blk in enumerate(f["blocks"]):
                for s in blk["stmts"]:
                    rv = s.get("rv")
                    if s["k"] != "assign" or rv["k"] != "agg" or rv.get("adt") != code:
                        continue
                    v = rv["variant"]
                    writes_sp = False
                    if v in ("PUSH", "POP", "STP_PRE_INDEX", "LDP_POST_INDEX"):
                        writes_sp = True
                    elif v in ("ADDI", "SUBI", "ADD", "SUB", "MOV", "MOVR", "MOVI", "MOVL", "LDR", "LEAL", "IMUL", "MUL", "SDIV", "MSUB", "MOVZ", "MOVN", "MOVK", "ADR"):
                        # destination operand = field 0: is it the stack pointer?
                        fn = fn or Fn(f)
                        op0 = rv["ops"][0]
                        writes_sp = _is_sp_operand(fx, fn, op0, b)
                    if not writes_sp:
                        continue
                    n += 1
                    base = key.split("::{")[0].split("::")[-1]
                    ikey = "%s@%s" % (key, v)
                    if base in SP_WRITER_FNS or only_from_covered(key.split("::{")[0]):
                        res.inst(ikey, s["sp"]["file"], s["sp"]["line"], "ok")
                    else:
                        res.inst(ikey, s["sp"]["file"], s["sp"]["line"], "violation")
                        res.violate(ikey, "%s constructs %s, which modifies the stack pointer, outside the prologue/epilogue and the "
                                    "save/restore helpers: the stack-pointer balance proved by R-ABI no longer covers all generated code" %
                                    (key, v), s["sp"]["file"], s["sp"]["line"])
    if n < 10:
        raise AnalysisError("R-SPWRITERS: only %d stack-pointer writers found" % n)
    return res


def _is_sp_operand(fx, fn, op, b):
    from ..mir import Flow, op_root, place_fields
    if op.get("k") == "const":
        d = op.get("def") or ""
        c = fx.consts.get(d)
        if d.endswith("::STACK"):
            return True
        return False
    flow = Flow(fn)
    r = op_root(op)
    if r is None:
        return False
    for o in flow.origins(r, tuple(place_fields(op["pl"]))):
        if o[0] == "const" and o[1].endswith("::STACK"):
            return True
        if o[0] == "agg":
            rv = flow.agg_at(o)
            if rv.get("variant") == "SP":
                return True
    return False


def rule_abi_args_only(ctx):
    """the setup(n) rows of R-ABI (parameter placement, heap/free initialisation) for C20"""
    out = []
    for b in ("x86_64", "aarch64"):
        r = ctx.memo("abi-" + b, lambda b=b: rule_abi(b)(ctx))
        import copy
        r2 = copy.copy(r)
        r2.instances = [i for i in r.instances if ":setup(" in i["key"]]
        r2.violations = [v for v in r.violations if ":setup(" in v.key]
        r2.nontrivial = {i["key"] for i in r2.instances}
        r2.obligations = len(r2.instances)
        r2.discharged = len([i for i in r2.instances if i["verdict"] == "ok"])
        r2.floor = 0
        out.append(r2)
    return out


def rule_abi_cached(b):
    def rule(ctx):
        return ctx.memo("abi-" + b, lambda: rule_abi(b)(ctx))
    rule.__name__ = "rule_abi_" + b
    return rule
