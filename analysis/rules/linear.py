"""C05: the explicit substitutions that linearization inserts bind pairwise distinct new variables in the documented order
(decided by folding the linearize impls over all small alias patterns), R-KEEP for non-consuming statements."""
import itertools

from .. import interp
from ..core import RuleResult
from ..facts import AnalysisError
from ..interp import Adt, Sym, Vec, SetVal

AX = "axcut::syntax::"


def ident(i):
    return Adt(AX + "names::Identifier", "Identifier", {"name": "v%d" % i, "id": i})


def binding(i, chi="Ext"):
    return Adt(AX + "context::ContextBinding", "ContextBinding", {
        "var": ident(i), "chi": Adt(AX + "context::Chirality", chi, {}),
        "ty": Adt(AX + "types::Ty", "I64", {}) if chi == "Ext" else Adt(AX + "types::Ty", "Decl", {"0": ident(90)})})


def tctx(ids, chis=None):
    return Adt(AX + "context::TypingContext", "TypingContext", {"bindings": Vec([binding(i, (chis or {}).get(i, "Ext")) for i in ids])})


def _run(ctx, key, stmt, context, max_id=50):
    fx = ctx.fx

    def hook(I, p, fr, t, args):
        n = t.get("callee_name")
        if n == "linearize" and t.get("callee_trait") == "axcut::traits::linearize::Linearizing":
            p.events.append(("next-linearize", I.deref(args[1]) if len(args) > 1 else None))
            return Sym("next'")
        if n == "subst_sim" and (t.get("callee_trait") or "").endswith("substitution::Subst"):
            p.events.append(("rename-next", I.deref(args[1]) if len(args) > 1 else None))
            return args[0]
        return NotImplemented
    I = interp.Interp(fx, hooks=[hook], max_depth=8, max_paths=64)
    cell = {"v": max_id}
    # max_id is a &mut usize: model as a one-field holder the callee writes through
    holder = Adt(None, None, {"0": max_id})
    fr0 = interp.Frame(fx.fn(key), [])
    outs = I.run(fx.fn(key), [stmt, context, _MutInt(I, holder)])
    return [o for o in outs if not getattr(o, "diverged", None)], holder


def _MutInt(I, holder):
    # a reference into `holder`'s field 0
    fr = interp.Frame({"locals": [{"ty": "usize"}], "blocks": [], "key": "<holder>"}, [])
    fr.locals = [holder]
    return interp.Ref(fr, 0, [{"f": 0, "n": "0"}])


def _subst_of(result):
    r = result
    if isinstance(r, Adt) and r.variant == "Substitute" and isinstance(r.fields.get("0"), Adt):
        r = r.fields["0"]
    if isinstance(r, Adt) and "rearrange" in r.fields and isinstance(r.fields["rearrange"], Vec):
        pairs = []
        for p in r.fields["rearrange"].items:
            if isinstance(p, Adt) and set(p.fields) >= {"0", "1"}:
                nb, old = p.fields["0"], p.fields["1"]
                pairs.append((nb.fields["var"].fields["id"] if isinstance(nb, Adt) else None, old.fields["id"] if isinstance(old, Adt) else None))
        return pairs
    return None


def rule_linear_subst(ctx):
    fx = ctx.fx
    res = RuleResult("R-LINSUBST", "the explicit substitution inserted by Call/Invoke/Let::linearize, folded (abstract interpretation of the "
                     "MIR) over every alias pattern of up to three arguments drawn from three variables - including arguments that "
                     "repeat, coincide with the closure variable or with the rest of the environment: the new binders are pairwise "
                     "distinct, each new binder is bound to the old variable of its position, and the new environment has the "
                     "documented order (call: parameters; invoke: arguments then closure; let: rest then arguments)")
    IDS = (1, 2, 3)
    specs = []
    # Call
    key_call = "<axcut::syntax::statements::call::Call as axcut::traits::linearize::Linearizing>::linearize"
    key_inv = "<axcut::syntax::statements::invoke::Invoke as axcut::traits::linearize::Linearizing>::linearize"
    key_let = "<axcut::syntax::statements::let::Let as axcut::traits::linearize::Linearizing>::linearize"
    for key, kind in ((key_call, "call"), (key_inv, "invoke"), (key_let, "let")):
        f = fx.fn(key)
        n = 0
        bad = []
        for k in range(0, 4):
            for args in itertools.product(IDS, repeat=k):
                envs = [tuple(args), tuple(reversed(args)), (3, 2, 1), ()]
                for env in envs:
                    closure = 1
                    if kind == "call":
                        stmt = Adt(AX + "statements::call::Call", "Call", {"label": ident(70), "args": tctx(args)})
                        want_old = list(args)
                    elif kind == "invoke":
                        stmt = Adt(AX + "statements::invoke::Invoke", "Invoke", {"var": ident(closure), "tag": ident(71), "ty": Adt(AX + "types::Ty", "Decl", {"0": ident(90)}),
                                                                                  "args": tctx(args)})
                        want_old = list(args) + [closure]
                    else:
                        # let v9 = K(args); next   with the free variables of next = env
                        stmt = Adt(AX + "statements::let::Let", "Let", {"var": ident(9), "ty": Adt(AX + "types::Ty", "Decl", {"0": ident(90)}), "tag": ident(72),
                                                                          "args": tctx(args), "next": Sym("next"), "free_vars_next": Adt("core::option::Option", "Some", {"0": SetVal(set(env) | {9})})})
                        want_old = None
                    context = tctx(env if kind != "let" else tuple(dict.fromkeys(list(env) + list(args))))
                    outs, holder = _run(ctx, key, stmt, context)
                    n += 1
                    if len(outs) != 1:
                        bad.append((args, env, "linearize could not be folded (%d paths)" % len(outs)))
                        continue
                    pairs = _subst_of(outs[0].result)
                    if pairs is None:
                        # no substitution inserted: the environment must already be exact
                        if kind in ("call", "invoke") and list(env) != want_old:
                            bad.append((args, env, "no substitution although the environment %s is not the expected %s" % (list(env), want_old)))
                        continue
                    news = [p[0] for p in pairs]
                    olds = [p[1] for p in pairs]
                    if len(set(news)) != len(news):
                        bad.append((args, env, "the substitution binds a variable twice: new binders %s (old %s)" % (news, olds)))
                        continue
                    if want_old is not None and olds != want_old:
                        bad.append((args, env, "old variables %s, expected %s (documented environment order)" % (olds, want_old)))
                        continue
                    if kind == "let":
                        # rest (free variables of next, minus the bound one) then the arguments
                        k_args = len(args)
                        if olds[len(olds) - k_args:] != list(args):
                            bad.append((args, env, "let: the last %d substituted variables are %s, expected the arguments %s" % (k_args, olds[len(olds) - k_args:], list(args))))
        ikey = kind
        if bad:
            a, e, msg = bad[0]
            res.inst(ikey, f["sp"]["file"], f["sp"]["line"], "violation", "%d of %d patterns" % (len(bad), n))
            res.violate(ikey, "%s::linearize with arguments %s in environment %s: %s [%d of %d alias patterns wrong]" % (kind, list(a), list(e), msg, len(bad), n),
                        f["sp"]["file"], f["sp"]["line"])
        else:
            res.inst(ikey, f["sp"]["file"], f["sp"]["line"], "ok", "%d alias patterns" % n)
    res.require_floor(3)
    return res
