"""C05: the explicit substitutions that linearization inserts bind pairwise distinct new variables in the documented order
(decided by folding the linearize impls over all small alias patterns), R-KEEP for non-consuming statements."""
import itertools

from .. import interp
from ..core import RuleResult
from ..facts import AnalysisError
from ..interp import Adt, Sym, Vec, SetVal

AX = "axcut::syntax::"


def ident(i):
    return Adt(AX + "names::Identifier", "Identifier", {"name": "v%d" % i, "id": i})


def binding(i, chi="Ext"):
    return Adt(AX + "context::ContextBinding", "ContextBinding", {
        "var": ident(i), "chi": Adt(AX + "context::Chirality", chi, {}),
        "ty": Adt(AX + "types::Ty", "I64", {}) if chi == "Ext" else Adt(AX + "types::Ty", "Decl", {"0": ident(90)})})


def tctx(ids, chis=None):
    return Adt(AX + "context::TypingContext", "TypingContext", {"bindings": Vec([binding(i, (chis or {}).get(i, "Ext")) for i in ids])})


def _run(ctx, key, stmt, context, max_id=50):
    fx = ctx.fx

    def hook(I, p, fr, t, args):
        n = t.get("callee_name")
        if n == "linearize" and t.get("callee_trait") == "axcut::traits::linearize::Linearizing":
            p.events.append(("next-linearize", I.deref(args[1]) if len(args) > 1 else None))
            return Sym("next'")
        if n == "subst_sim" and (t.get("callee_trait") or "").endswith("substitution::Subst"):
            p.events.append(("rename-next", I.deref(args[1]) if len(args) > 1 else None))
            return args[0]
        return NotImplemented
    I = interp.Interp(fx, hooks=[hook], max_depth=8, max_paths=64)
    cell = {"v": max_id}
    # max_id is a &mut usize: model as a one-field holder the callee writes through
    holder = Adt(None, None, {"0": max_id})
    fr0 = interp.Frame(fx.fn(key), [])
    outs = I.run(fx.fn(key), [stmt, context, _MutInt(I, holder)])
    return [o for o in outs if not getattr(o, "diverged", None)], holder


def _MutInt(I, holder):
    # a reference into `holder`'s field 0
    fr = interp.Frame({"locals": [{"ty": "usize"}], "blocks": [], "key": "<holder>"}, [])
    fr.locals = [holder]
    return interp.Ref(fr, 0, [{"f": 0, "n": "0"}])


def _subst_of(result):
    r = result
    if isinstance(r, Adt) and r.variant == "Substitute" and isinstance(r.fields.get("0"), Adt):
        r = r.fields["0"]
    if isinstance(r, Adt) and "rearrange" in r.fields and isinstance(r.fields["rearrange"], Vec):
        pairs = []
        for p in r.fields["rearrange"].items:
            if isinstance(p, Adt) and set(p.fields) >= {"0", "1"}:
                nb, old = p.fields["0"], p.fields["1"]
                pairs.append((nb.fields["var"].fields["id"] if isinstance(nb, Adt) else None, old.fields["id"] if isinstance(old, Adt) else None))
        return pairs
    return None


def rule_linear_subst(ctx):
    fx = ctx.fx
    res = RuleResult("R-LINSUBST", "the explicit substitution inserted by Call/Invoke/Let::linearize, folded (abstract interpretation of the "
                     "MIR) over every alias pattern of up to three arguments drawn from three variables - including arguments that "
                     "repeat, coincide with the closure variable or with the rest of the environment: the new binders are pairwise "
                     "distinct, each new binder is bound to the old variable of its position, and the new environment has the "
                     "documented order (call: parameters; invoke: arguments then closure; let: rest then arguments)")
    IDS = (1, 2, 3)
    specs = []
    # Call
    key_call = "<axcut::syntax::statements::call::Call as axcut::traits::linearize::Linearizing>::linearize"
    key_inv = "<axcut::syntax::statements::invoke::Invoke as axcut::traits::linearize::Linearizing>::linearize"
    key_let = "<axcut::syntax::statements::let::Let as axcut::traits::linearize::Linearizing>::linearize"
    for key, kind in ((key_call, "call"), (key_inv, "invoke"), (key_let, "let")):
        f = fx.fn(key)
        n = 0
        bad = []
        for k in range(0, 4):
            for args in itertools.product(IDS, repeat=k):
                envs = [tuple(args), tuple(reversed(args)), (3, 2, 1), ()]
                for env in envs:
                    closure = 1
                    if kind == "call":
                        stmt = Adt(AX + "statements::call::Call", "Call", {"label": ident(70), "args": tctx(args)})
                        want_old = list(args)
                    elif kind == "invoke":
                        stmt = Adt(AX + "statements::invoke::Invoke", "Invoke", {"var": ident(closure), "tag": ident(71), "ty": Adt(AX + "types::Ty", "Decl", {"0": ident(90)}),
                                                                                  "args": tctx(args)})
                        want_old = list(args) + [closure]
                    else:
                        # let v9 = K(args); next   with the free variables of next = env
                        stmt = Adt(AX + "statements::let::Let", "Let", {"var": ident(9), "ty": Adt(AX + "types::Ty", "Decl", {"0": ident(90)}), "tag": ident(72),
                                                                          "args": tctx(args), "next": Sym("next"), "free_vars_next": Adt("core::option::Option", "Some", {"0": SetVal(set(env) | {9})})})
                        want_old = None
                    context = tctx(env if kind != "let" else tuple(dict.fromkeys(list(env) + list(args))))
                    outs, holder = _run(ctx, key, stmt, context)
                    n += 1
                    if len(outs) != 1:
                        bad.append((args, env, "linearize could not be folded (%d paths)" % len(outs)))
                        continue
                    pairs = _subst_of(outs[0].result)
                    if pairs is None:
                        # no substitution inserted: the environment must already be exact
                        if kind in ("call", "invoke") and list(env) != want_old:
                            bad.append((args, env, "no substitution although the environment %s is not the expected %s" % (list(env), want_old)))
                        continue
                    news = [p[0] for p in pairs]
                    olds = [p[1] for p in pairs]
                    if len(set(news)) != len(news):
                        bad.append((args, env, "the substitution binds a variable twice: new binders %s (old %s)" % (news, olds)))
                        continue
                    if want_old is not None and olds != want_old:
                        bad.append((args, env, "old variables %s, expected %s (documented environment order)" % (olds, want_old)))
                        continue
                    if kind == "let":
                        # rest (free variables of next, minus the bound one) then the arguments
                        k_args = len(args)
                        if olds[len(olds) - k_args:] != list(args):
                            bad.append((args, env, "let: the last %d substituted variables are %s, expected the arguments %s" % (k_args, olds[len(olds) - k_args:], list(args))))
        ikey = kind
        if bad:
            a, e, msg = bad[0]
            res.inst(ikey, f["sp"]["file"], f["sp"]["line"], "violation", "%d of %d patterns" % (len(bad), n))
            res.violate(ikey, "%s::linearize with arguments %s in environment %s: %s [%d of %d alias patterns wrong]" % (kind, list(a), list(e), msg, len(bad), n),
                        f["sp"]["file"], f["sp"]["line"])
        else:
            res.inst(ikey, f["sp"]["file"], f["sp"]["line"], "ok", "%d alias patterns" % n)
    res.require_floor(3)
    return res


def _ids(ctxv):
    if isinstance(ctxv, Adt) and isinstance(ctxv.fields.get("bindings"), Vec):
        return [b.fields["var"].fields["id"] for b in ctxv.fields["bindings"].items if isinstance(b, Adt)]
    return None


def _run_events(ctx, key, stmt, context, max_id=50):
    """like _run, but returns the events (contexts handed to the recursive linearize calls, renamings applied to sub-statements)"""
    fx = ctx.fx
    events = []

    def hook(I, p, fr, t, args):
        n = t.get("callee_name")
        if n == "linearize" and t.get("callee_trait") == "axcut::traits::linearize::Linearizing":
            events.append(("linearize", I.deref(args[0]), _ids(I.deref(args[1])) if len(args) > 1 else None))
            return Sym("lin(%s)" % (getattr(I.deref(args[0]), "name", "?"),))
        if n == "subst_sim" and (t.get("callee_trait") or "").endswith("substitution::Subst"):
            sub = I.deref(args[1]) if len(args) > 1 else None
            pairs = []
            if isinstance(sub, Vec):
                for p_ in sub.items:
                    if isinstance(p_, Adt) and set(p_.fields) >= {"0", "1"} and isinstance(p_.fields["1"], Adt):
                        pairs.append((p_.fields["0"], p_.fields["1"].fields.get("id")))
            events.append(("rename", I.deref(args[0]), pairs))
            return args[0]
        return NotImplemented
    I = interp.Interp(fx, hooks=[hook], max_depth=10, max_paths=64, max_steps=100000)
    holder = Adt(None, None, {"0": max_id})
    outs = I.run(fx.fn(key), [stmt, context, _MutInt(I, holder)])
    from ..backend import fold_verdict
    msg = fold_verdict(outs, "R-LINCTX: %s" % key.split(" as ")[0].lstrip("<"))
    if msg:
        return [], [("panic", msg)]
    return [o for o in outs if not getattr(o, "diverged", None)], events


def _clause(xtor, ids, body):
    return Adt(AX + "statements::clause::Clause", "Clause", {"xtor": ident(60 + xtor), "context": tctx(ids), "body": Sym(body)})


def rule_linear_ctx(ctx):
    """R-LINCTX: environments produced by Switch/Create::linearize are exactly what their code generation assumes"""
    fx = ctx.fx
    res = RuleResult("R-LINCTX", "Switch::linearize and Create::linearize folded (abstract interpretation of the MIR, recursion into clause bodies "
                     "and the next statement cut) over every context of up to 3 variables and every choice of free-variable annotations: "
                     "the environment after the inserted substitution is `kept ++ [scrutinee]` resp. `next variables ++ closure "
                     "environment` - the layout the code generator takes by position (R-STMT) -, it contains exactly the annotated free "
                     "variables that are in scope (none missing, none extra), its binders are pairwise distinct, a variable needed on "
                     "both sides is duplicated under a fresh name and the sub-statement renamed accordingly, every sub-statement is "
                     "linearized in the environment it will run in, and no substitution is inserted only if the environment is already exact")
    NONE = Adt("core::option::Option", "None", {})
    T = Adt(AX + "types::Ty", "Decl", {"0": ident(90)})
    # ---------------- switch ----------------
    key = "<axcut::syntax::statements::switch::Switch as axcut::traits::linearize::Linearizing>::linearize"
    f = fx.fn(key)
    n, bad = 0, []
    V = 3       # scrutinee id
    deep = ctx.tier == "thorough"
    for clen in range(0, 5 if deep else 4):
        for C in itertools.permutations((1, 2, 3, 4), clen):
            if V not in C:
                continue
            for fv in itertools.chain.from_iterable(itertools.combinations((1, 2, 3, 4), k) for k in range(0, 4)):
                n += 1
                cls = Vec([_clause(0, (), "b0"), _clause(1, (7, 8), "b1")])
                stmt = Adt(AX + "statements::switch::Switch", "Switch", {"var": ident(V), "ty": T, "clauses": cls,
                                                                        "free_vars_clauses": Adt("core::option::Option", "Some", {"0": SetVal(set(fv))})})
                outs, events = _run_events(ctx, key, stmt, tctx(C, {V: "Prd"}))
                if len(outs) != 1:
                    bad.append((C, fv, events[0][1] if events and events[0][0] == "panic" else "no result"))
                    continue
                lins = [e for e in events if e[0] == "linearize"]
                # the kept variables may be reordered (filter_by_set fills holes from the end): any order, but exactly the
                # annotated variables in scope, and the same order everywhere
                kept = lins[0][2] if lins and lins[0][2] is not None else None
                want_set = sorted(x for x in C if x in fv)
                if kept is None or sorted(kept) != want_set:
                    bad.append((C, fv, "the variables kept for the clauses are %s, expected exactly the annotated free variables in scope %s" % (kept, want_set)))
                    continue
                want_cl = [kept + [], kept + [7, 8]]
                if [e[2] for e in lins] != want_cl:
                    bad.append((C, fv, "clause bodies are linearized in %s, expected %s (kept free variables, then the clause's binders)" % ([e[2] for e in lins], want_cl)))
                    continue
                r = outs[0].result
                pairs = _subst_of(r)
                inner = r.fields["0"] if isinstance(r, Adt) and r.variant in ("Substitute", "Switch") and isinstance(r.fields.get("0"), Adt) else r
                if pairs is None:
                    if list(C) != kept + [V]:
                        bad.append((C, fv, "no substitution although the environment %s is not kept ++ [scrutinee] = %s" % (list(C), kept + [V])))
                    continue
                news, olds = [p[0] for p in pairs], [p[1] for p in pairs]
                if len(set(news)) != len(news):
                    bad.append((C, fv, "binders %s are not pairwise distinct" % news))
                    continue
                if olds != kept + [V]:
                    bad.append((C, fv, "the substitution takes %s, expected kept ++ [scrutinee] = %s" % (olds, kept + [V])))
                    continue
                if news[:-1] != kept:
                    bad.append((C, fv, "kept variables are renamed (%s) although the clause bodies still use the old names" % news[:-1]))
                    continue
                sw = r.fields["0"].fields.get("next") if isinstance(r.fields.get("0"), Adt) else None
                swv = None
                if isinstance(sw, Adt):
                    sw_in = sw.fields.get("0") if sw.variant == "Switch" and isinstance(sw.fields.get("0"), Adt) else sw
                    swv = sw_in.fields.get("var").fields.get("id") if isinstance(sw_in.fields.get("var"), Adt) else None
                if swv is not None and swv != news[-1]:
                    bad.append((C, fv, "the switch scrutinises variable %s but the substitution binds the scrutinee to %s" % (swv, news[-1])))
    if bad:
        C, fv, msg = bad[0]
        res.inst("switch", f["sp"]["file"], f["sp"]["line"], "violation", "%d of %d" % (len(bad), n))
        res.violate("switch", "Switch::linearize in environment %s with free variables %s of the clauses: %s [%d of %d cases wrong]" % (list(C), sorted(fv), msg, len(bad), n),
                    f["sp"]["file"], f["sp"]["line"])
    else:
        res.inst("switch", f["sp"]["file"], f["sp"]["line"], "ok", "%d (environment, annotation) cases" % n)
    # ---------------- literal / op / print: statements that bind one integer and go on ----------------
    SOME = lambda x: Adt("core::option::Option", "Some", {"0": x})      # noqa: E731
    simple = [
        ("literal::Literal", lambda fv: {"lit": 5, "var": ident(9), "next": Sym("next"), "free_vars_next": SOME(SetVal(set(fv) | {9}))}, (), True),
        ("op::Op", lambda fv: {"fst": ident(1), "op": Adt(AX + "statements::op::BinOp", "Sum", {}), "snd": ident(2), "var": ident(9), "next": Sym("next"),
                               "free_vars_next": SOME(SetVal(set(fv) | {9}))}, (1, 2), True),
        ("print::PrintI64", lambda fv: {"newline": True, "var": ident(1), "next": Sym("next"), "free_vars_next": SOME(SetVal(set(fv)))}, (1,), False),
    ]
    for form, mk, uses, binds in simple:
        key = "<axcut::syntax::statements::%s as axcut::traits::linearize::Linearizing>::linearize" % form
        f = fx.fn(key)
        n, bad = 0, []
        for clen in range(0, 5 if deep else 4):
            for C in itertools.permutations((1, 2, 3, 4), clen):
                if not set(uses) <= set(C):
                    continue
                for chis in ({}, {3: "Prd"}, {4: "Prd"}):
                    for fv in itertools.chain.from_iterable(itertools.combinations((1, 2, 3, 4), k) for k in range(0, 4)):
                        n += 1
                        stmt = Adt(AX + "statements::" + form, form.split("::")[-1], mk(fv))
                        outs, events = _run_events(ctx, key, stmt, tctx(C, chis))
                        if len(outs) != 1:
                            bad.append((C, fv, events[0][1] if events and events[0][0] == "panic" else "no result"))
                            continue
                        keep = set(fv) | set(uses)          # operands and the printed variable are read, not consumed
                        lins = [e for e in events if e[0] == "linearize"]
                        if len(lins) != 1 or lins[0][2] is None:
                            bad.append((C, fv, "the rest of the program is not linearized exactly once"))
                            continue
                        nxt = lins[0][2]
                        kept = nxt[:-1] if binds else nxt
                        if binds and nxt[-1:] != [9]:
                            bad.append((C, fv, "the rest is linearized in %s: the variable the statement binds must come last" % nxt))
                            continue
                        want = sorted(x for x in C if x in keep)
                        if sorted(kept) != want or len(set(kept)) != len(kept):
                            bad.append((C, fv, "the rest is linearized with %s, expected exactly the variables still needed %s" % (kept, want)))
                            continue
                        r = outs[0].result
                        pairs = _subst_of(r)
                        if pairs is None:
                            # no substitution: the environment the backend has is the one the statement started in
                            if list(C) != kept:
                                bad.append((C, fv, "no substitution is inserted although the environment %s is not the one the rest is linearized in (%s): the "
                                            "code generator keeps %s where the rest of the program expects %s" % (list(C), kept, list(C), kept)))
                            continue
                        news, olds = [p_[0] for p_ in pairs], [p_[1] for p_ in pairs]
                        if news != kept or olds != kept:
                            bad.append((C, fv, "the substitution binds %s := %s, expected the kept variables %s under their own names" % (news, olds, kept)))
        ikey = form.split("::")[0]
        if bad:
            C, fv, msg = bad[0]
            res.inst(ikey, f["sp"]["file"], f["sp"]["line"], "violation", "%d of %d" % (len(bad), n))
            res.violate(ikey, "%s::linearize in environment %s with free variables %s of the rest: %s [%d of %d cases wrong]" % (form.split("::")[-1], list(C), sorted(fv), msg, len(bad), n),
                        f["sp"]["file"], f["sp"]["line"])
        else:
            res.inst(ikey, f["sp"]["file"], f["sp"]["line"], "ok", "%d (environment, annotation) cases" % n)
    # ---------------- create ----------------
    key = "<axcut::syntax::statements::create::Create as axcut::traits::linearize::Linearizing>::linearize"
    f = fx.fn(key)
    n, bad = 0, []
    W = 9       # the closure variable
    pool = (1, 2, 3, 4) if deep else (1, 2, 3)
    subsets = list(itertools.chain.from_iterable(itertools.combinations(pool, k) for k in range(0, len(pool) + 1)))
    for clen in range(0, len(pool) + 1):
        for C in itertools.permutations(pool, clen):
            for fc in subsets:
                for fnx in subsets:
                    n += 1
                    cls = Vec([_clause(0, (7,), "m0"), _clause(1, (), "m1")])
                    stmt = Adt(AX + "statements::create::Create", "Create", {
                        "var": ident(W), "ty": T, "context": NONE, "clauses": cls,
                        "free_vars_clauses": Adt("core::option::Option", "Some", {"0": SetVal(set(fc))}),
                        "next": Sym("next"), "free_vars_next": Adt("core::option::Option", "Some", {"0": SetVal(set(fnx) | {W})})})
                    outs, events = _run_events(ctx, key, stmt, tctx(C))
                    if len(outs) != 1:
                        bad.append((C, fc, fnx, events[0][1] if events and events[0][0] == "panic" else "no result"))
                        continue
                    env_set = [x for x in C if x in fc]
                    nxt_set = [x for x in C if x in fnx]
                    lins = [e for e in events if e[0] == "linearize"]
                    meth = [e for e in lins if isinstance(e[1], Sym) and e[1].name in ("m0", "m1")]
                    nx = [e for e in lins if e not in meth]
                    r = outs[0].result
                    pairs = _subst_of(r)
                    cr = r
                    if pairs is not None:
                        cr = r.fields["0"].fields.get("next") if isinstance(r.fields.get("0"), Adt) else None
                    if isinstance(cr, Adt) and cr.variant == "Create" and isinstance(cr.fields.get("0"), Adt):
                        cr = cr.fields["0"]
                    envc = cr.fields.get("context") if isinstance(cr, Adt) else None
                    env = _ids(envc.fields.get("0")) if isinstance(envc, Adt) and envc.variant == "Some" else None
                    if env is None:
                        bad.append((C, fc, fnx, "the closure environment is not annotated on the result"))
                        continue
                    if sorted(env) != sorted(env_set) or len(set(env)) != len(env):
                        bad.append((C, fc, fnx, "closure environment %s, expected exactly the free variables of the clauses in scope %s" % (env, sorted(env_set))))
                        continue
                    if len(meth) != 2 or meth[0][2] != [7] + env or meth[1][2] != env:
                        bad.append((C, fc, fnx, "method bodies are linearized in %s, expected [arguments ++ environment] = %s" % ([e[2] for e in meth], [[7] + env, env])))
                        continue
                    if len(nx) != 1 or nx[0][2] is None:
                        bad.append((C, fc, fnx, "the next statement is not linearized exactly once"))
                        continue
                    next_ctx = nx[0][2]
                    if next_ctx[-1:] != [W]:
                        bad.append((C, fc, fnx, "the next statement is linearized in %s: the closure variable must come last" % next_ctx))
                        continue
                    new_next = next_ctx[:-1]
                    ren = [e for e in events if e[0] == "rename"]
                    if pairs is None:
                        if list(C) != nxt_set + env or new_next != nxt_set:
                            bad.append((C, fc, fnx, "no substitution although the environment %s is not next ++ captured = %s" % (list(C), nxt_set + env)))
                        continue
                    news, olds = [p[0] for p in pairs], [p[1] for p in pairs]
                    if len(set(news)) != len(news):
                        bad.append((C, fc, fnx, "binders %s are not pairwise distinct" % news))
                        continue
                    k = len(news) - len(env)
                    if news[k:] != env or olds[k:] != env:
                        bad.append((C, fc, fnx, "the captured variables must be the last bindings, under their own names: got %s := %s, expected %s" % (news[k:], olds[k:], env)))
                        continue
                    if sorted(olds[:k]) != sorted(nxt_set) or len(set(olds[:k])) != k:
                        bad.append((C, fc, fnx, "variables handed to the next statement are %s, expected exactly %s" % (olds[:k], sorted(nxt_set))))
                        continue
                    if news[:k] != new_next:
                        bad.append((C, fc, fnx, "the next statement is linearized in %s but the substitution binds %s" % (new_next, news[:k])))
                        continue
                    rn = dict(ren[0][2]) if ren else {}
                    for nw, od in zip(news[:k], olds[:k]):
                        if nw != od and rn.get(od) != nw:
                            bad.append((C, fc, fnx, "variable %s is passed on as %s but the next statement is not renamed accordingly (%s)" % (od, nw, rn)))
                            break
    if bad:
        C, fc, fnx, msg = bad[0]
        res.inst("create", f["sp"]["file"], f["sp"]["line"], "violation", "%d of %d" % (len(bad), n))
        res.violate("create", "Create::linearize in environment %s, clauses use %s, next uses %s: %s [%d of %d cases wrong]" % (list(C), sorted(fc), sorted(fnx), msg, len(bad), n),
                    f["sp"]["file"], f["sp"]["line"])
    else:
        res.inst("create", f["sp"]["file"], f["sp"]["line"], "ok", "%d (environment, annotations) cases" % n)
    res.require_floor(2)
    return res
