"""C14: R-STRIDE (jump-table stride), R-JTORDER (clause order = declaration order), R-LABEL (label inventory, shapes, freshness)."""
import re

from .fresh import is_fresh_call
from .. import backend, interp, prov, grammar
from ..core import RuleResult
from ..facts import AnalysisError
from ..interp import Adt, Sym, Vec, decode_template
from ..mir import Fn, Flow, op_root, place_fields

# size in bytes of the instruction printed for a fixed-size jump (ISA knowledge)
FIXED_JUMP_SIZE = {
    ("x86_64", "jmp near"): 5,      # E9 rel32
    ("aarch64", "B"): 4,
    ("rv64", "JAL"): 4,
}


def rule_stride(ctx):
    res = RuleResult("R-STRIDE", "jump tables: jump_length(n) folds to K*n, jump_label_fixed pushes exactly one instruction whose printed "
                     "form has a fixed encoding size, K equals that size, and code_table emits exactly one such jump per clause in "
                     "clause order")
    from .codegen import Target
    for b in ("x86_64", "aarch64", "rv64"):
        tg = Target(ctx, b)
        cfg_prefix = "<%s::Backend as axcut2backend::config::Config<" % tg.crate
        jl = [k for k in ctx.fx.fns if k.startswith(cfg_prefix) and k.endswith(">::jump_length")]
        if len(jl) != 1:
            raise AnalysisError("jump_length of %s not found" % b)
        f = ctx.fx.fns[jl[0]]
        vals = []
        for n in range(0, 9):
            _, outs = backend.fold(ctx, jl[0], [n])
            r = outs[0].result if len(outs) == 1 else None
            v = interp.sole_int(r)
            vals.append(v)
        ikey = "%s:jump_length" % b
        K = vals[1] if isinstance(vals[1], int) else None
        if any(not isinstance(v, int) or isinstance(v, bool) for v in vals):
            raise AnalysisError("R-STRIDE: jump_length of %s could not be folded to numbers (%r): the analysis cannot follow this code" % (b, vals[:3]))
        if K is None or any(v != K * n for n, v in enumerate(vals)):
            res.inst(ikey, f["sp"]["file"], f["sp"]["line"], "violation")
            res.violate(ikey, "jump_length(0..8) folds to %s: not a multiple table" % vals, f["sp"]["file"], f["sp"]["line"])
            continue
        key = tg.method("jump_label_fixed")
        v = Vec()
        _, outs = backend.fold(ctx, key, ["L", v])
        codes = outs[0].final.locals[2].items if len(outs) == 1 else None
        f2 = ctx.fx.fns[key]
        if not codes or len(codes) != 1:
            res.inst(ikey, f2["sp"]["file"], f2["sp"]["line"], "violation")
            res.violate(ikey, "jump_label_fixed emits %s instructions, expected exactly one" % (len(codes) if codes is not None else "?"), f2["sp"]["file"], f2["sp"]["line"])
            continue
        c = codes[0]
        if b == "rv64":
            mn = c.variant
        else:
            t = backend.code_templates(ctx, b).get(c.variant)
            mn = backend.parse_template(t["text"])[0] if t else None
            # 'jmp near <f0>' parses as mnemonic 'jmp' with literal operand 'near ..'
            if t and " near " in t["text"]:
                mn = "jmp near"
        size = FIXED_JUMP_SIZE.get((b, mn))
        if size is None:
            res.inst(ikey, f2["sp"]["file"], f2["sp"]["line"], "violation")
            res.violate(ikey, "jump_label_fixed emits `%s` (%s), whose encoding size is not fixed: table entries may differ in size" % (mn, c.variant),
                        f2["sp"]["file"], f2["sp"]["line"])
        elif size != K:
            res.inst(ikey, f["sp"]["file"], f["sp"]["line"], "violation")
            res.violate(ikey, "jump_length(n) = %d*n but a table entry (`%s`) is %d bytes: tags address the middle of instructions" % (K, mn, size),
                        f["sp"]["file"], f["sp"]["line"])
        else:
            res.inst(ikey, f["sp"]["file"], f["sp"]["line"], "ok", "stride %d = size of `%s`" % (K, mn))
    # code_table: one fixed jump per clause, in order, nothing else
    # the function of the code generator that emits the table: the one that calls jump_label_fixed (utils::code_table on the pinned tree)
    tabs = sorted(k for k, g in ctx.fx.fns.items() if g["crate"] == "axcut2backend" and "{" not in k and
                  any(b_["term"]["k"] == "call" and b_["term"].get("callee_name") == "jump_label_fixed" for b_ in g["blocks"]))
    if len(tabs) != 1:
        raise AnalysisError("R-STRIDE: %d functions of axcut2backend emit jump_label_fixed (one expected: the jump table)" % len(tabs))
    key = tabs[0]
    f = ctx.fx.fns[key]
    events = []

    def hook(I, p, fr, t, args):
        n = t.get("callee_name")
        if n == "jump_label_fixed":
            events.append(args[0])
            return Adt(None, None, {})
        if n == "label" and t.get("callee_trait") == "axcut2backend::code::Instructions":
            return Adt("LABELDEF", "label", {"0": args[0]})     # a label definition occupies no bytes: the stride is unaffected
        if n == "print_to_string":
            v = I.deref(args[0])
            return interp.StrCat([Sym("xtor:%s" % (v.fields.get("name") if isinstance(v, Adt) else v,))]) if True else NotImplemented
        return NotImplemented
    CL = "axcut::syntax::statements::clause::Clause"
    ID = "axcut::syntax::names::Identifier"
    clauses = Vec([Adt(CL, "Clause", {"xtor": Adt(ID, "Identifier", {"name": "K%d" % i, "id": 0}), "context": Sym("c"), "body": Sym("b")}) for i in range(4)])
    out_vec = Vec()
    I = interp.Interp(ctx.fx, hooks=[hook], max_depth=3)
    outs = I.run(f, [clauses, "T", out_vec])
    names = [repr(e) for e in events]
    ikey = "code_table:one-entry-per-clause"
    ok = len(events) == 4 and all(("K%d" % i) in names[i] for i in range(4)) and \
        all(isinstance(x, Adt) and x.path == "LABELDEF" for x in out_vec.items)
    if ok:
        res.inst(ikey, f["sp"]["file"], f["sp"]["line"], "ok", "4 clauses -> 4 fixed jumps in clause order")
    else:
        res.inst(ikey, f["sp"]["file"], f["sp"]["line"], "violation")
        res.violate(ikey, "code_table over 4 clauses emits %s (expected one jump_label_fixed per clause, in order, nothing else)" % names, f["sp"]["file"], f["sp"]["line"])
    res.require_floor(4)
    return res


def _order_by_fold(ctx, form):
    """the order of the checked clauses, read off the folded typing rule instead of the structure of the code"""
    def build():
        from . import typing as typing_rules
        try:
            r2 = typing_rules.rule_tyrule(ctx)
        except AnalysisError:
            return {}
        out = {}
        for i in r2.instances:
            for fm in ("Case", "New"):
                if i["key"].startswith(fm):
                    out.setdefault(fm, []).append(i["verdict"] == "ok")
        return out
    got = ctx.memo("tyrule_clause_order", build).get(form, [])
    return len(got) >= 10 and all(got)


def rule_jtorder(ctx):
    fx = ctx.fx
    res = RuleResult("R-JTORDER", "clause order = declaration order: in Case::check and New::check the vector stored into self.clauses "
                     "receives its pushes inside the loop over the declaration's constructor/destructor list (from the symbol table), "
                     "never in the order of the user's clauses - the tag arithmetic (xtor_position * stride) assumes declaration order")
    for key in ("<fun::syntax::terms::case::Case as fun::typing::check::Check>::check", "<fun::syntax::terms::new::New as fun::typing::check::Check>::check"):
        fn = Fn(fx.fn(key))
        flow = prov.make_flow(fn, fx, extra_names=())
        stores = []
        for bi, si, s in fn.stmts():
            if s["lhs"]["l"] == 1:
                flds = [e["n"] for e in s["lhs"]["p"] if isinstance(e, dict) and "f" in e]
                if flds == ["clauses"] and s["rv"]["k"] == "use":
                    stores.append(s)
        ikey = key + ":clauses"
        if not stores:
            res.inst(ikey, fn.file, fn.line, "violation")
            res.violate(ikey, "%s no longer rebuilds self.clauses: the user's clause order reaches the backends" % key.split(" as ")[0].lstrip("<"), fn.file, fn.line)
            continue
        for s in stores:
            roots = prov.collection_roots(fn, flow, s["rv"]["op"])
            loops = [r for r in roots if r and r[0] == "loop"]
            from_self = [r for r in roots if ("arg" in r and 1 in r and "clauses" in str(r))]
            bad_outside = [r for r in roots if r and r[0] == "push-outside-loop"]
            ok = bool(loops) and not from_self and not bad_outside
            # the loop's iterator must come from a symbol-table lookup (call), not from self
            for r in loops:
                if r[1] == "arg" and r[2] == 1:
                    ok = False
            if ok:
                res.inst(ikey, s["sp"]["file"], s["sp"]["line"], "ok", "pushed in a loop over %s" % sorted({str(r[1:3]) for r in loops}))
            elif _order_by_fold(ctx, "Case" if "case::Case" in key else "New"):
                res.inst(ikey, s["sp"]["file"], s["sp"]["line"], "ok", "built in a helper; the folded typing rule (R-TYRULE) yields the clauses in declaration order "
                         "for every clause list of up to three clauses")
            else:
                res.inst(ikey, s["sp"]["file"], s["sp"]["line"], "violation")
                res.violate(ikey, "the clause vector stored into self.clauses is not built by pushes in a loop over the declared xtors (roots %s)" % sorted(map(str, roots)),
                            s["sp"]["file"], s["sp"]["line"])
    res.require_floor(2)
    return res


STR_PASS = {"to_string", "clone", "to_owned", "as_str", "deref", "borrow", "into", "from", "as_ref", "must_use", "format", "format_inner"}


class Shape:
    def __init__(self, parts):
        self.parts = parts

    def __repr__(self):
        return " ++ ".join("%s" % (p,) for p in self.parts)


def label_shape(fx, fn, operand, depth=0):
    """symbolic structure of a String operand: list of ('lit', s) / ('counter',) / ('print', adt) / ('param', i) / ('other', x)"""
    if operand.get("k") == "const":
        if "str" in operand:
            return [("lit", operand["str"])]
        d = fx.consts.get(operand.get("def"), {})
        if "str" in d:
            return [("lit", d["str"])]
        return [("other", "const")]
    flow = Flow(fn, extra_pass=lambda t: t.get("callee_name") in STR_PASS and (t.get("callee") or "").startswith(("core::", "alloc::", "std::")), only_extra=True)
    flow_ref = Flow(fn)
    r = op_root(operand)
    out = None
    for o in flow.origins(r, tuple(place_fields(operand["pl"]))):
        cur = _shape_of_origin(fx, fn, o, depth)
        if out is None:
            out = cur
        elif repr(out) != repr(cur):
            return [("other", "ambiguous")]
    return out or [("other", "undef")]


def _shape_of_origin(fx, fn, o, depth):
    if depth > 12:
        return [("other", "deep")]
    if o[0] == "const":
        s = o[1]
        if s.startswith("str:"):
            return [("lit", s[4:])]
        if s.startswith("def:"):
            d = fx.consts.get(s[4:], {})
            if "str" in d:
                return [("lit", d["str"])]
            if "{promoted#" in s and s[4:] in fx.fns and depth < 6:
                # `&NAMED_CONSTANT` lives in a promoted constant of the function: what that constant evaluates to
                return label_shape(fx, Fn(fx.fns[s[4:]]), {"k": "copy", "pl": {"l": 0, "p": []}}, depth + 1)
        return [("other", s)]
    if o[0] == "arg":
        return [("param", o[1], tuple(o[2]))] if o[2] else [("param", o[1])]
    if o[0] == "call":
        t = fn.term(o[1])
        n = t.get("callee_name")
        ck = t.get("callee_key") or ""
        if (t.get("resolved_key") or ck) in backend.label_counter_fns(fx):
            return [("counter",)]
        if n == "print_to_string":
            return [("print", t.get("callee_self_adt") or t.get("callee_self") or "?")]
        if n == "replace":
            inner = label_shape(fx, fn, t["args"][0], depth + 1)
            return [("sanitised",) + p if p[0] == "print" else p for p in inner]
        if n == "add" and "String" in (t.get("callee_self") or ""):
            return label_shape(fx, fn, t["args"][0], depth + 1) + label_shape(fx, fn, t["args"][1], depth + 1)
        if ck == "core::fmt::Arguments::new":
            tmpl = t["args"][0]
            b = None
            rr = op_root(tmpl)
            if tmpl.get("k") == "const":
                b = tmpl.get("bytes")
            else:
                for d in fn.defs().get(rr, []):
                    if d["kind"] == "assign" and d["rv"]["k"] == "use" and d["rv"]["op"].get("bytes"):
                        b = d["rv"]["op"]["bytes"]
                    elif d["kind"] == "assign" and d["rv"]["k"] in ("ref",):
                        for d2 in fn.defs().get(d["rv"]["pl"]["l"], []):
                            if d2["kind"] == "assign" and d2["rv"]["k"] == "use" and d2["rv"]["op"].get("bytes"):
                                b = d2["rv"]["op"]["bytes"]
            if b is None:
                return [("other", "template")]
            # the argument array
            argshapes = []
            ar = op_root(t["args"][1])
            arr = None
            seen = set()
            work = [ar]
            while work and arr is None:
                l = work.pop()
                if l in seen:
                    continue
                seen.add(l)
                for d in fn.defs().get(l, []):
                    if d["kind"] == "assign" and d["rv"]["k"] == "agg" and d["rv"].get("agg") == "array":
                        arr = d["rv"]
                    elif d["kind"] == "assign" and d["rv"]["k"] in ("ref", "use"):
                        pl = d["rv"].get("pl") or d["rv"]["op"].get("pl")
                        if pl:
                            work.append(pl["l"])
            if arr is None:
                return [("other", "fmt-args")]
            for a in arr["ops"]:
                argshapes.append(label_shape(fx, fn, a, depth + 1))
            pieces = decode_template(b, argshapes)
            out = []
            for p in pieces:
                if isinstance(p, str):
                    out.append(("lit", p))
                elif isinstance(p, list):
                    out.extend(p)
                else:
                    out.append(("other", "hole"))
            return out
        if n in ("new_display", "new_debug"):
            return label_shape(fx, fn, t["args"][0], depth + 1)
        if n in ("format", "format_inner", "must_use"):
            return label_shape(fx, fn, t["args"][0], depth + 1)
        if o[2]:
            return [("field", n, tuple(o[2]))]
        # a helper of the workspace that builds the text: its result's shape, with its parameters replaced by the arguments here
        k2 = t.get("resolved_key") or (t.get("callee_key") if not t.get("callee_trait") else None)
        if k2 in fx.fns and fx.fns[k2]["crate"] in fx.crates and depth < 4 and "{closure" not in k2 and len(fx.fns[k2]["blocks"]) < 60:
            hfn = Fn(fx.fns[k2])
            inner = label_shape(fx, hfn, {"k": "copy", "pl": {"l": 0, "p": []}}, depth + 2)
            if inner and all(p[0] != "other" for p in inner):
                out = []
                for p in inner:
                    if p[0] == "param" and p[1] - 1 < len(t["args"]):
                        a0 = t["args"][p[1] - 1]
                        if len(p) > 2 and a0.get("pl"):
                            a0 = dict(a0, pl={"l": a0["pl"]["l"], "p": list(a0["pl"]["p"]) + [{"f": 0, "n": x} for x in p[2]]})
                        out.extend(label_shape(fx, fn, a0, depth + 1))
                    else:
                        out.append(p)
                return out
        return [("call", n)]
    if o[0] == "agg":
        return [("other", "agg")]
    return [("other", o[0])]


def _merge_lits(parts):
    out = []
    for p in parts:
        if p[0] == "lit" and out and out[-1][0] == "lit":
            out[-1] = ("lit", out[-1][1] + p[1])
        else:
            out.append(p)
    return out


def classify(parts):
    parts = _merge_lits(parts)
    kinds = [p[0] for p in parts]
    if kinds == ["lit"]:
        return "CONST:" + parts[0][1]
    if kinds == ["lit", "counter"] and parts[0][1] == "lab":
        return "LAB"
    if len(parts) == 3 and parts[0][0] in ("sanitised", "print") and parts[1] == ("lit", "_") and parts[2][0] == "counter":
        return "TABLE"
    if len(parts) == 3 and parts[0][0] == "param" and parts[1] == ("lit", "_") and parts[2][0] == "print":
        return "CLAUSE"
    if len(parts) == 2 and parts[0][0] == "print" and parts[1] == ("lit", "_"):
        return "DEF"
    if kinds == ["param"]:
        return "PARAM"
    return None


def identifier_separator(ctx):
    """literal text between name and id in `Print for core_lang Identifier` (folded), for identifiers with id != 0"""
    from .. import docmodel
    fx = ctx.fx
    key = "<scc_core_lang::syntax::names::Identifier as scc_printer::types::Print>::print"
    v = Adt("scc_core_lang::syntax::names::Identifier", "Identifier", {"name": Sym("NAME"), "id": 7})
    I = interp.Interp(fx, hooks=[docmodel.doc_hook], max_depth=4)
    outs = I.run(fx.fn(key), [v, Sym("cfg"), Sym("alloc")])
    docs = [o.result for o in outs if isinstance(o.result, docmodel.Doc)]
    if len(docs) != 1:
        raise AnalysisError("R-LABEL: Print for Identifier could not be folded")
    txt = docmodel.render(docs[0])
    m = re.fullmatch(r"<\$NAME>(.*)7", txt)
    if not m:
        raise AnalysisError("R-LABEL: unexpected printed form of identifiers: %r" % txt)
    return m.group(1)


def rule_label(ctx):
    fx = ctx.fx
    res = RuleResult("R-LABEL", "label inventory: every label-defining site (Instructions::label(..) in axcut2backend and Code::LAB "
                     "aggregates in the backends) has one of the shapes DEF = print(definition name) ++ \"_\", TABLE = "
                     "sanitised print(type) ++ \"_\" ++ counter, CLAUSE = table ++ \"_\" ++ print(xtor), LAB = \"lab\" ++ counter, or a "
                     "constant that neither ends in \"_\" nor starts with an upper-case letter nor has the form lab<digits>; with "
                     "user names = [a-z][A-Za-z0-9_]* and type names = [A-Z].. (checked in the grammar) the classes are pairwise "
                     "disjoint and counters make LAB/TABLE unique. Generated definition names must come from a helper that consults "
                     "the set of used names (share: fresh_name; lift: retry loop on used_labels)")
    g = grammar.load(ctx)
    names = {t["value"] for t in g.terminals if t["regex"]}
    ikey = "grammar:identifier-classes"
    if r"[a-z][a-zA-Z0-9_]*" in names and r"[A-Z][a-zA-Z0-9_]*" in names and not any(v.startswith("_") or v.startswith("[_") for v in names):
        res.inst(ikey, "lang/fun/src/parser/fun.lalrpop", 1, "ok", "lower-case names / upper-case type names; none starts with an underscore")
    else:
        res.inst(ikey, "lang/fun/src/parser/fun.lalrpop", 1, "violation")
        res.violate(ikey, "the identifier terminals of the grammar changed (%s): the label-class disjointness argument no longer applies" % sorted(names),
                    "lang/fun/src/parser/fun.lalrpop", 1)
    n_sites = 0
    crates = {"axcut2backend", "axcut2x86_64", "axcut2aarch64", "axcut2rv64"}
    for key, f in sorted(fx.fns.items()):
        if f["crate"] not in crates or "{promoted" in key or f.get("impl_trait") in ("core::clone::Clone", "core::fmt::Debug", "scc_printer::types::Print", "core::fmt::Display"):
            continue
        fn = None
        sites = []
        for bi, blk in enumerate(f["blocks"]):
            t = blk["term"]
            if t["k"] == "call" and t.get("callee_trait") == "axcut2backend::code::Instructions" and t.get("callee_name") == "label":
                sites.append((t["args"][0], t["sp"]))
            for s in blk["stmts"]:
                rv = s.get("rv")
                if s["k"] == "assign" and rv["k"] == "agg" and rv.get("variant") == "LAB" and (rv.get("adt") or "").endswith("::code::Code"):
                    if f.get("name") == "label" and f.get("impl_trait") == "axcut2backend::code::Instructions":
                        continue    # the trait method itself wraps its parameter
                    sites.append((rv["ops"][0], s["sp"]))
        for op, sp in sites:
            fn = fn or Fn(f)
            n_sites += 1
            parts = label_shape(fx, fn, op)
            cls = classify(parts)
            ikey = "%s@label#%d" % (key, sum(1 for i in res.instances if i["key"].startswith(key + "@label")))
            ok = cls is not None and cls != "PARAM"
            if cls and cls.startswith("CONST:"):
                c = cls[6:]
                ok = not c.endswith("_") and not c[:1].isupper() and not re.fullmatch(r"lab[0-9]+", c)
            if cls == "PARAM":
                ok = True      # helper that labels with a caller-supplied string (skip_if_zero etc. receive a LAB string)
            if ok:
                res.inst(ikey, sp["file"], sp["line"], "ok", "%s: %s" % (cls, Shape(_merge_lits(parts))))
            else:
                res.inst(ikey, sp["file"], sp["line"], "violation")
                res.violate(ikey, "label defined with shape `%s`, which is none of DEF/TABLE/CLAUSE/LAB/safe constant: it can collide with "
                            "another label class or be defined twice" % Shape(_merge_lits(parts)), sp["file"], sp["line"])
    if n_sites < 10:
        raise AnalysisError("R-LABEL: only %d label-defining sites found" % n_sites)
    # generated definition names: lift must consult used_labels in a retry loop around fresh_identifier
    lift_key = fx.fn("core2axcut::statements::cut::lift")["key"]
    fn = Fn(fx.fns[lift_key])
    # the retry loop may live in a helper of core2axcut that lift calls (two levels): the body that consults used_labels
    cands, seen_k = [lift_key], {lift_key}
    for depth in range(2):
        for k0 in list(cands):
            for _, t in Fn(fx.fns[k0]).calls():
                k2 = t.get("resolved_key") or (t.get("callee_key") if not t.get("callee_trait") else None)
                if k2 in fx.fns and fx.fns[k2]["crate"] == "core2axcut" and k2 not in seen_k and "{closure" not in k2 and \
                        t.get("callee_name") not in ("shrink", "lift"):
                    seen_k.add(k2)
                    cands.append(k2)
    for k0 in cands:
        f0 = Fn(fx.fns[k0])
        if any(t.get("callee_name") == "contains" and "HashSet" in (t.get("callee_self") or "") for _, t in f0.calls()) and \
                any(is_fresh_call(ctx, t) for _, t in f0.calls()):
            fn = f0
            break
    flow = Flow(fn)
    fresh = [bi for bi, t in fn.calls() if is_fresh_call(ctx, t)]
    fresh_names = {fn.term(bi).get("callee_name") for bi in fresh}
    cont = []
    for bi, t in fn.calls():
        if t.get("callee_name") == "contains" and "HashSet" in (t.get("callee_self") or ""):
            r = op_root(t["args"][0])
            org = flow.origins(r, tuple(place_fields(t["args"][0]["pl"])))
            if any("used_labels" in o[2] for o in org if o[0] == "arg"):
                cont.append(bi)
    ikey = "core2axcut::statements::cut::lift:label-freshness"
    in_loop = False
    for c in cont:
        reach = fn.reach_from(c)
        for fb in fresh:
            if fb in reach and c in fn.reach_from(fb) and fb != c:
                # the contains check and a fresh_identifier call lie on a common cycle: retry until unused
                if c in fn.reach_from(fb) and fb in fn.reach_from(c):
                    in_loop = True
    # the name that is tested must be the printed form of the label: print(Identifier{name, id != 0}) = name ++ sep ++ id
    tested_ok = False
    tested_shape = None
    sep = identifier_separator(ctx)
    for c in cont:
        t = fn.term(c)
        a = t["args"][1]
        ar = op_root(a)
        for o in flow.origins(ar, ()):
            if o[0] != "call":
                continue
            tc = fn.term(o[1])
            if tc.get("callee_name") == "new":
                tested_shape = _merge_lits(label_shape(fx, fn, tc["args"][0]))
            else:
                # a helper that builds the printed form: Identifier::new(<text>) inside it, its parameter replaced by the argument
                k2 = tc.get("resolved_key") or (tc.get("callee_key") if not tc.get("callee_trait") else None)
                if k2 not in fx.fns or fx.fns[k2]["crate"] != "core2axcut" or len(tc["args"]) != 1:
                    continue
                hfn = Fn(fx.fns[k2])
                for o2 in Flow(hfn).origins(0, ()):
                    if o2[0] == "call" and hfn.term(o2[1]).get("callee_name") == "new":
                        tested_shape = []
                        for p in _merge_lits(label_shape(fx, hfn, hfn.term(o2[1])["args"][0])):
                            if p[0] == "param" and p[1] == 1 and len(p) > 2:
                                a0 = tc["args"][0]
                                a0 = dict(a0, pl={"l": a0["pl"]["l"], "p": list(a0["pl"]["p"]) + [{"f": 0, "n": x} for x in p[2]]})
                                tested_shape.extend(label_shape(fx, fn, a0))
                            else:
                                tested_shape.append(p)
                        tested_shape = _merge_lits(tested_shape)
            if tested_shape is not None:
                if any(tested_shape == [("field", fnm, ("name",)), ("lit", sep), ("field", fnm, ("id",))] for fnm in fresh_names):
                    tested_ok = True
    if cont and in_loop and tested_ok:
        res.inst(ikey, fn.file, fn.line, "ok", "fresh_identifier is retried until used_labels does not contain the printed name (name ++ %r ++ id)" % sep)
    elif cont and in_loop:
        res.inst(ikey, fn.file, fn.line, "violation")
        res.violate(ikey, "lift tests `%s` against used_labels, but the label is printed as name ++ %r ++ id: the freshness test looks up a "
                    "string the label never has, so a user definition with the printed name still collides" % (Shape(tested_shape or []), sep), fn.file, fn.line)
    else:
        res.inst(ikey, fn.file, fn.line, "violation")
        res.violate(ikey, "lift names the lifted definition `lift_<f>_` with a fresh id, printed `lift_<f>__<id>` - a string inside the language of "
                    "user definition names - without consulting used_labels: a user definition of that name yields a duplicate label",
                    fn.file, fn.line)
    return res
