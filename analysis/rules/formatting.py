"""C16: formatting never changes a program - printer templates vs grammar productions (R-PGRAM), lexer confusability (R-LEX)."""
import re

from .. import docmodel, grammar, interp
from ..core import RuleResult
from ..facts import AnalysisError
from ..interp import Adt, Sym, Vec

T = "fun::syntax::terms::"
NODES = {
    # ADT -> (production names that build it, enum-valued fields to enumerate concretely)
    T + "call::Call": (["Call"], {}),
    T + "label::Label": (["Label"], {}),
    T + "goto::Goto": (["Goto"], {}),
    T + "exit::Exit": (["Exit"], {}),
    T + "ifc::IfC": (["IfE", "IfNE", "IfL", "IfLE", "IfG", "IfGE", "IfZLeft", "IfNZLeft", "IfLZLeft", "IfLEZLeft", "IfGZLeft", "IfGEZLeft",
                      "IfZRight", "IfNZRight", "IfLZRight", "IfLEZRight", "IfGZRight", "IfGEZRight"], {"sort": T + "ifc::IfSort"}),
    T + "print::PrintI64": (["PrintI64", "PrintLnI64"], {}),
    T + "let::Let": (["Let"], {}),
    T + "constructor::Constructor": (["Constructor"], {}),
    T + "destructor::Destructor": (["Destructor"], {}),
    T + "clause::Clause": (["Clause", "Coclause"], {"pol": "fun::syntax::declarations::Polarity"}),
    T + "case::Case": (["Case"], {}),
    T + "new::New": (["New"], {}),
    T + "op::Op": (["Op"], {"op": T + "op::BinOp"}),
    T + "paren::Paren": (["Term0"], {}),
    "fun::syntax::declarations::def::Def": (["Def"], {}),
    "fun::syntax::declarations::data::Data": (["Data"], {}),
    "fun::syntax::declarations::codata::Codata": (["Codata"], {}),
    "fun::syntax::declarations::data::CtorSig": (["Ctor"], {}),
    "fun::syntax::declarations::codata::DtorSig": (["Dtor"], {}),
    "fun::syntax::context::ContextBinding": (["ContextVar", "ContextCovar"], {"chi": "fun::syntax::context::Chirality"}),
}
MACROS = {
    "Parens": ("(", ")", False), "Braces": ("{", "}", False), "Brackets": ("[", "]", False),
    "ParenthesizedList": ("(", ")", False), "OptParenthesizedList": ("(", ")", True),
    "BracedList": ("{", "}", False), "OptBracedList": ("{", "}", True),
    "BracketedList": ("[", "]", False), "OptBracketedList": ("[", "]", True),
}


def productions_of(g, adt, pinned):
    """the productions that build a node: those whose declared result type is the node's type (`IfE: IfC = {..}`), which follows a
    grammar whose productions were merged or split; the names on the pinned tree are the fallback for nodes built inside a
    production of another type (Paren inside Term0)"""
    last = adt.split("::")[-1]
    names = [n for n, p in g.prods.items() if (p.get("ty") or "").strip().split("::")[-1] == last]
    if not names:
        names = [n for n in pinned if n in g.prods]
    if not names:
        raise AnalysisError("C16: no production of fun.lalrpop builds %s" % last)
    return names


class Lexer:
    def __init__(self, g):
        self.terms = []
        for t in g.terminals:
            if t["regex"]:
                self.terms.append((t["text"], re.compile(t["value"]), t["skip"]))
            else:
                self.terms.append((t["text"], re.compile(re.escape(t["value"])), t["skip"]))

    def lex(self, s):
        """longest match, earlier terminal wins ties (lalrpop: literals take precedence over regexes)"""
        out = []
        i = 0
        while i < len(s):
            best = None
            for idx, (name, rx, skip) in enumerate(self.terms):
                m = rx.match(s, i)
                if m and m.end() > i:
                    cand = (m.end() - i, 1 if not name.startswith("r") else 0, -idx)
                    if best is None or cand > best[0]:
                        best = (cand, name, skip, m.end())
            if best is None:
                out.append(("?", s[i]))
                i += 1
                continue
            if not best[2]:
                out.append(("tok", best[1]))
            i = best[3]
        return out


_TRANSPARENT = ("entries", "bindings")      # the list inside a list wrapper prints as the wrapper does


def _hole_field(symrepr):
    """the field a printed hole stands for: `$self.f` (or the list inside its wrapper); a deeper path - a part of the field's value,
    e.g. the name of the call in `scrutinee` - is kept as it is, so that it cannot be taken for the field"""
    m = re.match(r"\$self\.([A-Za-z_0-9]+)((?:\.[A-Za-z_0-9]+)*)$", symrepr)
    if not m:
        return symrepr
    rest = [x for x in m.group(2).split(".") if x]
    while rest and rest[-1] in _TRANSPARENT:
        rest.pop()
    if rest == ["0"]:
        rest = []       # the payload of an optional field is the field
    if rest:
        return m.group(1) + "." + ".".join(rest)
    return m.group(1)


def node_templates(ctx, adt, enum_fields):
    """list of (conditions, [tokens]) where tokens are ('lit', text) | ('hole', field) | ('ws',)"""
    fx = ctx.fx
    A = fx.adts.get(adt)
    if not A:
        raise AnalysisError("C16: ADT %s missing" % adt)
    key = "<%s as scc_printer::types::Print>::print" % adt
    f = fx.fn(key)
    variants = [{}]
    for fld, eadt in enum_fields.items():
        E = fx.adts.get(eadt)
        if not E:
            raise AnalysisError("C16: enum %s missing" % eadt)
        variants = [dict(v, **{fld: Adt(eadt, ev["name"], {})}) for v in variants for ev in E["variants"]]
    out = []

    braces = ctx.memo("c16-print-clauses-braces", lambda: print_clauses_braced(ctx))

    def hook(I, p, fr, t, args):
        n = t.get("callee_name")
        if n == "print_clauses":
            if braces:
                return docmodel.Doc([("text", "{"), ("sym", "$self.clauses"), ("text", "}")])
            return docmodel.Doc([("sym", "$self.clauses")])
        if n == "print" and t.get("callee_trait") == "scc_printer::types::Print":
            v = I.deref(args[0])
            if isinstance(v, Sym):
                return docmodel.Doc([("sym", repr(Sym(v.name)))])
            if isinstance(v, Adt) and v.path == "core::option::Option" and v.variant == "Some" and isinstance(v.fields.get("0"), Sym):
                return docmodel.Doc([("sym", repr(Sym(v.fields["0"].name)))])
            if isinstance(v, Adt):
                m = re.search(r"\$self\.([A-Za-z_0-9]+)", repr(v))
                if m and v.path and v.path.startswith("fun::syntax::terms::Term"):
                    # a field whose variant a match has fixed: its parts are named <what it is>.<part>, so the common prefix of the
                    # parts says whether this is the field or a value inside it (the term inside a Paren, say)
                    whole = None
                    names = []

                    def part_names(x, prefix, depth=0):
                        if isinstance(x, Sym) and x.name.startswith("self."):
                            names.append((prefix, "$" + x.name))
                        elif isinstance(x, Adt) and depth < 3:
                            for fk, fv in x.fields.items():
                                part_names(fv, prefix + [fk], depth + 1)
                    part_names(v, [])
                    owners = set()
                    for prefix, nm_ in names:
                        suffix = "." + ".".join(prefix)
                        if nm_.endswith(suffix):
                            owners.add(nm_[:-len(suffix)])
                    if len(owners) == 1:
                        whole = owners.pop()
                    return docmodel.Doc([("sym", whole or "$self." + m.group(1))])
        if n in ("is_empty",) :
            v = I.deref(args[0])
            if isinstance(v, Sym):
                return interp.SymExpr("is_empty", Sym(v.name))
        return NotImplemented
    cfg = Adt("scc_printer::types::PrintCfg", "PrintCfg", {"width": 80, "indent": 4, "allow_linebreaks": True, "latex": False})
    for fixed in variants:
        fields = {}
        for fd in A["variants"][0]["fields"]:
            if fd["name"] in fixed:
                fields[fd["name"]] = fixed[fd["name"]]
            else:
                fields[fd["name"]] = Sym("self." + fd["name"], adt=fd.get("core") if fd.get("core") in fx.adts else None)
        I = interp.Interp(fx, hooks=[hook, docmodel.doc_hook], max_depth=9, max_paths=256)
        for o in I.run(f, [Adt(adt, A["variants"][0]["name"], fields), cfg, Sym("alloc")]):
            if not isinstance(o.result, docmodel.Doc):
                continue
            toks = []
            for tk in o.result.toks:
                if tk[0] in ("text", "kw", "ctor", "dtor", "typ"):
                    toks.append(("lit", tk[1]))
                elif tk[0] in ("space", "line", "hardline"):
                    toks.append(("ws",))
                elif tk[0] == "sym":
                    toks.append(("hole", _hole_field(tk[1])))
            conds = {str(cc[0]): cc[1] for cc in o.conds if not str(cc[0]).startswith("switch@")}
            conds.update({k: v.variant for k, v in fixed.items()})
            # a field whose collection was tested empty on this path prints nothing
            for ck, cv in conds.items():
                m = re.fullmatch(r"is_empty\(\$self\.([A-Za-z_0-9]+)(?:\.(?:bindings|entries|args))?\)", ck)
                if m and cv == "else":
                    toks = [t for t in toks if not (t[0] == "hole" and t[1] == m.group(1))]
            out.append((conds, toks))
    return out


def print_clauses_braced(ctx):
    """fold fun's print_clauses: every way it prints a clause list is enclosed in braces"""
    fx = ctx.fx
    key = "fun::syntax::terms::clause::print_clauses"
    if key not in fx.fns:
        return False
    cfg = Adt("scc_printer::types::PrintCfg", "PrintCfg", {"width": 80, "indent": 4, "allow_linebreaks": True, "latex": False})

    def hook(I, p, fr, t, args):
        if t.get("callee_name") == "print" and t.get("callee_trait") == "scc_printer::types::Print":
            return docmodel.Doc([("sym", "clause")])
        return NotImplemented
    I = interp.Interp(fx, hooks=[hook, docmodel.doc_hook], max_depth=3, max_paths=64)
    outs = I.run(fx.fns[key], [Sym("clauses"), cfg, Sym("alloc")])
    docs = [o.result for o in outs if isinstance(o.result, docmodel.Doc)]
    if not docs:
        return False
    for d in docs:
        lits = [t for t in d.toks if t[0] in ("text", "kw")]
        if not lits or lits[0][1] != "{" or lits[-1][1] != "}":
            return False
    return True


def lex_template(lexer, toks):
    """merge adjacent literals/whitespace into text, lex it, keep holes: -> [('tok', name) | ('hole', field)]"""
    out = []
    buf = ""
    for t in toks + [("end",)]:
        if t[0] == "lit":
            buf += t[1]
        elif t[0] == "ws":
            buf += " "
        else:
            if buf:
                out.extend(lexer.lex(buf))
                buf = ""
            if t[0] == "hole":
                out.append(t)
    return out


def _wrapper_target(g, nt):
    """a nonterminal whose single alternative consists of one (macro) symbol besides positions: returns that symbol text"""
    p = g.prods.get(nt)
    if not p or len(p["alts"]) != 1:
        return None
    syms = [s for s in p["alts"][0].symbols if not s["sym"].startswith("@")]
    if len(syms) == 1 and re.match(r"([A-Za-z]+)<(.*)>$", syms[0]["sym"]):
        return syms[0]["sym"]
    return None


def production_sequences(g, name):
    """expand one production into alternatives: list of [('tok', terminal) | ('hole', field, nonterminal) | ('opt', [..])]"""
    p = g.prods.get(name)
    if not p:
        raise AnalysisError("C16: production %s missing" % name)
    out = []
    for a in p["alts"]:
        action = a.action or ""
        binder_field = {}
        # explicit `field: <expr mentioning binder>` and shorthand `binder,`
        body = re.search(r"\{(.*)\}", action, re.S)
        if body:
            for part in _split_top(body.group(1)):
                part = part.strip()
                m = re.match(r"([a-z_][A-Za-z0-9_]*)\s*:\s*(.*)$", part, re.S)
                if m:
                    for b in re.findall(r"[a-z_][A-Za-z0-9_]*", m.group(2)):
                        binder_field.setdefault(b, m.group(1))
                elif re.fullmatch(r"[a-z_][A-Za-z0-9_]*", part):
                    binder_field.setdefault(part, part)
        named = [s_["name"] for s_ in a.symbols if s_["name"] and not s_["sym"].startswith("@")]
        tuple_binders = {}      # binder of a symbol whose nonterminal yields a tuple -> the fields of the tuple's components
        if named and not any(b in binder_field for b in named) and re.search(r"\b[a-z_][A-Za-z0-9_]*\s*\(", action) and not body:
            # `=> helper(span(l, r), sort, fst, ..)`: which field a binder ends up in is decided inside the helper
            hb = _helper_binding(g, action)
            if hb is None:
                raise AnalysisError("C16: production %s builds its node through a helper function (%s): the grammar reader cannot bind the "
                                    "production's symbols to the node's fields" % (name, " ".join(action.split())[:60]))
            binder_field, tuple_binders = hb
        seqs_cur = [[]]
        for s in a.symbols:
            sym = s["sym"]
            if sym.startswith(("@",)):
                continue
            seq = None
            inl = _inline_simple(g, sym, s["name"], tuple_binders)
            if inl is not None:
                seqs_cur = [pre + alt for pre in seqs_cur for alt in inl]
                continue
            seq = []
            _emit_symbol(g, s, sym, binder_field, seq)
            seqs_cur = [pre + seq for pre in seqs_cur]
        for sq in seqs_cur:
            out.append((a, sq))
        continue
        seq = []
        for s in a.symbols:
            sym = s["sym"]
            if sym.startswith(("@",)):
                continue
            if sym.startswith(('"', 'r"')):
                seq.append(("tok", sym))
                continue
            fld = binder_field.get(s["name"]) if s["name"] else None
            for _ in range(3):
                w = _wrapper_target(g, sym)
                if not w:
                    break
                sym = w
            m = re.match(r"([A-Za-z]+)<(.*)>$", sym)
            if m and m.group(1) in MACROS:
                o, c, opt = MACROS[m.group(1)]
                grp = [("tok", '"%s"' % o), ("hole", fld, m.group(2)), ("tok", '"%s"' % c)]
                seq.append(("opt", grp, fld) if opt else ("grp", grp, fld))
            else:
                seq.append(("hole", fld, sym))
        out.append((a, seq))
    return out


def _emit_symbol(g, s, sym, binder_field, seq):
    if sym.startswith(('"', 'r"')):
        seq.append(("tok", sym))
        return
    fld = binder_field.get(s["name"]) if s["name"] else None
    for _ in range(3):
        w = _wrapper_target(g, sym)
        if not w:
            break
        sym = w
    m = re.match(r"([A-Za-z]+)<(.*)>$", sym)
    if m and m.group(1) in MACROS:
        o, c, opt = MACROS[m.group(1)]
        grp = [("tok", '"%s"' % o), ("hole", fld, m.group(2)), ("tok", '"%s"' % c)]
        seq.append(("opt", grp, fld) if opt else ("grp", grp, fld))
    else:
        seq.append(("hole", fld, sym))


def _inline_simple(g, sym, binder, tuple_binders):
    """a nonterminal that only abbreviates part of a production is expanded in place: one whose alternatives are single tokens
    yielding an enum value (`Cmp: IfSort = { "==" => IfSort::Equal, .. }`), or one that yields a tuple of its own symbols
    (`Branches: (Term, Term) = { <t: Braces<Term>> "else" <e: Braces<Term>> => (t, e) }`) when the helper says which fields the
    components become.  Returns the list of alternative symbol sequences, or None."""
    p = g.prods.get(sym)
    if not p or p.get("params"):
        return None
    alts = p["alts"]
    if alts and all(len([x for x in a.symbols if not x["sym"].startswith("@")]) == 1 and a.symbols and
                    [x for x in a.symbols if not x["sym"].startswith("@")][0]["sym"].startswith(('"', 'r"')) and
                    re.fullmatch(r"\s*([A-Z][A-Za-z0-9]*::[A-Z][A-Za-z0-9]*|true|false|-?[0-9]+)\s*,?\s*", a.action or "") for a in alts):
        return [[("tok", [x for x in a.symbols if not x["sym"].startswith("@")][0]["sym"])] for a in alts]
    if binder in tuple_binders:
        fields = tuple_binders[binder]
        out = []
        for a in alts:
            m = re.fullmatch(r"\s*\(([^()]*)\)\s*,?\s*", a.action or "")
            if not m:
                return None
            comps = [c.strip() for c in m.group(1).split(",") if c.strip()]
            if len(comps) != len(fields) or not all(re.fullmatch(r"[a-z_][A-Za-z0-9_]*", c) for c in comps):
                return None
            bf = dict(zip(comps, fields))
            seq = []
            for s in a.symbols:
                if s["sym"].startswith("@"):
                    continue
                _emit_symbol(g, s, s["sym"], bf, seq)
            out.append(seq)
        return out
    return None


def _helper_binding(g, action):
    """`helper(e1, e2, ..)` where `fn helper(p1: T1, (q1, q2): (..), ..) -> Node { Node { f: .. p1 .., g: .. q1 .. } }` is one of the parser's
    Rust helpers: (binder -> field, binder of a tuple-valued symbol -> fields of the components)"""
    m = re.fullmatch(r"\s*([a-z_][A-Za-z0-9_]*)\s*\((.*)\)\s*,?\s*", action, re.S)
    src = getattr(g, "helper_src", "")
    if not m or not src:
        return None
    hname, args = m.group(1), [x.strip() for x in _split_top(m.group(2))]
    hm = re.search(r"\bfn\s+%s\s*(?:<[^>]*>)?\s*\(" % re.escape(hname), src)
    if not hm:
        return None
    # parameter list: up to the matching parenthesis
    i, depth = hm.end(), 1
    while i < len(src) and depth:
        depth += src[i] in "([{"
        depth -= src[i] in ")]}"
        i += 1
    params = []
    for part in _split_top(src[hm.end():i - 1]):
        part = part.strip()
        if not part:
            continue
        pat = part.rsplit(":", 1)[0].strip() if ":" in part else part
        # split at the top-level colon of `pattern: type`
        d, cut = 0, None
        for j, ch in enumerate(part):
            d += ch in "([{<"
            d -= ch in ")]}>"
            if ch == ":" and d == 0:
                cut = j
                break
        pat = part[:cut].strip() if cut is not None else part
        params.append(pat)
    # the struct literal of the helper's body
    bm = re.search(r"\{", src[i:])
    body_start = i + bm.start() if bm else None
    if body_start is None:
        return None
    j, depth = body_start + 1, 1
    while j < len(src) and depth:
        depth += src[j] in "{"
        depth -= src[j] in "}"
        j += 1
    hbody = src[body_start + 1:j - 1]
    lit = re.search(r"\b[A-Z][A-Za-z0-9]*\s*\{(.*)\}", hbody, re.S)
    if not lit:
        return None
    pfield = {}
    for part in _split_top(lit.group(1)):
        part = part.strip()
        mm = re.match(r"([a-z_][A-Za-z0-9_]*)\s*:\s*(.*)$", part, re.S)
        if mm:
            for b in re.findall(r"[a-z_][A-Za-z0-9_]*", mm.group(2)):
                pfield.setdefault(b, mm.group(1))
        elif re.fullmatch(r"[a-z_][A-Za-z0-9_]*", part):
            pfield.setdefault(part, part)
    if len(args) != len(params):
        return None
    binder_field, tuple_binders = {}, {}
    for pat, arg in zip(params, args):
        tm = re.fullmatch(r"\(([^()]*)\)", pat)
        if tm:
            comps = [c.strip() for c in tm.group(1).split(",") if c.strip()]
            if re.fullmatch(r"[a-z_][A-Za-z0-9_]*", arg) and all(c in pfield for c in comps):
                tuple_binders[arg] = [pfield[c] for c in comps]
            continue
        pat = re.sub(r"^mut\s+", "", pat)
        if pat in pfield:
            for b in re.findall(r"[a-z_][A-Za-z0-9_]*", arg):
                binder_field.setdefault(b, pfield[pat])
    return binder_field, tuple_binders


def _split_top(s):
    out, depth, cur = [], 0, ""
    for ch in s:
        if ch in "({[":
            depth += 1
        elif ch in ")}]":
            depth -= 1
        if ch == "," and depth == 0:
            out.append(cur)
            cur = ""
        else:
            cur += ch
    if cur.strip():
        out.append(cur)
    return out


def child_prints_delims(ctx, lexer, node_adt, field, open_tok, close_tok):
    """the field's own Print impl emits the delimiters (NameContext prints `(..)`, TypeArgs prints `[..]`, ...)"""
    fx = ctx.fx
    A = fx.adts.get(node_adt)
    if not A or field is None:
        return False
    fd = [f for f in A["variants"][0]["fields"] if f["name"] == field]
    if not fd or not fd[0].get("core") or fd[0]["core"] not in fx.adts:
        return False
    cadt = fd[0]["core"]
    key = "<%s as scc_printer::types::Print>::print" % cadt
    if key not in fx.fns or fx.adts[cadt]["kind"] != "struct":
        return False

    def build():
        try:
            return node_templates(ctx, cadt, {})
        except AnalysisError:
            return []
    tm = ctx.memo("c16-child-" + cadt, build)
    nonempty = [lex_template(lexer, toks) for _, toks in tm]
    nonempty = [t for t in nonempty if t]
    return bool(nonempty) and all(t[0] == open_tok and t[-1] == close_tok for t in nonempty)


def match(tmpl, seq, enum_fields=(), child_delims=None):
    """does the lexed printed template derive from the production sequence (holes must bind the same fields, optional
    bracket groups may be absent, a bracket group's delimiters may be printed by the node itself or by the child)"""
    def rec(i, j):
        if j == len(seq):
            return i == len(tmpl)
        e = seq[j]
        if e[0] == "tok":
            return i < len(tmpl) and tmpl[i] == ("tok", e[1]) and rec(i + 1, j + 1)
        if e[0] == "hole":
            if e[1] in enum_fields and i < len(tmpl) and tmpl[i][0] == "tok":
                return rec(i + 1, j + 1)        # the field was enumerated concretely: it prints as one token
            return i < len(tmpl) and tmpl[i][0] == "hole" and (e[1] is None or tmpl[i][1] == e[1]) and rec(i + 1, j + 1)
        if e[0] in ("opt", "grp"):
            grp, fld = e[1], e[2]
            # delimiters printed here
            if i + 2 < len(tmpl) + 0 and tmpl[i:i + 1] == [grp[0]] and tmpl[i + 1][0] == "hole" and (fld is None or tmpl[i + 1][1] == fld) and tmpl[i + 2:i + 3] == [grp[2]]:
                if rec(i + 3, j + 1):
                    return True
            # empty list printed with its delimiters: "{ }" / "()"
            if tmpl[i:i + 2] == [grp[0], grp[2]] and rec(i + 2, j + 1):
                return True
            # delimiters printed by the child (the hole alone) - only if the child's own printer emits them
            if i < len(tmpl) and tmpl[i][0] == "hole" and (fld is None or tmpl[i][1] == fld) and child_delims and child_delims(fld, grp[0], grp[2]) \
                    and rec(i + 1, j + 1):
                return True
            if e[0] == "opt" and rec(i, j + 1):
                return True
            return False
        return False
    return rec(0, 0)


def rule_pgram(ctx):
    g = grammar.load(ctx)
    lexer = Lexer(g)
    res = RuleResult("R-PGRAM", "printer vs grammar: the `Print::print` of every Fun syntax node is folded (abstract interpretation of its "
                     "MIR with symbolic fields, the `pretty` builder modelled) into its token templates - one per variant of its "
                     "enum-valued fields and per Option/emptiness case; each template's literal text is re-lexed with the grammar's own "
                     "longest-match lexer and must derive from a production that builds this node, with the holes bound to the same "
                     "fields in the same order")
    n = 0
    for adt, (prods, enum_fields) in sorted(NODES.items()):
        prods = productions_of(g, adt, prods)
        tmpls = node_templates(ctx, adt, enum_fields)
        if not tmpls:
            raise AnalysisError("C16: no print template folded for %s" % adt)
        seqs = []
        for pn in prods:
            seqs.extend(production_sequences(g, pn))
        f = ctx.fx.fns["<%s as scc_printer::types::Print>::print" % adt]
        seen = set()
        for conds, toks in tmpls:
            lt = lex_template(lexer, toks)
            sig = repr(lt)
            if sig in seen:
                continue
            seen.add(sig)
            n += 1
            ikey = "%s[%s]" % (adt.split("::")[-1], ",".join("%s=%s" % kv for kv in sorted(conds.items()) if kv[0] in ("sort", "op", "pol", "chi", "self.snd", "self.newline")))
            bad_tok = [t for t in lt if t[0] == "?"]
            unknown = [t[1] for t in lt if t[0] != "tok" and isinstance(t[1], str) and (t[1].startswith(("pretty::", "list(", "?")) or "$ret" in t[1])]
            if unknown:
                raise AnalysisError("R-PGRAM: the print template of %s contains a part the printer model could not determine (%s): "
                                    "the analysis cannot follow this printer" % (adt, ", ".join(unknown)[:200]))
            cd = lambda fld, o, cl, adt=adt: child_prints_delims(ctx, lexer, adt, fld, o, cl)
            ok = not bad_tok and any(match(lt, seq, tuple(enum_fields), cd) for _, seq in seqs)
            partial = sorted({t[1] for t in lt if t[0] != "tok" and isinstance(t[1], str) and "." in t[1] and re.fullmatch(r"[A-Za-z_0-9.]+", t[1])})
            if partial:
                res.inst(ikey, f["sp"]["file"], f["sp"]["line"], "violation", _show(lt))
                res.violate(ikey + ":part", "the printer of %s prints only a part (`%s`) of its field `%s` where the grammar has the whole field: the rest "
                            "of the field's value is lost, formatting changes what the text parses to (printed form `%s`)" %
                            (adt.split("::")[-1], partial[0], partial[0].split(".")[0], _show(lt)), f["sp"]["file"], f["sp"]["line"])
                continue
            if ok:
                res.inst(ikey, f["sp"]["file"], f["sp"]["line"], "ok", _show(lt))
            else:
                res.inst(ikey, f["sp"]["file"], f["sp"]["line"], "violation", _show(lt))
                res.violate(ikey, "the printed form `%s` of %s does not derive from any of the productions %s that build it: formatting "
                            "yields text that parses differently or not at all" % (_show(lt), adt.split("::")[-1], prods), f["sp"]["file"], f["sp"]["line"])
    res.notes.append("distinct templates checked: %d" % n)
    res.require_floor(40)
    return res


def _show(lt):
    return " ".join(t[1].strip('"') if t[0] == "tok" else "<%s>" % t[1] for t in lt)


def rule_lex(ctx):
    g = grammar.load(ctx)
    lexer = Lexer(g)
    res = RuleResult("R-LEX", "lexer confusability of printed text: for every printed template and every literal token directly followed by "
                     "a hole, the token, the separating whitespace and the first token the hole's nonterminal can start with must not "
                     "be merged by the longest-match lexer into a different terminal than when lexed apart")
    # FIRST tokens of Term: sample strings per terminal class
    firsts = {"Term": ["0", "1", "x", "X", "(", "-", "if", "let", "new", "label", "goto", "exit", "print_i64", "println_i64"],
              "Term1": ["0", "1", "x", "(", "-"], "Term2": ["0", "1", "x", "X", "(", "-", "new"], "Term3": ["0", "1", "x", "X", "(", "-", "if", "let", "new", "label", "goto", "exit"]}
    n = 0
    for adt, (prods, enum_fields) in sorted(NODES.items()):
        prods = productions_of(g, adt, prods)
        tmpls = node_templates(ctx, adt, enum_fields)
        f = ctx.fx.fns["<%s as scc_printer::types::Print>::print" % adt]
        seqs = []
        for pn in prods:
            seqs.extend(production_sequences(g, pn))
        hole_nt = {}
        for _, seq in seqs:
            for e in seq:
                if e[0] == "hole" and e[1]:
                    hole_nt.setdefault(e[1], set()).add(e[2])
                elif e[0] in ("opt", "grp"):
                    for x in e[1]:
                        if x[0] == "hole" and x[1]:
                            hole_nt.setdefault(x[1], set()).add(x[2])
        seen = set()
        for conds, toks in tmpls:
            for i, t in enumerate(toks):
                if t[0] != "hole":
                    continue
                # literal text immediately before the hole
                j = i - 1
                text = ""
                while j >= 0 and toks[j][0] in ("lit", "ws"):
                    text = (toks[j][1] if toks[j][0] == "lit" else " ") + text
                    j -= 1
                if not text.strip():
                    continue
                nts = hole_nt.get(t[1], set())
                cands = set()
                for nt in nts:
                    cands |= set(firsts.get(nt.rstrip("?*+"), []))
                for c in sorted(cands):
                    apart = lexer.lex(text) + lexer.lex(c)
                    together = lexer.lex(text + c)
                    key = (adt, t[1], text.strip(), c)
                    if key in seen:
                        continue
                    seen.add(key)
                    n += 1
                    ikey = "%s:%s|%s|%s" % (adt.split("::")[-1], text.strip().split()[-1], t[1], c)
                    if apart == together:
                        res.inst(ikey, f["sp"]["file"], f["sp"]["line"], "ok", nontrivial=(c == "0"))
                    else:
                        res.inst(ikey, f["sp"]["file"], f["sp"]["line"], "violation")
                        res.violate("%s:%s-before-%s" % (adt.split("::")[-1], text.strip().split()[-1], c),
                                    "printing `%s` followed by a %s that starts with `%s` re-lexes as %s instead of %s: the formatted program parses to a "
                                    "different tree (or not at all)" % (text.strip(), t[1], c, _show(together), _show(apart)), f["sp"]["file"], f["sp"]["line"])
    res.notes.append("adjacency cases checked: %d" % n)
    res.require_floor(50)
    return res


def rule_litfmt(ctx):
    """R-LITFMT: the printed form of integer literals re-lexes as the grammar's literal"""
    from ..interp import Adt as _Adt, Sym as _Sym
    g = grammar.load(ctx)
    lexer = Lexer(g)
    res = RuleResult("R-LITFMT", "`Print for Lit` folded on boundary literals (every digit count from 1 to 19, both signs, zero, i64::MAX) and the "
                     "text re-lexed with the grammar's own terminals (longest match): it must be the tokens of the `Lit` productions - an "
                     "optional `-` followed by exactly one `Num` token - so that formatting a literal yields a literal again")
    # the terminal used by the Num production
    num_alts = (g.prods.get("Num") or {}).get("alts", [])
    num_terms = {t for a in num_alts for t in a.terminals()}
    if not num_terms:
        raise AnalysisError("R-LITFMT: the grammar has no Num production")
    key = "<fun::syntax::terms::literal::Lit as scc_printer::types::Print>::print"
    f = ctx.fx.fn(key)
    values = [0, (1 << 63) - 1]
    for d in range(1, 20):
        v = int("1" + "0" * (d - 1)) if d > 1 else 7
        w = int("9" * d) if d < 19 else (1 << 63) - 1
        for x in (v, w, int("25" + "0" * (d - 2)) if d > 2 else v):
            values += [x, -x]
    values = sorted({x for x in values if -(1 << 63) < x < (1 << 63)})
    bad = []
    for v in values:
        lit = _Adt("fun::syntax::terms::literal::Lit", "Lit", {"span": _Sym("span"), "lit": v})
        from ..backend import fold as _fold
        _, outs = _fold(ctx, key, [lit, _Sym("cfg"), _Sym("alloc")])
        outs = [o for o in outs if not getattr(o, "diverged", None)]
        if len(outs) != 1 or not isinstance(outs[0].result, docmodel.Doc):
            raise AnalysisError("R-LITFMT: Print for Lit could not be folded on %d" % v)
        text = docmodel.render(outs[0].result)
        if "<" in text and "$" in text:
            raise AnalysisError("R-LITFMT: the printed form of %d is not concrete: %s" % (v, text))
        toks = lexer.lex(text)
        names = [t[1] for t in toks]
        want_neg = v < 0
        ok = (len(names) == (2 if want_neg else 1)) and (not want_neg or names[0].strip('"') == "-") and (names[-1] in num_terms)
        if not ok:
            bad.append((v, text, names))
    if bad:
        v, text, names = bad[0]
        res.inst("Lit", f["sp"]["file"], f["sp"]["line"], "violation", "%d of %d literals" % (len(bad), len(values)))
        res.violate("Lit", "the literal %d is printed as `%s`, which lexes as %s, not as %s the literal token: the formatted program does not parse back "
                    "to the same literal [%d of %d boundary literals wrong]" % (v, text, names, "`-` followed by " if v < 0 else "", len(bad), len(values)),
                    f["sp"]["file"], f["sp"]["line"])
    else:
        res.inst("Lit", f["sp"]["file"], f["sp"]["line"], "ok", "%d boundary literals" % len(values))
    res.require_floor(1)
    return res


def rule_fmtwrite(ctx):
    """R-FMTWRITE: the formatter's output replaces the file it writes to"""
    from .. import callgraph
    from ..mir import Fn
    fx = ctx.fx
    res = RuleResult("R-FMTWRITE", "`scc fmt` writes the formatted text to a file (in place or with -o) so that the file holds exactly that text: every file "
                     "opened for writing by the code reachable from the fmt command is opened with truncation (File::create, fs::write, or "
                     "OpenOptions with truncate(true) / create_new(true) and without append): a shorter text must not leave the tail of the old "
                     "contents behind, which would no longer parse")
    entry = "scc::cli::fmt::exec"
    fx.fn(entry)
    cg = callgraph.get(ctx)
    zone = cg.reachable([fx.fn(entry)["key"]], crates={"scc", "driver"})
    n = 0
    for k in sorted(zone):
        f = fx.fns[k]
        if "{promoted" in k:
            continue
        fn = Fn(f)
        names = [(bi, t) for bi, t in fn.calls()]
        for bi, t in names:
            c = t.get("callee") or ""
            nm = t.get("callee_name")
            if c.startswith("std::fs::") and nm == "create" and (t.get("callee_self") or "").endswith("File"):
                n += 1
                res.inst("%s@File::create#%d" % (k, bi), t["sp"]["file"], t["sp"]["line"], "ok", "truncates")
            elif c.startswith("std::fs::") and nm == "write" and not t.get("callee_self"):
                n += 1
                res.inst("%s@fs::write#%d" % (k, bi), t["sp"]["file"], t["sp"]["line"], "ok", "replaces the contents")
            elif c.startswith("std::fs::") and nm == "open" and "OpenOptions" in (t.get("callee_self") or ""):
                opts = {}
                for b2, t2 in names:
                    if (t2.get("callee") or "").startswith("std::fs::") and "OpenOptions" in (t2.get("callee_self") or "") and t2.get("callee_name") in ("write", "truncate", "append", "create_new", "read", "create"):
                        a = t2["args"][1] if len(t2["args"]) > 1 else {}
                        val = a.get("val") if a.get("k") == "const" else None
                        opts[t2["callee_name"]] = bool(val) if val is not None else None
                writes = opts.get("write") is not False and ("write" in opts or "append" in opts)
                if not writes:
                    continue        # opened for reading
                n += 1
                ikey = "%s@OpenOptions::open#%d" % (k, bi)
                if opts.get("append"):
                    res.inst(ikey, t["sp"]["file"], t["sp"]["line"], "violation")
                    res.violate(ikey, "the formatter opens its output file in append mode: the formatted text is added to the old contents", t["sp"]["file"], t["sp"]["line"])
                elif opts.get("truncate") is True or opts.get("create_new") is True:
                    res.inst(ikey, t["sp"]["file"], t["sp"]["line"], "ok", "truncate(true)")
                else:
                    res.inst(ikey, t["sp"]["file"], t["sp"]["line"], "violation")
                    res.violate(ikey, "the formatter opens its output file for writing without truncating it (OpenOptions without truncate(true)): when the "
                                "formatted text is shorter than the old contents, the old tail stays in the file and the result no longer parses",
                                t["sp"]["file"], t["sp"]["line"])
    if n < 1:
        raise AnalysisError("R-FMTWRITE: no file is opened for writing by the code reachable from `scc fmt`")
    return res


def rule_nameprint(ctx):
    """R-NAMEPRINT: text that is used as a name does not depend on the page width"""
    from ..interp import Adt, Vec, Sym, Interp
    fx = ctx.fx
    res = RuleResult("R-NAMEPRINT", "names of type instances are made by printing types (`print_to_string(None)`: the symbol table, the translation of type "
                     "annotations to Core, the labels of the backends) and are compared as strings afterwards; the text must therefore not "
                     "depend on where it is printed: with `allow_linebreaks: false` (what print_to_string(None) sets) the printers of types and "
                     "type arguments - folded with the `pretty` builder modelled - contain no place where the layout may break a line")
    NONE = Adt("core::option::Option", "None", {})
    cfg = Adt("scc_printer::types::PrintCfg", "PrintCfg", {"width": 100, "indent": 4, "allow_linebreaks": False, "latex": False, "omit_decl_sep": False})
    F = "fun::syntax::types::"

    def ty(name, args):
        return Adt(F + "Ty", "Decl", {"span": NONE, "name": name, "type_args": Adt(F + "TypeArgs", "TypeArgs", {"span": NONE, "args": Vec(args)})})
    i64 = Adt(F + "Ty", "I64", {"span": NONE})
    samples = [("TypeArgs", Adt(F + "TypeArgs", "TypeArgs", {"span": NONE, "args": Vec([i64, ty("List", [i64])])})),
               ("Ty", ty("Pair", [ty("List", [i64]), i64])),
               ("TypeArgs:empty", Adt(F + "TypeArgs", "TypeArgs", {"span": NONE, "args": Vec([])}))]
    for nm, val in samples:
        adt = val.path
        key = "<%s as scc_printer::types::Print>::print" % adt
        f = fx.fn(key)
        I = Interp(fx, hooks=[docmodel.doc_hook], max_depth=12, max_paths=64)
        outs = [o for o in I.run(f, [val, cfg, Sym("alloc")]) if not getattr(o, "diverged", None)]
        docs = [o.result for o in outs if isinstance(o.result, docmodel.Doc)]
        if len(docs) != len(outs) or not docs:
            raise AnalysisError("R-NAMEPRINT: the printer of %s could not be folded" % nm)
        ikey = "name-of:%s" % nm
        bad = [d for d in docs if any(t[0] in ("softline", "line", "hardline") for t in d.toks)]
        unknown = [t for d in docs for t in d.toks if t[0] == "sym"]
        if unknown:
            raise AnalysisError("R-NAMEPRINT: the printer of %s contains a part the printer model could not determine (%r)" % (nm, unknown[0]))
        if bad:
            res.inst(ikey, f["sp"]["file"], f["sp"]["line"], "violation")
            res.violate(ikey, "the printer of %s leaves a line-break opportunity in text printed with allow_linebreaks = false: a type-instance name longer than "
                        "the page is broken where it is printed with a prefix and not where it is printed alone, so the declaration's name and the "
                        "annotations that refer to it differ and later stages do not find the type" % nm.split(":")[0], f["sp"]["file"], f["sp"]["line"])
        else:
            res.inst(ikey, f["sp"]["file"], f["sp"]["line"], "ok", docmodel.render(docs[0])[:60])
    res.require_floor(3)
    return res


def rule_pspan(ctx):
    """R-PSPAN: the printed text does not depend on source positions"""
    from ..mir import place_fields, rvalue_places
    fx = ctx.fx
    res = RuleResult("R-PSPAN", "the printers of the Fun syntax tree never read a node's source span (the `span` fields): two trees that are equal "
                     "up to positions - a file and its formatted version - are printed to the same text. A layout decision taken from a span "
                     "makes the second formatting differ from the first, since formatting itself changes every position")
    printers = [k for k, f in fx.fns.items() if f["crate"] == "fun" and "Print>::print" in k and "{promoted" not in k]
    if len(printers) < 20:
        raise AnalysisError("R-PSPAN: only %d printer bodies of the Fun syntax tree found" % len(printers))
    # helpers of the crate called from a printer (not themselves printers, not the parser): followed transitively
    todo, seen = list(printers), set(printers)
    while todo:
        k = todo.pop()
        for b in fx.fns[k]["blocks"]:
            t = b["term"]
            if t["k"] != "call":
                continue
            k2 = t.get("resolved_key") or t.get("callee_key")
            g = fx.fns.get(k2)
            if g and g["crate"] == "fun" and k2 not in seen and "::parser" not in k2 and "::typing::" not in k2:
                seen.add(k2)
                todo.append(k2)
        for k2 in fx.fns:
            if k2.startswith(k + "::{closure") and k2 not in seen:
                seen.add(k2)
                todo.append(k2)
    n = 0
    for k in sorted(seen):
        f = fx.fns[k]
        n += 1
        hit = None
        for b in f["blocks"]:
            for s in b["stmts"]:
                if s["k"] == "assign":
                    for pl, _r in rvalue_places(s["rv"]):
                        if "span" in place_fields(pl):
                            hit = hit or s["sp"]
            t = b["term"]
            for a in t.get("args", []) if t["k"] == "call" else []:
                if a.get("pl") and "span" in place_fields(a["pl"]):
                    hit = hit or t["sp"]
        if hit:
            ikey = k.split("::{")[0]
            res.inst(ikey, hit["file"], hit["line"], "violation")
            res.violate(ikey, "%s reads a source span while printing: the text then depends on where the node stood in the file, and formatting "
                        "the formatted file gives a different text" % ikey.split(" as ")[0].lstrip("<").split("::")[-1], hit["file"], hit["line"])
    res.inst("fun:printers", "lang/fun/src/syntax/program.rs", 1, "ok", "%d printer bodies and helpers scanned, none reads a span" % n, nontrivial=False)
    return res
