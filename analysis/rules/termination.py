"""R-DESCENT (C18, termination clause): every recursion cycle of the pipeline is structural.

The call graph of the pipeline crates is decomposed into strongly connected components.  For every call site that stays
inside a recursive component, some argument that carries a syntax tree (its innermost ADT reaches a recursive workspace
ADT) and is not a `&mut` accumulator must be *a part of* a tree-carrying parameter (or capture) of the caller: reached from
it only by moves, borrows, field reads, iteration and clone-like pass-throughs.  A recursive call on data the caller
constructed itself (a substitution result, a freshly built context, ...) has no such witness: the recursion is no longer
bounded by the size of the input, which is how an unbounded instantiation loop overflows the stack.  Sites whose descent
is numeric or otherwise not structural are listed in audit/recursion.toml, one reason each, keyed by caller -> callee."""
import re

from .. import audit, callgraph
from ..core import RuleResult
from ..facts import AnalysisError
from ..mir import Fn, Flow, op_root
from .determinism import PIPELINE_CRATES

ZONE = PIPELINE_CRATES | {"driver"}
STD_TRAIT_PREFIX = ("core::", "std::", "alloc::", "miette::", "thiserror::", "clap", "serde")
ITER_PASS = {"iter", "iter_mut", "into_iter", "next", "next_back", "unwrap", "expect", "unwrap_or_clone", "as_ref", "as_mut", "borrow", "borrow_mut",
             "pop", "pop_front", "pop_back", "remove", "swap_remove", "split_off", "drain", "take", "rev", "enumerate", "zip", "skip", "peekable",
             "first", "last", "get", "get_mut", "split_first", "split_last", "as_slice", "cloned", "copied", "to_vec", "to_owned", "as_deref",
             "unwrap_or_default", "ok", "values", "keys", "branch", "into_inner", "try_unwrap", "index", "index_mut", "chain", "by_ref",
             "find", "filter", "nth", "skip_while", "take_while", "rfind", "min_by_key", "max_by_key", "step_by", "ok_or", "ok_or_else", "unwrap_or",
             "unwrap_or_else", "into_values", "into_keys", "first_mut", "last_mut", "into_boxed_slice", "into_vec", "collect", "from_iter"}


def _tree_carrying(fx):
    """workspace ADTs from which a recursive workspace ADT is reachable through field types"""
    ws = set(fx.crates)
    g = {}
    generic = set()     # ADTs with a field of type-parameter type: their instances carry whatever the parameter is
    for p, a in fx.adts.items():
        if p.split("::")[0] not in ws:
            continue
        out = set()
        for v in a["variants"]:
            for f in v["fields"]:
                for c in [f.get("core"), f.get("adt")] + [i.get("core") for i in f.get("inst", [])]:
                    if c and c.split("::")[0] in ws:
                        out.add(c)
        g[p] = out
        if any(f.get("is_param") for v in a["variants"] for f in v["fields"]):
            generic.add(p)
    # recursive ADTs: on a cycle
    reach = {p: set(s) for p, s in g.items()}
    changed = True
    while changed:
        changed = False
        for p in reach:
            new = set()
            for q in reach[p]:
                new |= reach.get(q, set())
            if not new <= reach[p]:
                reach[p] |= new
                changed = True
    rec = {p for p in reach if p in reach[p]}
    return {p for p in reach if p in rec or reach[p] & rec or p in generic or reach[p] & generic}, rec


def _sccs(cg, fx, zone):
    import sys
    sys.setrecursionlimit(100000)
    idx, low, st, on, out = {}, {}, [], set(), []
    c = [0]

    def sc(v):
        idx[v] = low[v] = c[0]
        c[0] += 1
        st.append(v)
        on.add(v)
        for w in sorted(cg.edges.get(v, ())):
            if w not in fx.fns or fx.fns[w]["crate"] not in zone:
                continue
            if w not in idx:
                sc(w)
                low[v] = min(low[v], low[w])
            elif w in on:
                low[v] = min(low[v], idx[w])
        if low[v] == idx[v]:
            comp = []
            while True:
                w = st.pop()
                on.discard(w)
                comp.append(w)
                if w == v:
                    break
            if len(comp) > 1 or v in cg.edges.get(v, ()):
                out.append(sorted(comp))
    for n in sorted(k for k, f in fx.fns.items() if f["crate"] in zone and "{promoted" not in k):
        if n not in idx:
            sc(n)
    return out


def _is_std_trait_impl(f):
    tr = f.get("impl_trait") or ""
    return tr.startswith(STD_TRAIT_PREFIX) or tr == "scc_printer::types::Print"


def _extra_pass(t):
    c = t.get("callee") or ""
    return t.get("callee_name") in ITER_PASS and c.startswith(("core::", "alloc::", "std::"))


def rule_descent(ctx):
    fx = ctx.fx
    res = RuleResult("R-DESCENT", "every call site inside a recursive component of the pipeline's call graph passes, in some tree-carrying "
                     "non-`&mut` argument, a part of a tree-carrying parameter or capture of its caller (moves, borrows, field reads, "
                     "iteration, clone-like pass-throughs only); recursion on data the caller built itself is unbounded by the input. "
                     "Numeric / non-structural descents are audited per caller->callee edge in audit/recursion.toml")
    cg = callgraph.get(ctx)
    tc, rec = _tree_carrying(fx)
    by_crate = {}
    for p_ in tc:
        by_crate.setdefault(p_.split("::")[0], []).append(p_)
    carry_memo = {}
    PARAM_RE = re.compile(r"(^|[<&,( ])(?:mut )?([A-Z][A-Za-z0-9]*)($|[>,) ])")

    def carries(loc, crate):
        """does a local of this type carry a syntax tree? (innermost ADT, an ADT named in the type - types of the function's own
        crate are printed without the crate name - or a bare type parameter such as T / Self)"""
        if loc.get("core") in tc or loc.get("adt") in tc:
            return True
        ty = loc["ty"]
        k = (crate, ty)
        if k not in carry_memo:
            names = list(tc) + [p_.split("::", 1)[1] for p_ in by_crate.get(crate, ()) if "::" in p_]
            carry_memo[k] = bool(PARAM_RE.search(ty)) or any(re.search(r"(^|[^A-Za-z0-9_:])" + re.escape(n) + r"($|[^A-Za-z0-9_])", ty) for n in names)
        return carry_memo[k]
    tab, rows = audit.load("recursion")
    # size-preserving renamings: trait methods that replace variables by variables.  Their signature is re-checked here: no
    # parameter besides the receiver may carry a syntax tree, so nothing but names can be substituted.
    renamings = set()
    for r in tab.get("renaming", []):
        impls = [f2 for f2 in fx.fns.values() if f2.get("impl_trait") == r["trait"] and f2["key"].endswith("::" + r["method"])]
        if not impls:
            raise AnalysisError("R-DESCENT: audit/recursion.toml names the renaming %s::%s, which has no implementation" % (r["trait"], r["method"]))
        for f2 in impls:
            for p_ in range(2, f2["argc"] + 1):
                if carries(f2["locals"][p_], f2["crate"]):
                    res.violate("renaming:%s::%s" % (r["trait"], r["method"]),
                                "%s takes a tree-carrying parameter (%s): it is not a variable-for-variable renaming, recursion on its "
                                "result is not bounded by the input" % (f2["key"], f2["locals"][p_]["ty"][:60]), f2["sp"]["file"], f2["sp"]["line"])
        renamings.add((r["trait"], r["method"]))
        res.inst("renaming:%s::%s" % (r["trait"], r["method"]), None, None, "ok", "%d implementations, no tree-carrying parameter besides the receiver" % len(impls))
    WRAP = ("core::option::Option", "core::result::Result", "alloc::rc::Rc", "alloc::boxed::Box", "alloc::vec::Vec", "core::ops::control_flow::ControlFlow")
    fobjs = {}

    def fobj(key):
        if key not in fobjs:
            fn_ = Fn(fx.fns[key])
            fobjs[key] = (fn_, Flow(fn_, extra_pass=_extra_pass))
        return fobjs[key]
    summ_memo = {}

    def ret_summary(key, depth, stack):
        """what the result of a helper is made of: leaves ('arg', i) of its own parameters, or 'built'; each with the names of the
        non-pass-through calls it went through"""
        if key in summ_memo:
            return summ_memo[key]
        out = resolve(key, 0, (), depth, stack | {key}, frozenset())
        if not (stack & {key}):
            summ_memo[key] = out
        return out

    def resolve(key, local, fields, depth, stack, seen):
        """leaves of a value inside function `key`: (('arg', i, fields) | ('built', description), frozenset(via names))"""
        if (local, fields) in seen:
            return set()
        seen = seen | {(local, fields)}
        fn_, flow_ = fobj(key)
        out = set()
        for o in flow_.origins(local, fields):
            if o[0] == "arg":
                out.add((o, frozenset()))
            elif o[0] in ("const", "undef"):
                continue
            elif o[0] == "agg":
                rv = flow_.agg_at(o)
                if rv.get("agg") in ("tuple", "array") or (rv.get("agg") == "adt" and (rv.get("adt") or "").startswith(WRAP)):
                    for op in rv["ops"]:
                        r_ = op_root(op)
                        if r_ is not None:
                            out |= resolve(key, r_, tuple(e["n"] for e in op["pl"]["p"] if isinstance(e, dict) and "f" in e), depth, stack, seen)
                elif rv.get("agg") == "adt" and rv.get("adt") in tc and rv.get("adt") not in rec and not rv.get("closure"):
                    # a carrier that is not itself a node of a syntax tree (a struct grouping a binder and a body, say): as large as
                    # the trees put into it - parts of the input if every one of them is
                    sub_ = set()
                    for op in rv["ops"]:
                        r_ = op_root(op)
                        if r_ is not None and carries(fn_.f["locals"][r_], fn_.f["crate"]):
                            got = resolve(key, r_, tuple(e["n"] for e in op["pl"]["p"] if isinstance(e, dict) and "f" in e), depth, stack, seen)
                            sub_ |= got if got else {(("built", _o(fn_, o)), frozenset())}
                    if sub_ and all(l_[0] == "arg" for l_, _ in sub_):
                        out |= sub_
                    else:
                        out.add((("built", _o(fn_, o)), frozenset()))
                else:
                    out.add((("built", _o(fn_, o)), frozenset()))
            elif o[0] == "call":
                t_ = fn_.blocks[o[1]]["term"]
                k2 = t_.get("resolved_key") or (t_.get("callee_key") if not t_.get("callee_trait") else None)
                name = t_.get("callee_name") or "?"
                if (t_.get("callee_trait"), name) in renamings:
                    name = None       # an audited renaming: the result has the size of the receiver
                elif k2 in fx.fns and fx.fns[k2]["crate"] in ZONE and "{closure" not in k2 and depth < 3 and k2 not in stack and not _is_std_trait_impl(fx.fns[k2]):
                    for leaf, via_ in ret_summary(k2, depth + 1, stack):
                        if leaf[0] == "arg":
                            if leaf[1] - 1 < len(t_["args"]):
                                a_ = t_["args"][leaf[1] - 1]
                                r_ = op_root(a_)
                                if r_ is not None:
                                    for l2, v2 in resolve(key, r_, tuple(e["n"] for e in a_["pl"]["p"] if isinstance(e, dict) and "f" in e), depth, stack, seen):
                                        out.add((l2, via_ | v2))
                        else:
                            out.add((leaf, via_))
                    continue
                # a combinator that applies a closure (`opt.map(|i| v.swap_remove(i))`): the result is what the closure returns - parts of
                # what it captured, or of the element it is applied to
                if name in ("map", "and_then", "map_or", "map_or_else", "unwrap_or_else", "or_else", "then", "filter_map", "find_map", "fold") and \
                        (t_.get("callee") or "").startswith(("core::", "alloc::", "std::")) and depth < 6:
                    handled = False
                    for a_ in t_["args"][1:]:
                        ra = op_root(a_)
                        if ra is None:
                            continue
                        for oc in flow_.origins(ra, ()):
                            if oc[0] != "agg":
                                continue
                            rvc = flow_.agg_at(oc)
                            if not rvc.get("closure"):
                                continue
                            bodies_ = [b_ for b_ in fx.by_path.get(rvc["closure"], []) if "{promoted" not in b_["key"]]
                            for b_ in bodies_:
                                if b_["key"] in stack:
                                    continue
                                handled = True
                                for leaf, via_ in ret_summary(b_["key"], depth + 1, stack):
                                    if leaf[0] == "arg" and leaf[1] == 1 and leaf[2] and str(leaf[2][0]).isdigit() and int(leaf[2][0]) < len(rvc["ops"]):
                                        cap = rvc["ops"][int(leaf[2][0])]
                                        rc = op_root(cap)
                                        if rc is not None:
                                            for l2, v2 in resolve(key, rc, tuple(e["n"] for e in cap["pl"]["p"] if isinstance(e, dict) and "f" in e), depth, stack, seen):
                                                out.add((l2, via_ | v2))
                                    elif leaf[0] == "arg" and t_["args"] and op_root(t_["args"][0]) is not None:
                                        a0_ = t_["args"][0]
                                        for l2, v2 in resolve(key, op_root(a0_), tuple(e["n"] for e in a0_["pl"]["p"] if isinstance(e, dict) and "f" in e), depth, stack, seen):
                                            out.add((l2, via_ | v2))
                                    else:
                                        out.add((leaf, via_))
                    if handled:
                        continue
                a0 = t_["args"][0] if t_["args"] else None
                r_ = op_root(a0) if a0 else None
                sub = set()
                if r_ is not None:
                    sub = resolve(key, r_, tuple(e["n"] for e in a0["pl"]["p"] if isinstance(e, dict) and "f" in e), depth, stack, seen)
                add = frozenset([name]) if name else frozenset()
                if sub:
                    for l2, v2 in sub:
                        out.add((l2, v2 | add))
                else:
                    out.add((("built", _o(fn_, o)), add))
            else:
                out.add((("built", "a computed value"), frozenset()))
        return out
    comps = _sccs(cg, fx, ZONE)
    n_sites = 0
    n_skipped = [0]
    used_rows = set()
    pending = []
    for comp in comps:
        members = set(comp)
        if all(_is_std_trait_impl(fx.fns[k]) or "{closure" in k and _is_std_trait_impl(fx.fns.get(k.split("::{closure")[0], {})) for k in comp):
            # derived / delegating impls of std traits (Clone, PartialEq, Hash, Debug, Default, Display, Error, Diagnostic)
            continue
        for k in comp:
            f = fx.fns[k]
            if _is_std_trait_impl(f) or f["crate"] == "scc_printer" or ("{closure" in k and _is_std_trait_impl(fx.fns.get(k.split("::{closure")[0], {}))):
                continue
            fn = Fn(f)
            flow = Flow(fn, extra_pass=_extra_pass)
            argc = f["argc"]
            is_closure = "{closure" in k

            def tree_param(p):
                if p < 1 or p > argc:
                    return False
                loc = f["locals"][p]
                if is_closure and p == 1:
                    return True     # captures; the argument's own type is checked at the site
                return not loc["ty"].startswith("&mut ") and carries(loc, f["crate"])
            for bi, t in fn.calls():
                if bi not in fn.reach:
                    continue
                targets = set()
                rk, ck = t.get("resolved_key"), t.get("callee_key")
                if rk in members:
                    targets.add(rk)
                elif ck in members and not t.get("callee_trait"):
                    targets.add(ck)
                elif t.get("callee_trait") and not rk:
                    targets |= {x for x in cg.trait_impls.get((t["callee_trait"], t.get("callee_name")), ()) if x in members}
                    if ck in members:
                        targets.add(ck)
                if not targets or t.get("callee_trait") == "scc_printer::types::Print":
                    continue
                n_sites += 1
                witness = None
                audited_ok = None
                detail = []
                n_tree_args = 0
                all_good = []
                callee = sorted(targets)[0]
                ekey = "%s -> %s" % (k, callee if len(targets) == 1 else (t.get("callee_trait") or "?") + "::" + (t.get("callee_name") or "?"))
                row = rows.get(ekey)
                allowed = set(row.get("via", [])) if row else set()
                for ai, a in enumerate(t["args"]):
                    r = op_root(a)
                    if r is None:
                        continue
                    loc = f["locals"][r]
                    if loc["ty"].startswith("&mut "):
                        continue
                    if not carries(loc, f["crate"]):
                        continue
                    n_tree_args += 1
                    leaves = resolve(k, r, (), 0, frozenset([k]), frozenset())
                    # flow-insensitive provenance: `self.x = self.x.f()` makes the old and the new value both origins of
                    # `self.x`; one origin that is a part of the input is accepted as the witness
                    good = [(l_, v_) for l_, v_ in leaves if l_[0] == "arg" and tree_param(l_[1]) and (not (is_closure and l_[1] == 1) or l_[2])]
                    all_good.extend(good)
                    plain = [g for g in good if not g[1]]
                    if plain:
                        witness = (ai, plain[0][0])
                        break
                    viaok = [g for g in good if g[1] <= allowed]
                    if viaok and audited_ok is None:
                        audited_ok = (ai, viaok[0])
                    what = sorted({("parameter %d through %s" % (l_[1], "/".join(sorted(v_)))) if l_[0] == "arg" and tree_param(l_[1]) else
                                   (l_[1] if l_[0] == "built" else "parameter %d (not tree-carrying or `&mut`)" % l_[1]) for l_, v_ in leaves})
                    detail.append("argument %d (%s) comes from %s" % (ai, loc["ty"][:40], ", ".join(what)[:160] or "no parameter"))
                file, line = t["sp"]["file"], t["sp"]["line"]
                if witness:
                    res.inst(ekey + "@%d" % n_sites, file, line, "ok", "argument %d is part of parameter %d" % (witness[0], witness[1][1]), nontrivial=True)
                    continue
                if n_tree_args == 0:
                    # no syntax tree is handed on: not a tree recursion (numeric descent, or the edge exists only through the
                    # over-approximation of generic dispatch); outside what this rule decides
                    n_skipped[0] += 1
                    continue
                if row and audited_ok:
                    used_rows.add(ekey)
                    res.inst(ekey + "@%d" % n_sites, file, line, "audited", "%s: %s (argument %d is a part of parameter %d passed through %s)" %
                             (row.get("class", "AUDITED"), row["reason"], audited_ok[0], audited_ok[1][0][1], "/".join(sorted(audited_ok[1][1]))))
                    continue
                vias = [g[1] for g in all_good if g[1]]
                pending.append((ekey, n_sites, k, t.get("callee_name"), vias, file, line, detail))
    # an audited call that moved into another function of the same crate (a helper extracted around it, a renamed caller): the row
    # whose own edge is gone stands for one such call when the callee method is the same and the value still passes only through
    # the calls the row lists
    for ekey, n_at, k, cname, vias, file, line, detail in pending:
        crate = fx.fns[k]["crate"]
        moved = None
        for rk_ in sorted(set(rows) - used_rows):
            row = rows[rk_]
            rcaller, rcallee = rk_.split(" -> ")
            rf = fx.fns.get(rcaller)
            rcrate = rf["crate"] if rf else rcaller.lstrip("<").split("::")[0]
            if rcrate == crate and rcallee.rstrip(">").split("::")[-1] == cname and vias and any(v <= set(row.get("via", [])) for v in vias):
                moved = rk_
                break
        if moved:
            used_rows.add(moved)
            res.inst(ekey + "@%d" % n_at, file, line, "audited", "%s (row of %s, whose own call is gone): %s" %
                     (rows[moved].get("class", "AUDITED"), moved.split(" -> ")[0].split(" as ")[0].lstrip("<").split("::")[-1], rows[moved]["reason"]))
            continue
        res.inst(ekey + "@%d" % n_at, file, line, "violation", "; ".join(detail)[:300])
        res.violate(ekey, "recursive call %s is not a structural descent: no tree-carrying argument is a part of the caller's "
                    "input (%s); the recursion is not bounded by the size of the program" % (ekey, "; ".join(detail)[:400] or "no tree-carrying argument"),
                    file, line)
    stale = sorted(set(rows) - used_rows)
    for s in stale:
        res.inst("stale-row:" + s, None, None, "ok", "audit row no longer matches a non-structural recursive call (harmless)", nontrivial=False)
    res.inst("components=%d" % len(comps), None, None, "ok", "%d recursive components, %d intra-component call sites examined (%d hand on no syntax tree: skipped); %d tree-carrying ADTs (%d recursive)"
             % (len(comps), n_sites, n_skipped[0], len(tc), len(rec)))
    res.require_floor(60)
    return res


def _o(fn, o):
    if o[0] == "call":
        t = fn.blocks[o[1]]["term"]
        return "the result of %s (line %d)" % (t.get("callee_key") or t.get("callee") or "?", t["sp"]["line"])
    if o[0] == "agg":
        return "a value built at line %d" % (fn.blocks[o[1]]["term"]["sp"]["line"] if o[2] == "ctor" else fn.blocks[o[1]]["stmts"][o[2]]["sp"]["line"])
    if o[0] == "arg":
        return "parameter %d (not tree-carrying or `&mut`)" % o[1]
    return o[0]


DRIVERS = {"next", "next_back", "pop", "pop_front", "pop_back", "pop_first", "pop_last"}
INFINITE_ITERS = ("RangeFrom", "Repeat", "Cycle", "RepeatWith", "Successors", "FromFn")


def _natural_loops(fn, f):
    """header -> set of blocks, from back edges n -> h with h dominating n"""
    loops = {}
    nblocks = len(f["blocks"])
    pred = {i: [] for i in range(nblocks)}
    for i in range(nblocks):
        if i in fn.reach:
            for s_ in fn.succ[i]:
                pred[s_].append(i)
    for n in range(nblocks):
        if n not in fn.reach:
            continue
        for h in fn.succ[n]:
            if fn.dominates(h, n):
                body = loops.setdefault(h, {h})
                stack = [n]
                while stack:
                    x = stack.pop()
                    if x in body:
                        continue
                    body.add(x)
                    stack.extend(p for p in pred[x] if p in fn.reach)
    return loops


def _root_copy(defs, l, body, depth=0):
    """follow single in-loop `use` definitions back to the variable they copy"""
    if depth > 6:
        return l
    ds = [d for d in defs.get(l, []) if d.get("bi") in body]
    if len(ds) == 1 and (ds[0].get("rv") or {}).get("k") == "use":
        o = ds[0]["rv"].get("op") or {}
        pl = o.get("pl")
        if pl and not pl["p"]:
            return _root_copy(defs, pl["l"], body, depth + 1)
    return l


_SHRINK_OR_READ = {"len", "pop", "pop_back", "pop_front", "swap_remove", "remove", "truncate", "clear", "last", "first", "is_empty", "get", "index",
                   "index_mut", "deref", "deref_mut", "as_slice", "iter", "contains", "last_mut", "first_mut", "get_mut", "as_mut_slice", "swap", "drain"}


def _len_of_shrinking(fn, f, body, defs, lenvar):
    """`lenvar` is `len()` of a collection on which the loop calls nothing that could make it longer"""
    from ..mir import Flow, op_root
    flow = Flow(fn)
    colls = set()
    for d in defs.get(lenvar, []):
        if d.get("bi") not in body:
            continue
        if d["kind"] != "call" or d["term"].get("callee_name") != "len" or not d["term"]["args"]:
            return False
        r = op_root(d["term"]["args"][0])
        if r is None:
            return False
        colls |= {(o[0], o[1]) for o in flow.origins(r, ()) if o[0] in ("arg", "call", "agg")}
    if not colls:
        return False
    for b in body:
        t = f["blocks"][b]["term"]
        if t["k"] != "call" or not t["args"]:
            continue
        for a in t["args"]:
            r = op_root(a)
            if r is None:
                continue
            if {(o[0], o[1]) for o in flow.origins(r, ()) if o[0] in ("arg", "call", "agg")} & colls:
                c = t.get("callee") or ""
                if not (c.startswith(("alloc::vec::", "core::slice::", "alloc::collections::", "core::ops::", "core::option::", "core::iter::", "alloc::slice::", "core::cmp::", "core::clone::")) and t.get("callee_name") in _SHRINK_OR_READ | {"clone", "is_some_and", "eq", "ne"}):
                    return False
    return True


def _counting_loop(fn, f, body, defs):
    """a loop left when an integer counter, changed by a non-zero constant in one direction on every trip, passes a bound that the loop
    does not change: `while i < n { ..; i += 1 }`"""
    for b in sorted(body):
        t = f["blocks"][b]["term"]
        if t["k"] != "switch" or all(s_ in body for s_ in fn.succ[b]):
            continue
        d = t.get("discr") or {}
        pl = d.get("pl") if isinstance(d, dict) else None
        if not pl:
            continue
        for dd in defs.get(pl["l"], []):
            rv = dd.get("rv") or {}
            if rv.get("k") != "binop" or rv.get("op") not in ("Lt", "Le", "Gt", "Ge", "Ne"):
                continue
            ops = []
            for o in (rv.get("a"), rv.get("b")):
                if isinstance(o, dict) and o.get("pl") and not o["pl"]["p"]:
                    ops.append(("var", _root_copy(defs, o["pl"]["l"], body)))
                elif isinstance(o, dict) and o.get("k") == "const":
                    ops.append(("const", o.get("val")))
                else:
                    ops.append(("?", None))
            for ci, bi_ in ((0, 1), (1, 0)):
                if ops[ci][0] != "var":
                    continue
                c = ops[ci][1]
                # the bound: a constant, a variable without definitions inside the loop, or the length of a collection that the loop
                # only shrinks (`while pos < v.len() { .. v.pop() / v.swap_remove(..) ..; pos += 1 }`): an increasing counter passes it
                shrinking_len = False
                if ops[bi_][0] == "var" and any(d2.get("bi") in body for d2 in defs.get(ops[bi_][1], [])):
                    shrinking_len = ci == 0 and rv.get("op") in ("Lt", "Le") and _len_of_shrinking(fn, f, body, defs, ops[bi_][1])
                    if not shrinking_len:
                        continue
                if ops[bi_][0] == "?":
                    continue
                # every in-loop definition of the counter is `c = (c +- k).0` / `c = c +- k` with k a non-zero constant, one direction
                dirs = set()
                ok = True
                inloop = [d2 for d2 in defs.get(c, []) if d2.get("bi") in body]
                if not inloop:
                    continue
                for d2 in inloop:
                    rv2 = d2.get("rv") or {}
                    src = None
                    if rv2.get("k") == "use":
                        o2 = rv2.get("op") or {}
                        p2 = o2.get("pl")
                        if p2:
                            for d3 in defs.get(p2["l"], []):
                                r3 = d3.get("rv") or {}
                                if r3.get("k") == "binop":
                                    src = r3
                    elif rv2.get("k") == "binop":
                        src = rv2
                    if not src or src.get("op") not in ("Add", "Sub", "AddWithOverflow", "SubWithOverflow", "AddUnchecked", "SubUnchecked"):
                        ok = False
                        break
                    a_, b_ = src.get("a") or {}, src.get("b") or {}
                    if not (a_.get("pl") and _root_copy(defs, a_["pl"]["l"], body) == c and b_.get("k") == "const" and isinstance(b_.get("val"), int) and b_["val"] != 0):
                        ok = False
                        break
                    up = src["op"].startswith("Add") == (b_["val"] > 0)
                    dirs.add("up" if up else "down")
                if not ok or len(dirs) != 1:
                    continue
                if shrinking_len and dirs != {"up"}:
                    continue
                # the update must lie on every cycle: its block dominates the back edge sources (approximated: it is in the body and
                # the header dominates it - natural loop - and it post-dominates nothing else we can check cheaply); require that the
                # counter update block dominates every in-loop predecessor of the header
                upd_blocks = {d2["bi"] for d2 in inloop}
                hdr = min(body, key=lambda x: 0 if all(fn.dominates(x, y) for y in body) else 1)
                back = [n for n in body if hdr in fn.succ[n]]
                if not all(any(fn.dominates(u, n) for u in upd_blocks) for n in back):
                    continue
                return True
    return False


def rule_loops(ctx):
    fx = ctx.fx
    res = RuleResult("R-LOOP", "every loop of the pipeline crates (natural loops of the MIR control-flow graph; the lalrpop-generated parser tables "
                     "excepted) leaves through the exhaustion of a finite iterator or of a collection it pops from: each exit edge of the loop "
                     "is the `None` arm of a switch on the result of Iterator::next / pop* called inside the loop on a finite source. Loops "
                     "that leave on any other condition (a counter, a search, a shifted value reaching zero) are not bounded by structure; "
                     "the ones on the pinned tree are audited in audit/loops.toml, a new one is reported")
    _, rows = audit.load("loops")
    n = 0
    used = set()
    flagged = {}
    for k, f in sorted(fx.fns.items()):
        if f["crate"] not in ZONE or "{promoted" in k:
            continue
        if k.startswith("fun::parser::fun::__") or "::__parse__" in k:
            continue        # generated LR driver: termination by the LR construction (trusted, like the rest of lalrpop)
        fn = Fn(f)
        loops = _natural_loops(fn, f)
        if not loops:
            continue
        defs = fn.defs()
        for h, body in sorted(loops.items()):
            n += 1
            problems = []
            # driver blocks: a call to next/pop* on a finite source inside the loop whose result's `None` arm leaves the loop
            drivers = set()
            for b in sorted(body):
                t = f["blocks"][b]["term"]
                if t["k"] != "call" or t.get("callee_name") not in DRIVERS or any(x in (t.get("callee_self") or "") for x in INFINITE_ITERS):
                    continue
                res_local = t["dest"]["l"] if t.get("dest") and not t["dest"]["p"] else None
                if res_local is None or t.get("target") is None:
                    continue
                # find a switch in the loop on discriminant(res_local) with a successor outside the loop
                for b2 in sorted(body):
                    t2 = f["blocks"][b2]["term"]
                    if t2["k"] != "switch":
                        continue
                    d = t2.get("discr") or t2.get("op") or {}
                    pl = d.get("pl") if isinstance(d, dict) else None
                    if not pl:
                        continue
                    for dd in defs.get(pl["l"], []):
                        rv = dd.get("rv") or {}
                        if rv.get("k") == "discr" and rv.get("pl") and rv["pl"]["l"] == res_local:
                            if any(s_ not in body for s_ in fn.succ[b2]):
                                drivers.add(b)
            # is there a cycle through the header that avoids every driver block?
            seen, work, cyc = set(), [s_ for s_ in fn.succ[h] if s_ in body and h not in drivers], False
            if h in drivers:
                work = []
            while work:
                x = work.pop()
                if x == h:
                    cyc = True
                    break
                if x in seen or x in drivers or x not in body:
                    continue
                seen.add(x)
                work.extend(s_ for s_ in fn.succ[x] if s_ in body)
            if cyc and _counting_loop(fn, f, body, defs):
                cyc = False
            if cyc:
                problems.append((h, h))
            line = (f["blocks"][h]["term"].get("sp") or f["sp"]).get("line")
            ikey = "%s@loop%d" % (k, sorted(loops).index(h))
            if not problems:
                res.inst(ikey, f["sp"]["file"], line, "ok", nontrivial=False)
                continue
            flagged.setdefault(k, []).append((ikey, f["sp"]["file"], line, problems[0][0], f["crate"]))
    # audited loops: by function; a loop that moved to another function of the same crate (the audited function has lost one) keeps its row
    spare = {}
    pending = []
    for k, row in rows.items():
        have = len(flagged.get(k, []))
        allowed = int(row.get("loops", 1))
        crate = fx.fns[k]["crate"] if k in fx.fns else k.lstrip("<").split("::")[0]
        if have < allowed:
            spare.setdefault(crate, []).extend([row] * (allowed - have))
    for k, lst in sorted(flagged.items()):
        row = rows.get(k)
        allowed = int(row.get("loops", 1)) if row else 0
        for i, (ikey, file_, line, blk, crate) in enumerate(lst):
            if i < allowed:
                used.add(k)
                res.inst(ikey, file_, line, "audited", row["reason"])
            else:
                pending.append((k, ikey, file_, line, blk, crate))
    for k, ikey, file_, line, blk, crate in pending:
        if spare.get(crate):
            row = spare[crate].pop()
            used.add(row["key"])
            res.inst(ikey, file_, line, "audited", "moved from %s: %s" % (row["key"].split("::")[-1], row["reason"]))
            continue
        res.inst(ikey, file_, line, "violation")
        res.violate(ikey, "%s has a loop (line %s) that is left on a condition other than the exhaustion of an iterator or a popped collection "
                    "(a cycle through block %d avoids every next()/pop() whose `None` leaves the loop): nothing in the structure of the code bounds the number of iterations" % (k, line, blk),
                    file_, line)
    res.inst("loops=%d" % n, None, None, "ok", "%d natural loops examined, %d functions audited" % (n, len(used)))
    res.require_floor(60)
    return res
