"""R-XLATE (C02): the translation scheme of the simple Fun term forms, read off the folded `Compile::compile_with_cont`.

Every impl is abstractly interpreted with symbolic subterms and a symbolic consumer; the recursive translations of the subterms
(`compile_with_cont`, `compile`), `share`, the fresh-name supply and the type translation are hooked and leave markers, so the
result is a Core statement whose shape can be compared with the translation scheme of the language (continuation-passing
translation into the sequent calculus):

    [[n]]_c              = < n | c >
    [[x]]_c              = < x | c >
    [[t1 (op) t2]]_c     = < (op)([[t1]], [[t2]]) | c >
    [[if t1 cmp t2 ..]]_c = if cmp([[t1]], [[t2]]) then [[t3]]_c' else [[t4]]_c'   (c' = c, or share(c) when c is not a leaf)
    [[let x = t1; t2]]_c = [[t1]]_{mu~ x. [[t2]]_c}            (codata: < [[t1]] | mu~ x. [[t2]]_c >)
    [[label a {t}]]_c    = < mu a. [[t]]_a | c >
    [[goto(t; a)]]_c     = [[t]]_a                                (the consumer of the goto itself is dropped)
    [[exit t]]_c         = exit [[t]]                             (the consumer is dropped)
    [[print(t); u]]_c    = print [[t]]; [[u]]_c
    [[(t)]]_c            = [[t]]_c
    [[f(args)]]_c        = f([[args]], c)                         (the consumer is the last argument)
"""
import re

from ..core import RuleResult
from ..facts import AnalysisError
from ..interp import Adt, Vec, Sym, Interp, FnVal
from .. import backend

FUN = "fun::syntax::terms::"
CORE = "scc_core_lang::syntax::"


def _show(I, v, depth=0):
    """canonical, type-free rendering of a Core value built by the translation"""
    v = I.deref(v)
    if depth > 12:
        return "..."
    if isinstance(v, Adt):
        if v.path == "XLATE":
            return (v.variant,) + tuple(_show(I, v.fields[k], depth + 1) for k in sorted(v.fields))
        name = (v.path or "").split("::")[-1]
        if v.path and v.path.startswith(CORE):
            # enum wrappers Statement::X(inner) / Term::X(inner): show the inner node
            if set(v.fields) == {"0"} and name in ("Statement", "Term", "FsStatement", "FsTerm", "Argument"):
                inner = _show(I, v.fields["0"], depth + 1)
                return (name + "::" + str(v.variant), inner) if name == "Argument" else inner
            fields = {k: _show(I, x, depth + 1) for k, x in v.fields.items() if k not in ("ty", "span")}
            return (name if v.variant in (None, name) else "%s::%s" % (name, v.variant),) + tuple(sorted(fields.items()))
        if v.path is None:
            return tuple(_show(I, v.fields[k], depth + 1) for k in sorted(v.fields))
        if v.path in ("core::option::Option",):
            return ("Some", _show(I, v.fields["0"], depth + 1)) if v.variant == "Some" else ("None",)
        return (name + "::" + str(v.variant),) + tuple(sorted((k, _show(I, x, depth + 1)) for k, x in v.fields.items()))
    if isinstance(v, Vec):
        return ("vec",) + tuple(_show(I, x, depth + 1) for x in v.items)
    if isinstance(v, Sym):
        # the incoming consumer after its shape was tested (`Term::X(inner)`): still the consumer
        return "$" + re.sub(r"^CONT(\.0)+$", "CONT", v.name)
    if isinstance(v, (str, int, bool)):
        return v
    return "?%r" % (v,)


def rule_xlate(ctx):
    fx = ctx.fx
    res = RuleResult("R-XLATE", "the translation scheme of the simple Fun term forms (literal, variable, arithmetic, conditional, let, label, goto, exit, "
                     "print, parentheses, call), read off `Compile::compile_with_cont` by abstract interpretation with symbolic subterms and a "
                     "symbolic consumer - recursive translations, share(), the fresh-name supply and the type translation leave markers - and "
                     "compared with the continuation-passing translation of the language: which subterm is translated with which consumer, "
                     "what is cut against what, where the incoming consumer ends up")
    NONE = Adt("core::option::Option", "None", {})

    def some(v):
        return Adt("core::option::Option", "Some", {"0": v})

    def run(form, fields, codata=False, leaf=False):
        adt = FUN + form
        key = "<%s as fun2core::compile::Compile>::compile_with_cont" % adt
        f = fx.fn(key)
        counter = [0]

        def hook(I, p, fr, t, args):
            n = t.get("callee_name")
            ck = t.get("callee_key") or ""
            tr = t.get("callee_trait") or ""
            if tr == "fun2core::compile::Compile" and n in ("compile_with_cont", "compile") and fr.f["key"] != ck:
                v = I.deref(args[0])
                if isinstance(v, Sym):
                    if n == "compile_with_cont":
                        return Adt("XLATE", "stmt", {"of": v.name, "k": args[1]})
                    return Adt("XLATE", "prd", {"of": v.name})
            if n == "share" and ck.startswith("fun2core::"):
                # the consumer that is shared: the argument that is not the translation state (free function or method of the state)
                ks = [a for a in args if not (isinstance(I.deref(a), Sym) and I.deref(a).name == "state")]
                return Adt("XLATE", "shared", {"k": ks[0] if ks else args[0]})
            if n in ("fresh_var", "fresh_covar") and "CompileState" in ck:
                counter[0] += 1
                return "fresh%d" % counter[0]
            if n in ("compile_ty",) and ck.startswith("fun2core::"):
                return Adt("XLATE", "ty", {"of": args[0]})
            if n == "is_codata":
                return codata
            if ck.startswith("fun2core::") and args and isinstance(I.deref(args[0]), Sym) and \
                    (n == "compile_subst" or (ck in fx.fns and fx.fns[ck]["locals"][0]["ty"].endswith("Arguments") and "{" not in ck and len(args) == 2)):
                # the translation of an argument list (compile_subst on the pinned tree): a marker for the translated arguments
                return Adt(CORE + "arguments::Arguments", "Arguments", {"entries": Vec([Adt("XLATE", "args", {"of": args[0]})])})
            if n in ("subst_covar", "subst_var", "subst_sim") and tr.endswith("traits::substitution::Subst"):
                # a substitution applied to a translated statement: kept as a marker (the scheme of the language has none)
                return Adt("XLATE", "substituted", {"in": args[0], "by": Vec([I.deref(a) for a in args[1:]])})
            if n == "get_type":
                return some(Sym("type_of(%r)" % (I.deref(args[0]),)))
            return NotImplemented
        A = fx.adts[adt]
        vals = {}
        for fd in A["variants"][0]["fields"]:
            vals[fd["name"]] = fields.get(fd["name"], Sym("self." + fd["name"]))
        cont = Adt(CORE + "terms::Term", "XVar", {"0": Adt(CORE + "terms::xvar::XVar", "XVar", {"prdcns": Adt(CORE + "terms::Cns", "Cns", {}), "var": Sym("K"), "ty": Sym("kty")})}) \
            if leaf else Sym("CONT", adt=CORE + "terms::Term")
        I = Interp(fx, hooks=[hook], max_depth=5, max_paths=128)
        outs = I.run(f, [Adt(adt, A["variants"][0]["name"], vals), cont, Sym("state")])
        normal = [o for o in outs if not getattr(o, "diverged", None)]
        msg = None
        if outs and not normal:
            msg = backend.fold_verdict(outs, "R-XLATE: %s" % form)      # every path panics
        return f, I, normal, msg

    def norm_cont(x):
        return x

    def undetermined(strings):
        return [s_ for s_ in strings if "?" in s_[:2] or "'$ret:" in s_ or "'?" in s_ or '"?' in s_ or "?<" in s_]

    def judge(form, fields, want, label="", **kw):
        f, I, outs, msg = run(form, fields, **kw)
        ikey = "%s%s" % (form.split("::")[-1], label)
        if msg:
            res.inst(ikey, f["sp"]["file"], f["sp"]["line"], "violation")
            res.violate(ikey, msg, f["sp"]["file"], f["sp"]["line"])
            return
        shown = sorted({repr(_show(I, o.result)) for o in outs})
        if not shown:
            raise AnalysisError("R-XLATE: %s%s did not fold" % (form, label))
        wants = sorted({repr(w) for w in (want if isinstance(want, list) else [want])})
        if undetermined(shown):
            raise AnalysisError("R-XLATE: the translation of %s%s contains a part the interpreter could not determine: %s" % (form, label, shown[0][:300]))
        if shown == wants:
            res.inst(ikey, f["sp"]["file"], f["sp"]["line"], "ok", "%d shape(s)" % len(shown))
            return
        res.inst(ikey, f["sp"]["file"], f["sp"]["line"], "violation")
        res.violate(ikey, "the translation of %s%s is %s, the translation scheme of the language gives %s" %
                    (form.split("::")[-1], (" (" + label.strip(":") + ")") if label else "", " / ".join(shown)[:500], " / ".join(wants)[:400]), f["sp"]["file"], f["sp"]["line"])

    # ---- expected shapes (built with the same renderer conventions) ----
    K = "$CONT"

    def stmt(of, k):
        return ("stmt", k, "self." + of)

    def prd(of):
        return ("prd", "self." + of)

    def cut(producer, consumer):
        return ("Cut", ("consumer", consumer), ("producer", producer))

    def xvar(chi, name):
        return ("XVar", ("prdcns", (chi,)), ("var", name))

    def ident(x):
        return ("Identifier::Identifier", ("id", 0), ("name", x)) if False else x

    def idt(name):
        return ("Identifier", ("id", 0), ("name", name))

    def covar(name):
        return ("XVar", ("prdcns", ("Cns",)), ("var", name))

    def var(name):
        return ("XVar", ("prdcns", ("Prd",)), ("var", name))

    def mu_tilde(x, body):
        return ("Mu", ("prdcns", ("Cns",)), ("statement", body), ("variable", x))

    def mu(a, body):
        return ("Mu", ("prdcns", ("Prd",)), ("statement", body), ("variable", a))
    LEAF = covar("$K")
    SHARED = ("shared", K)
    LITF = "lit::Lit" if (FUN + "lit::Lit") in fx.adts else "literal::Lit"
    VARF = "variable::XVar" if (FUN + "variable::XVar") in fx.adts else "var::XVar"
    judge(LITF, {"lit": 7}, cut(("Literal", ("lit", 7)), K))
    judge(VARF, {"var": "x", "ty": some(Sym("xty")), "chi": NONE}, cut(var(idt("x")), K))
    judge("op::Op", {"op": Adt(FUN + "op::BinOp", "Sub", {})},
          cut(("Op", ("fst", prd("fst")), ("op", ("BinOp::Sub",)), ("snd", prd("snd"))), K))
    judge("paren::Paren", {}, stmt("inner", K))
    judge("print::PrintI64", {"newline": True}, ("PrintI64", ("arg", prd("arg")), ("newline", True), ("next", stmt("next", K))))
    judge("exit::Exit", {"ty": some(Sym("ety"))}, ("Exit", ("arg", prd("arg"))))
    judge("goto::Goto", {"target": "a", "ty": some(Sym("gty"))}, stmt("term", covar(idt("a"))))
    judge("label::Label", {"label": "a", "ty": some(Sym("lty"))}, cut(mu(idt("a"), stmt("term", covar(idt("a")))), K))
    # let: the bound term runs first with the body as its continuation (data, integers); at codata types it is cut against the
    # continuation unevaluated
    judge("let::Let", {"variable": "v", "var_ty": Sym("vty")}, stmt("bound_term", mu_tilde(idt("v"), stmt("in_term", K))), ":data", codata=False)
    judge("let::Let", {"variable": "v", "var_ty": Sym("vty")}, cut(prd("bound_term"), mu_tilde(idt("v"), stmt("in_term", K))), ":codata", codata=True)
    # conditionals: both branches get the same consumer; a leaf consumer is used as it is, any other one is shared
    sort = Adt(FUN + "ifc::IfSort", "Less", {})

    def ifc(snd, k):
        return ("IfC", ("elsec", stmt("elsec", k)), ("fst", prd("fst")), ("snd", snd), ("sort", ("IfSort::Less",)), ("thenc", stmt("thenc", k)))
    judge("ifc::IfC", {"sort": sort, "snd": some(Sym("self.snd"))}, ifc(("Some", prd("snd")), LEAF), ":two-operands,leaf-consumer", leaf=True)
    judge("ifc::IfC", {"sort": sort, "snd": NONE}, ifc(("None",), LEAF), ":zero-form,leaf-consumer", leaf=True)
    f, I, outs, msg = run("ifc::IfC", {"sort": sort, "snd": NONE})
    shapes = {repr(_show(I, o.result)) for o in outs}
    ikey = "IfC:any-consumer"
    # with a consumer of unknown shape every path either hands the consumer on unchanged (it was recognised as a leaf) or shares it
    allowed = {repr(ifc(("None",), K)), repr(ifc(("None",), SHARED))}
    if msg or not shapes:
        raise AnalysisError("R-XLATE: IfC with a symbolic consumer did not fold")
    if undetermined(shapes):
        raise AnalysisError("R-XLATE: the translation of IfC contains a part the interpreter could not determine: %s" % undetermined(shapes)[0][:300])
    if shapes <= allowed and repr(ifc(("None",), SHARED)) in shapes:
        res.inst(ikey, f["sp"]["file"], f["sp"]["line"], "ok", "%d paths: consumer shared unless a leaf" % len(outs))
    else:
        res.inst(ikey, f["sp"]["file"], f["sp"]["line"], "violation")
        res.violate(ikey, "the translation of a conditional hands its branches %s; the scheme gives both branches the same consumer - the incoming one when it "
                    "is a leaf, its shared copy otherwise" % " / ".join(sorted(shapes - allowed) or sorted(shapes))[:500], f["sp"]["file"], f["sp"]["line"])
    # call: the translated arguments followed by the consumer
    f, I, outs, msg = run("call::Call", {"name": "f", "ret_ty": some(Sym("rty"))})
    ikey = "Call"
    got = sorted({repr(_show(I, o.result)) for o in outs})
    want = repr(("Call", ("args", ("Arguments", ("entries", ("vec", ("args", "$self.args"), ("Argument::Consumer", K))))), ("name", idt("f"))))
    if msg or not got:
        raise AnalysisError("R-XLATE: Call did not fold")
    if undetermined(got):
        raise AnalysisError("R-XLATE: the translation of Call contains a part the interpreter could not determine: %s" % undetermined(got)[0][:300])
    if got == [want]:
        res.inst(ikey, f["sp"]["file"], f["sp"]["line"], "ok")
    else:
        res.inst(ikey, f["sp"]["file"], f["sp"]["line"], "violation")
        res.violate(ikey, "the translation of a call is %s, the scheme gives f(<translated arguments>, <consumer>)" % " / ".join(got)[:500], f["sp"]["file"], f["sp"]["line"])
    res.require_floor(14)
    return res
