"""R-STMT: the generic statement-level code generation (axcut2backend::statements) validated per backend against the AxCut
machine step each statement stands for.

`CodeStatement::code_statement` is generic in the backend; the interpreter instantiates it at each backend (`Backend` ->
axcut2x86_64::Backend, ...) and folds it for small statements over contexts straddling the register/spill boundary.  The
recursion into the next statement / the clause bodies is cut by a hook that plants a MARK carrying the context handed on.
The emitted list is then checked segment by segment on the symbolic machine:

  let v = K(args); next      args stored as by the reference semantics of R-MEM, Fst(v) = block, Snd(v) = jump_length(index of K),
                             next gets kept ++ [v: prd]
  lit / op                   Snd(v) = literal / op(Snd(a), Snd(b)), next gets context ++ [v: ext]
  switch v {..}              jump to table + Snd(v); table entries in clause order; each clause loads its fields from Fst(v) as by the
                             reference semantics and continues with kept ++ clause context; a single clause falls through
  create v = (env){..}; next env stored, Snd(v) = address of the method table, next gets kept ++ [v: cns]; each method loads the
                             environment from the closure pointer behind its own arguments and continues with arguments ++ env
  invoke v.D(args)           jump to Snd(v) + jump_length(index of D) (plain Snd(v) for a single destructor)
  if a <op> b / a <op> 0     the conditional jump of R-ISEL on Snd(a), Snd(b); else branch first, then label, then branch; both get
                             the unchanged context
  exit v / call f            return register = Snd(v), jump to cleanup / jump to the definition's label

Everything else (the frame: kept variables, heap/free, stack pointer) must be unchanged."""
import itertools

from .. import backend, isa, interp
from ..core import RuleResult
from ..facts import AnalysisError
from ..interp import Adt, Sym, Vec
from .codegen import Target, temporary_at, check_effect, _init_machine, _read_loc
from . import memory as mem

AX = "axcut::syntax::"
CS = "axcut2backend::statements::code_statement::CodeStatement"
NONE = Adt("core::option::Option", "None", {})


def ident(name, i):
    return Adt(AX + "names::Identifier", "Identifier", {"name": name, "id": i})


def ty_decl(name):
    return Adt(AX + "types::Ty", "Decl", {"0": ident(name, 0)})


def binding(i, chi):
    """variable number i (its Identifier id is i)"""
    return Adt(AX + "context::ContextBinding", "ContextBinding", {
        "var": ident("x%d" % i, i), "chi": Adt(AX + "context::Chirality", chi, {}),
        "ty": Adt(AX + "types::Ty", "I64", {}) if chi == "Ext" else ty_decl("T")})


def tctx(bs):
    return Adt(AX + "context::TypingContext", "TypingContext", {"bindings": Vec(list(bs))})


def decl(name, xtors):
    """xtors: [(name, [chi...])]"""
    return Adt(AX + "declaration::TypeDeclaration", "TypeDeclaration", {"name": ident(name, 0), "xtors": Vec([
        Adt(AX + "declaration::XtorSig", "XtorSig", {"name": ident(x, 0), "args": tctx([binding(900 + i, c) for i, c in enumerate(chis)])})
        for x, chis in xtors])})


def clause(xtor, bs):
    return Adt(AX + "statements::clause::Clause", "Clause", {"xtor": ident(xtor, 0), "context": tctx(bs), "body": Sym("body:" + xtor)})


def _key(fx, adt):
    ks = [k for k in fx.fns if k == "<%s as %s>::code_statement" % (adt, CS)]
    if len(ks) != 1:
        raise AnalysisError("R-STMT: code_statement of %s not found" % adt)
    return ks[0]


def fold_stmt(ctx, tg, key, stmt, types, context):
    def hook(I, p, fr, t, args):
        if t.get("callee_name") == "code_statement" and (t.get("callee_trait") or "") == CS:
            vec = I.deref(args[3]) if len(args) > 3 else None
            if isinstance(vec, Vec):
                vec.items.append(Adt(None, "MARK", {"ctx": I.deref(args[2]), "who": args[0]}))
            return Adt(None, None, {})
        if t.get("callee_name") == "print_to_string" and args:
            # label texts are built from printed names: model the printed form of a name by the name itself (labels only need to be
            # told apart here; their exact text is R-LABEL's subject)
            v = I.deref(args[0])
            if isinstance(v, Adt) and v.variant == "Identifier" and isinstance(v.fields.get("name"), str):
                return v.fields["name"]
            if isinstance(v, Adt) and v.variant == "Decl" and isinstance(v.fields.get("0"), Adt):
                return v.fields["0"].fields.get("name")
            return "?"
        return NotImplemented
    _, outs = backend.fold(ctx, key, [stmt, Vec(list(types)), context, Vec()], hooks=[hook], type_env={"Backend": tg.crate + "::Backend"}, max_steps=400000)
    msg = backend.fold_verdict(outs, "R-STMT: %s at %s" % (key.split(" as ")[0].lstrip("<").split("::")[-1], tg.b))
    if msg:
        return msg
    outs = [o for o in outs if not getattr(o, "diverged", None)]
    if not isinstance(outs[0].final.locals[4], Vec):
        raise AnalysisError("R-STMT: the instruction list of %s is not concrete" % key)
    return outs[0].final.locals[4].items


def _ctx_ids(c):
    if not (isinstance(c, Adt) and isinstance(c.fields.get("bindings"), Vec)):
        return None
    out = []
    for b in c.fields["bindings"].items:
        if not isinstance(b, Adt):
            return None
        out.append((b.fields["var"].fields.get("id"), b.fields["chi"].variant))
    return out


def _marks(codes):
    return [i for i, c in enumerate(codes) if isinstance(c, Adt) and c.variant == "MARK"]


def _labs(codes):
    return {isa._label_str(c.fields.get("0")): i for i, c in enumerate(codes) if isinstance(c, Adt) and c.variant == "LAB"}


def _jump_length(tg, n):
    ks = [k for k in tg.ctx.fx.fns if k.startswith("<%s::Backend as axcut2backend::config::Config<" % tg.crate) and k.endswith(">::jump_length")]
    outs = backend.fold(tg.ctx, ks[0], [n])[1]
    r = outs[0].result
    return interp.sole_int(r)


def _label_var(v):
    """the label text inside the machine's `label:` value"""
    if v and v[0] == "var" and v[1].startswith("label:"):
        return v[1][6:]
    return None


def rule_stmt(b):
    def rule(ctx):
        fx = ctx.fx
        tg = Target(ctx, b)
        lay = mem.Layout(tg)
        arch = b
        res = RuleResult("R-STMT/" + b, "statement-level code generation of the %s backend: axcut2backend's generic code_statement impls are "
                         "instantiated at this backend, folded for small statements over contexts straddling the register/spill boundary "
                         "(the recursion into next / clause bodies is cut and the context handed on recorded), and every segment is run "
                         "on the symbolic machine against the AxCut machine step: let (block contents, tag = jump_length(position)), "
                         "literal, op, switch (dispatch target, table order, per-clause loads), create (environment, table address, "
                         "per-method loads), invoke (dispatch), if (condition, branch order), exit, call; the kept variables, heap/free "
                         "and stack pointer are unchanged and the context handed on is the one the next statement expects" % b)
        reg_num = tg.consts["REGISTER_NUM"]["val"]
        nreg = (reg_num - tg.reserved) // 2
        rs = [0, 2] if b == "rv64" else [0, nreg - 2, nreg + 1]
        if ctx.tier == "thorough":
            rs = [0, 1, 2, 3, 6] if b == "rv64" else sorted({0, 1, 2, nreg - 3, nreg - 2, nreg - 1, nreg, nreg + 1, nreg + 2})
        spill = tg.spill_temp_slot()
        scratch_slots = [spill] if spill else []
        T = ty_decl("T")
        types = [decl("T", [("K0", []), ("K1", ["Ext", "Prd"]), ("K2", ["Prd", "Ext", "Ext", "Prd"])]),
                 decl("U", [("D0", ["Ext"])]),
                 decl("E", [("E0", []), ("E1", [])])]       # an enumeration: a data type all of whose constructors are nullary
        TE = ty_decl("E")
        XT = {"K0": [], "K1": ["Ext", "Prd"], "K2": ["Prd", "Ext", "Ext", "Prd"]}
        heapreg, freereg = mem._reg_const(tg, "HEAP"), mem._reg_const(tg, "FREE")

        def kept_ctx(r):
            return [binding(i, "Prd" if i % 2 else "Ext") for i in range(r)]

        def path_check(codes, start, nvars, spec, defined, dont_care, want_ctx, what, null_at=()):
            """follow every path from `start` to the next MARK; compare with the reference; returns problems.  null_at: locations that
            hold the null pointer when the statement starts (the first temporary of a value without fields)"""
            m0, init = mem._init(tg, nvars)
            for l_ in null_at:
                init[l_] = isa.const(0)
                if l_[0] == "reg":
                    m0.regs[l_[1]] = isa.const(0)
                else:
                    m0.mem[l_[1]] = isa.const(0)
            paths = isa.explore(ctx, arch, codes, m0.clone(), max_paths=200, start=start)
            if not paths:
                return ["no path"]
            for m, facts, ex in paths:
                if not (isinstance(ex, tuple) and ex[0] == "mark"):
                    return ["%s: the code leaves the statement (%r) before handing over to the next one" % (what, ex)]
                got_ctx = _ctx_ids(codes[ex[1]].fields["ctx"])
                if want_ctx is not None and got_ctx != want_ctx:
                    return ["%s: the next statement is compiled in context %s, expected %s" % (what, got_ctx, want_ctx)]
                ref_m = m0.clone()
                R = mem.Ref(tg, lay, ref_m, facts)
                try:
                    spec(R, init, ref_m)
                except isa.SpecNeeds as e:
                    return ["%s: the scheme requires a zero test of %s which this path never makes" % (what, e)]
                pr = mem._compare(tg, m, ref_m, init, defined, dont_care, scratch_slots)
                if pr:
                    return ["%s: %s [path: %s]" % (what, "; ".join(pr[:3]), mem._facts_str(facts) or "straight")]
            return []

        def report(ikey, adt, bad, n):
            f = fx.fns[_key(fx, adt)]
            if bad:
                res.inst(ikey, f["sp"]["file"], f["sp"]["line"], "violation", "%d of %d cases wrong" % (len(bad), n))
                res.violate(ikey, "%s  [%d of %d cases wrong]" % (bad[0], len(bad), n), f["sp"]["file"], f["sp"]["line"])
            else:
                res.inst(ikey, f["sp"]["file"], f["sp"]["line"], "ok", "%d cases" % n)

        # ---------------- let ----------------
        adt = AX + "statements::let::Let"
        key = _key(fx, adt)
        bad, n = [], 0
        for r in rs:
            for tag, pos in (("K0", 0), ("K1", 1), ("K2", 2)):
                chis = XT[tag]
                if b == "rv64" and r + len(chis) > nreg:
                    continue
                n += 1
                args = [binding(r + i, c) for i, c in enumerate(chis)]
                stmt = Adt(adt, "Let", {"var": ident("v", 500), "ty": T, "tag": ident(tag, 0), "args": tctx(args), "next": Sym("next"), "free_vars_next": NONE})
                codes = fold_stmt(ctx, tg, key, stmt, types, tctx(kept_ctx(r) + args))
                what = "let v = %s(%d args) after %d kept" % (tag, len(chis), r)
                if isinstance(codes, str):
                    bad.append(what + ": " + codes)
                    continue
                jl = _jump_length(tg, pos)

                def spec(R, init, ref_m, chis=chis, r=r, jl=jl):
                    R.store(chis, r, init)
                    mem.wr(ref_m, mem.loc(tg, "Snd", r), isa.const(jl))
                defined = [mem.loc(tg, "Fst", r), mem.loc(tg, "Snd", r)]
                dont = [mem.loc(tg, num, r + i) for i in range(len(chis)) for num in ("Fst", "Snd")]
                dont = [l for l in dont if l not in defined]
                want = [(i, "Prd" if i % 2 else "Ext") for i in range(r)] + [(500, "Prd")]
                pr = path_check(codes, 0, r + max(len(chis), 1), spec, defined, dont, want, what)
                if pr:
                    bad.append(pr[0])
        report(b + ":let", adt, bad, n)

        # ---------------- literal, op ----------------
        adt = AX + "statements::literal::Literal"
        key = _key(fx, adt)
        bad, n = [], 0
        for r in rs:
            for lit in (0, -7, 1 << 40):
                n += 1
                stmt = Adt(adt, "Literal", {"lit": lit, "var": ident("v", 500), "next": Sym("next"), "free_vars_next": NONE})
                codes = fold_stmt(ctx, tg, key, stmt, types, tctx(kept_ctx(r)))
                what = "lit v <- %d after %d kept" % (lit, r)
                if isinstance(codes, str):
                    bad.append(what + ": " + codes)
                    continue

                def spec(R, init, ref_m, r=r, lit=lit):
                    mem.wr(ref_m, mem.loc(tg, "Snd", r), isa.const(lit))
                want = [(i, "Prd" if i % 2 else "Ext") for i in range(r)] + [(500, "Ext")]
                pr = path_check(codes, 0, r + 1, spec, [mem.loc(tg, "Snd", r)], [mem.loc(tg, "Fst", r)], want, what)
                if pr:
                    bad.append(pr[0])
        report(b + ":literal", adt, bad, n)

        adt = AX + "statements::op::Op"
        key = _key(fx, adt)
        bad, n = [], 0
        OPS = {"Sum": "add", "Sub": "sub", "Prod": "mul", "Div": "sdiv", "Rem": "srem"}
        for r in [x for x in rs if x >= 2] + ([3] if b == "rv64" else []):
            for opn, sem in OPS.items():
                for (i, j) in ((0, r - 1), (r - 1, 0), (r - 2, r - 2)):
                    if i % 2 or j % 2:
                        # integer variables: kept_ctx gives even indices chirality ext
                        i, j = i - (i % 2), j - (j % 2)
                    n += 1
                    stmt = Adt(adt, "Op", {"fst": ident("a", i), "op": Adt(AX + "statements::op::BinOp", opn, {}), "snd": ident("b", j),
                                           "var": ident("v", 500), "next": Sym("next"), "free_vars_next": NONE})
                    codes = fold_stmt(ctx, tg, key, stmt, types, tctx(kept_ctx(r)))
                    what = "v <- x%d %s x%d after %d kept" % (i, opn, j, r)
                    if isinstance(codes, str):
                        bad.append(what + ": " + codes)
                        continue

                    def spec(R, init, ref_m, r=r, i=i, j=j, sem=sem):
                        mem.wr(ref_m, mem.loc(tg, "Snd", r), (sem, init[mem.loc(tg, "Snd", i)], init[mem.loc(tg, "Snd", j)]))
                    want = [(x, "Prd" if x % 2 else "Ext") for x in range(r)] + [(500, "Ext")]
                    pr = path_check(codes, 0, r + 1, spec, [mem.loc(tg, "Snd", r)], [mem.loc(tg, "Fst", r)], want, what)
                    if pr:
                        bad.append(pr[0])
        report(b + ":op", adt, bad, n)

        # ---------------- switch ----------------
        adt = AX + "statements::switch::Switch"
        key = _key(fx, adt)
        bad, n = [], 0
        for r in rs:
            for tags in (("K0", "K1", "K2"), ("K1",)):
                if b == "rv64" and r + 4 > nreg:
                    continue
                n += 1
                cls = [clause(tg_, [binding(600 + 10 * k + i, c) for i, c in enumerate(XT[tg_])]) for k, tg_ in enumerate(tags)]
                stmt = Adt(adt, "Switch", {"var": ident("v", 500), "ty": T if len(tags) > 1 else ty_decl("T1"), "clauses": Vec(cls), "free_vars_clauses": NONE})
                tys = types if len(tags) > 1 else types + [decl("T1", [("K1", XT["K1"])])]
                context = tctx(kept_ctx(r) + [Adt(AX + "context::ContextBinding", "ContextBinding", {"var": ident("v", 500), "chi": Adt(AX + "context::Chirality", "Prd", {}), "ty": T})])
                codes = fold_stmt(ctx, tg, key, stmt, tys, context)
                what = "switch v {%s} after %d kept" % (", ".join(tags), r)
                if isinstance(codes, str):
                    bad.append(what + ": " + codes)
                    continue
                labs = _labs(codes)
                marks = _marks(codes)
                if len(marks) != len(tags):
                    bad.append("%s: %d clause bodies compiled for %d clauses" % (what, len(marks), len(tags)))
                    continue
                # clause entry labels: `<table label>_<xtor>`
                entry = []
                for tg_ in tags:
                    ls = [i for nm, i in labs.items() if nm.rstrip("')").endswith("_" + tg_)]
                    entry.append(ls[0] if len(ls) == 1 else None)
                if None in entry:
                    bad.append("%s: no unique entry label per clause (%s)" % (what, sorted(labs)[:6]))
                    continue
                if len(tags) > 1:
                    m0, init = mem._init(tg, r + 1)
                    paths = isa.explore(ctx, arch, codes, m0.clone(), max_paths=8)
                    ok = len(paths) == 1 and isinstance(paths[0][2], tuple) and paths[0][2][0] == "jump"
                    if not ok:
                        bad.append("%s: the dispatch does not end in one indirect jump (%r)" % (what, [p[2] for p in paths][:2]))
                        continue
                    m, facts, ex = paths[0]
                    tgt = ex[1]
                    tagv = init[mem.loc(tg, "Snd", r)]
                    lab = None
                    if tgt and tgt[0] == "add":
                        others = [x for x in tgt[1:] if x != tagv]
                        if len(others) == 1:
                            lab = _label_var(others[0])
                    table_at = None
                    for name, i in labs.items():
                        if lab is not None and (repr(name) in lab or name in lab):
                            table_at = i
                    if lab is None or table_at is None:
                        bad.append("%s: jumps to %s, expected <table label> + tag of v" % (what, isa.show(tgt)))
                        continue
                    pr = [x for x in mem._compare(tg, m, m0.clone(), init, [], [], scratch_slots) if "unexpected control transfer" not in x]
                    if pr:
                        bad.append("%s: dispatch clobbers state: %s" % (what, "; ".join(pr[:2])))
                        continue
                    # table entries: one jump per clause, in clause order, to the clause entry labels
                    ent = [c for c in codes[table_at + 1: table_at + 1 + len(tags)]]
                    for k, c in enumerate(ent):
                        mm = isa.Machine(arch)
                        isa.run(ctx, arch, [c], mm)
                        js = [e for e in mm.events if e[0] == "jmp"]
                        lbl = isa._label_str(js[0][1][1]) if js and isinstance(js[0][1], tuple) and js[0][1][0] == "label" else None
                        if lbl is None or labs.get(lbl) != entry[k]:
                            bad.append("%s: table entry %d jumps to %r, expected the entry of clause %s" % (what, k, lbl, tags[k]))
                            break
                    else:
                        pass
                # clauses
                for k, tg_ in enumerate(tags):
                    chis = XT[tg_]
                    start = (entry[k] if entry[k] is not None else 0) if len(tags) > 1 else (entry[k] if entry[k] is not None else 0)

                    def spec(R, init, ref_m, chis=chis, r=r):
                        R.load(chis, r, init)
                    defined = [mem.loc(tg, "Snd", r + i) for i in range(len(chis))] + [mem.loc(tg, "Fst", r + i) for i in range(len(chis)) if chis[i] != "Ext"]
                    dont = [mem.loc(tg, "Fst", r + i) for i in range(len(chis)) if chis[i] == "Ext"]
                    if not chis:
                        dont = [mem.loc(tg, "Fst", r), mem.loc(tg, "Snd", r)]
                    want = [(i, "Prd" if i % 2 else "Ext") for i in range(r)] + [(600 + 10 * k + i, c) for i, c in enumerate(chis)]
                    # truncate the list after this clause's MARK so that the exploration cannot run into the next clause
                    seg = codes[:marks[k] + 1]
                    pr = path_check(seg, start, r + max(len(chis), 1), spec, defined, dont, want, "%s, clause %s" % (what, tg_))
                    if pr:
                        bad.append(pr[0])
                        break
        report(b + ":switch", adt, bad, n)

        # ---------------- create + methods ----------------
        adt = AX + "statements::create::Create"
        key = _key(fx, adt)
        bad, n = [], 0
        for r in rs:
            for env_chis in ((), ("Ext", "Prd"), ("Prd", "Ext", "Ext", "Prd")):
                if b == "rv64" and r + len(env_chis) + 2 > nreg:
                    continue
                n += 1
                env = [binding(r + i, c) for i, c in enumerate(env_chis)]
                methods = (("D0", ["Ext"]), ("D1", ["Prd", "Ext"]))
                cls = [clause(d, [binding(700 + 10 * k + i, c) for i, c in enumerate(a)]) for k, (d, a) in enumerate(methods)]
                U2 = ty_decl("U2")
                stmt = Adt(adt, "Create", {"var": ident("v", 500), "ty": U2, "context": Adt("core::option::Option", "Some", {"0": tctx(env)}),
                                          "clauses": Vec(cls), "free_vars_clauses": NONE, "next": Sym("next"), "free_vars_next": NONE})
                tys = types + [decl("U2", [(d, a) for d, a in methods])]
                codes = fold_stmt(ctx, tg, key, stmt, tys, tctx(kept_ctx(r) + env))
                what = "create v = (%d captured){D0, D1} after %d kept" % (len(env_chis), r)
                if isinstance(codes, str):
                    bad.append(what + ": " + codes)
                    continue
                labs = _labs(codes)
                marks = _marks(codes)
                if len(marks) != 1 + len(methods):
                    bad.append("%s: %d continuations compiled, expected next + %d methods" % (what, len(marks), len(methods)))
                    continue
                after = sorted(i for i in labs.values() if i > marks[0])
                table_at = after[0] if after else None

                def spec(R, init, ref_m, env_chis=env_chis, r=r):
                    R.store(env_chis, r, init)
                seg = codes[:marks[0] + 1]
                m0, init = mem._init(tg, r + max(len(env_chis), 1))
                defined = [mem.loc(tg, "Fst", r)]
                dont = [mem.loc(tg, num, r + i) for i in range(len(env_chis)) for num in ("Fst", "Snd")] + [mem.loc(tg, "Snd", r)]
                dont = [l for l in dont if l not in defined]
                want = [(i, "Prd" if i % 2 else "Ext") for i in range(r)] + [(500, "Cns")]
                pr = path_check(seg, 0, r + max(len(env_chis), 1), spec, defined, dont, want, what)
                if pr:
                    bad.append(pr[0])
                    continue
                # Snd(v) = address of the table label
                paths = isa.explore(ctx, arch, seg, m0.clone(), max_paths=200)
                okl = True
                for m, facts, ex in paths:
                    lv = _label_var(mem.rd(m, mem.loc(tg, "Snd", r)))
                    name = [nm for nm, i in labs.items() if i == table_at]
                    if lv is None or not name or not (repr(name[0]) in lv or name[0] in lv):
                        bad.append("%s: the second temporary of v holds %s, expected the address of the method table" % (what, isa.show(mem.rd(m, mem.loc(tg, "Snd", r)))))
                        okl = False
                        break
                if not okl:
                    continue
                # methods
                for k, (d, a) in enumerate(methods):
                    mi = marks[1 + k]
                    ls = [i for nm, i in labs.items() if nm.rstrip("')").endswith("_" + d)]
                    if len(ls) != 1:
                        bad.append("%s: no unique entry label for method %s" % (what, d))
                        break
                    start = ls[0]
                    na = len(a)

                    def spec(R, init, ref_m, env_chis=env_chis, na=na):
                        R.load(env_chis, na, init)
                    defined = [mem.loc(tg, "Snd", na + i) for i in range(len(env_chis))] + [mem.loc(tg, "Fst", na + i) for i in range(len(env_chis)) if env_chis[i] != "Ext"]
                    dont = [mem.loc(tg, "Fst", na + i) for i in range(len(env_chis)) if env_chis[i] == "Ext"]
                    if not env_chis:
                        dont = [mem.loc(tg, "Fst", na), mem.loc(tg, "Snd", na)]
                    want = [(700 + 10 * k + i, c) for i, c in enumerate(a)] + [(r + i, c) for i, c in enumerate(env_chis)]
                    pr = path_check(codes[:mi + 1], start, na + max(len(env_chis), 1), spec, defined, dont, want, "%s, method %s" % (what, d))
                    if pr:
                        bad.append(pr[0])
                        break
        report(b + ":create", adt, bad, n)

        # ---------------- invoke ----------------
        adt = AX + "statements::invoke::Invoke"
        key = _key(fx, adt)
        bad, n = [], 0
        for na in ([0, 2] if b == "rv64" else [0, 2, nreg]):
            for (tyname, tag, pos, single) in (("U2", "D0", 0, False), ("U2", "D1", 1, False), ("U", "D0", 0, True)):
                n += 1
                args = [binding(i, "Ext") for i in range(na)]
                tys = types + [decl("U2", [("D0", ["Ext"]), ("D1", ["Prd", "Ext"])])]
                var_b = Adt(AX + "context::ContextBinding", "ContextBinding", {"var": ident("v", 500), "chi": Adt(AX + "context::Chirality", "Cns", {}), "ty": ty_decl(tyname)})
                stmt = Adt(adt, "Invoke", {"var": ident("v", 500), "tag": ident(tag, 0), "ty": ty_decl(tyname), "args": tctx(args)})
                codes = fold_stmt(ctx, tg, key, stmt, tys, tctx(args + [var_b]))
                what = "invoke v.%s with %d arguments" % (tag, na)
                if isinstance(codes, str):
                    bad.append(what + ": " + codes)
                    continue
                m0, init = mem._init(tg, na + 1)
                paths = isa.explore(ctx, arch, codes, m0.clone(), max_paths=4)
                if len(paths) != 1 or not (isinstance(paths[0][2], tuple) and paths[0][2][0] == "jump"):
                    bad.append("%s: does not end in one indirect jump" % what)
                    continue
                m, facts, ex = paths[0]
                wantv = init[mem.loc(tg, "Snd", na)]
                if not single:
                    wantv = isa.norm(("add", wantv, isa.const(_jump_length(tg, pos))))
                if ex[1] != wantv:
                    bad.append("%s: jumps to %s, expected %s (table address of v + jump_length(%d))" % (what, isa.show(ex[1]), isa.show(wantv), pos))
                    continue
                # the closure variable is consumed by the invocation: its table temporary may be used up by the dispatch
                pr = mem._compare(tg, m, m0.clone(), init, [], [mem.loc(tg, "Snd", na)], scratch_slots)
                pr = [x for x in pr if "unexpected control transfer" not in x]
                if pr:
                    bad.append("%s: %s" % (what, "; ".join(pr[:2])))
        report(b + ":invoke", adt, bad, n)

        # ---------------- if ----------------
        adt = AX + "statements::ifc::IfC"
        key = _key(fx, adt)
        bad, n = [], 0
        SORTS = ("Equal", "NotEqual", "Less", "LessOrEqual", "Greater", "GreaterOrEqual")
        for r in [x for x in rs if x >= 2][:2] + ([3] if b == "rv64" else []):
            for sort in SORTS:
                for two in (True, False):
                    n += 1
                    i, j = 0, (r - 1) - ((r - 1) % 2)
                    stmt = Adt(adt, "IfC", {"sort": Adt(AX + "statements::ifc::IfSort", sort, {}), "fst": ident("a", i),
                                            "snd": Adt("core::option::Option", "Some", {"0": ident("b", j)}) if two else NONE,
                                            "thenc": Sym("then"), "elsec": Sym("else")})
                    codes = fold_stmt(ctx, tg, key, stmt, types, tctx(kept_ctx(r)))
                    what = "if x%d %s %s after %d kept" % (i, sort, "x%d" % j if two else "0", r)
                    if isinstance(codes, str):
                        bad.append(what + ": " + codes)
                        continue
                    marks = _marks(codes)
                    labs = _labs(codes)
                    if len(marks) != 2:
                        bad.append("%s: %d branches compiled" % (what, len(marks)))
                        continue
                    whos = [codes[mi].fields.get("who") for mi in marks]
                    names = [getattr(w, "name", None) for w in whos]
                    want_ctx = [(x, "Prd" if x % 2 else "Ext") for x in range(r)]
                    if [_ctx_ids(codes[mi].fields["ctx"]) for mi in marks] != [want_ctx, want_ctx]:
                        bad.append("%s: a branch is compiled in a changed context" % what)
                        continue
                    m0, init = mem._init(tg, r)
                    mm = m0.clone()
                    isa.run(ctx, arch, [c for c in codes[:marks[0]]], mm)
                    jcc = [e for e in mm.events if e[0] == "jcc"]
                    a_v = init[mem.loc(tg, "Snd", i)]
                    b_v = init[mem.loc(tg, "Snd", j)] if two else isa.const(0)
                    if len(jcc) != 1 or jcc[0][1] != sort or jcc[0][2] != isa.norm(("cmp", a_v, b_v)):
                        bad.append("%s: the conditional jump tests %s, expected %s on cmp(%s, %s)" %
                                   (what, "%s on %s" % (jcc[0][1], isa.show(jcc[0][2])) if jcc else "nothing", sort, isa.show(a_v), isa.show(b_v)))
                        continue
                    # the jump goes to the label that precedes the *then* branch; the fall-through is the else branch
                    lbl = isa._label_str(jcc[0][3])
                    li = labs.get(lbl)
                    if li is None or not (marks[0] < li < marks[1]):
                        bad.append("%s: the conditional jump does not target the label between the two branches" % what)
                        continue
                    if names != ["else", "then"]:
                        bad.append("%s: branch order is %s: the jump (taken when the condition holds) must lead to the then branch" % (what, names))
                        continue
                    pr = mem._compare(tg, mm, m0.clone(), init, [], [], scratch_slots)
                    pr = [x for x in pr if "unexpected control transfer" not in x]
                    if pr:
                        bad.append("%s: %s" % (what, "; ".join(pr[:2])))
        report(b + ":if", adt, bad, n)
        # ---------------- substitute ----------------
        adt = AX + "statements::substitute::Substitute"
        key = _key(fx, adt)
        bad, n = [], 0
        sizes = [3] if b == "rv64" else [3, nreg + 1]
        # rearrangements of the last three variables (a: ext, p, q: prd): new position <- old variable
        PATTERNS = [("a", "p", "q"), ("p", "a", "q"), ("q", "a", "p"), ("p", "q", "a"), ("a", "p", "p"), ("p", "p", "a", "q"), ("a", "q"), ("q", "a", "a"),
                    ("a", "p", "q", "p", "p"), ("p",), ("q", "p"),
                    # e: a variable of an enumeration type - an object variable like p and q (two temporaries, the first one a null pointer)
                    ("e", "a", "p"), ("a", "e"), ("e", "e", "q"), ("q", "e", "a", "p")]
        for sz in sizes:
            base = sz - 3
            old = {"a": (base, "Ext"), "p": (base + 1, "Prd"), "q": (base + 2, "Cns"), "e": (base + 3, "Prd")}
            tyof = {"a": Adt(AX + "types::Ty", "I64", {}), "p": T, "q": T, "e": TE}
            for pat in PATTERNS:
                if b == "rv64" and base + len(pat) > nreg:
                    continue
                n += 1
                head = [(binding(i, "Prd" if i % 2 else "Ext"), ident("x%d" % i, i)) for i in range(base)]
                tail = []
                seen = set()
                for j, nm in enumerate(pat):
                    oi, chi = old[nm]
                    nid = oi if nm not in seen else 800 + j
                    seen.add(nm)
                    nb = Adt(AX + "context::ContextBinding", "ContextBinding", {"var": ident(nm, nid), "chi": Adt(AX + "context::Chirality", chi, {}),
                                                                                "ty": tyof[nm]})
                    tail.append((nb, ident(nm, oi)))
                pairs = head + tail
                stmt = Adt(adt, "Substitute", {"rearrange": Vec([Adt(None, None, {"0": x, "1": y}) for x, y in pairs]), "next": Sym("next")})
                octx = [binding(i, "Prd" if i % 2 else "Ext") for i in range(base)] + [
                    Adt(AX + "context::ContextBinding", "ContextBinding", {"var": ident(nm, oi), "chi": Adt(AX + "context::Chirality", chi, {}),
                                                                            "ty": tyof[nm]}) for nm, (oi, chi) in old.items()]
                codes = fold_stmt(ctx, tg, key, stmt, types, tctx(octx))
                what = "substitute (%s) := (a, p, q, e) behind %d unchanged variables" % (", ".join(pat), base)
                if isinstance(codes, str):
                    bad.append(what + ": " + codes)
                    continue
                counts = {nm: pat.count(nm) for nm in old}

                def spec(R, init, ref_m, pat=pat, base=base, counts=counts, old=old, order=None):
                    for nm in (order or list(old)):
                        oi, chi = old[nm]
                        if chi == "Ext":
                            continue
                        v = init[mem.loc(tg, "Fst", oi)]
                        if counts[nm] == 0:
                            R.erase(v)
                        elif counts[nm] > 1:
                            R.share(v, counts[nm] - 1)
                    for j, nm in enumerate(pat):
                        oi, chi = old[nm]
                        mem.wr(ref_m, mem.loc(tg, "Snd", base + j), init[mem.loc(tg, "Snd", oi)])
                        if chi != "Ext":
                            mem.wr(ref_m, mem.loc(tg, "Fst", base + j), init[mem.loc(tg, "Fst", oi)])
                nv = base + max(len(pat), len(old))
                defined = [mem.loc(tg, "Snd", base + j) for j in range(len(pat))] + [mem.loc(tg, "Fst", base + j) for j, nm in enumerate(pat) if old[nm][1] != "Ext"]
                dont = [mem.loc(tg, num, base + j) for j in range(max(len(pat), len(old))) for num in ("Fst", "Snd")]
                dont = [l for l in dont if l not in defined]
                want = [(i, "Prd" if i % 2 else "Ext") for i in range(base)] + [(x.fields["var"].fields["id"], x.fields["chi"].variant) for x, _ in tail]
                # the order in which several dropped variables are erased is the code's choice (it decides the order of the free list,
                # nothing a program can observe): any order is accepted
                dropped = [nm for nm, (oi, chi) in old.items() if chi != "Ext" and counts[nm] == 0]
                rest = [nm for nm in old if nm not in dropped]
                pr = None
                for perm in itertools.permutations(dropped):
                    order = rest + list(perm)
                    # a value of an enumeration type has no fields: its first temporary is the null pointer
                    pr = path_check(codes, 0, nv, lambda R, init, ref_m, order=order: spec(R, init, ref_m, order=order), defined, dont, want, what,
                                    null_at=[mem.loc(tg, "Fst", old["e"][0])])
                    if not pr:
                        break
                if pr:
                    bad.append(pr[0])
        report(b + ":substitute", adt, bad, n)
        res.require_floor(8)
        return res
    rule.__name__ = "rule_stmt_" + b
    return rule


def rule_stmt_substitute(ctx):
    """the `substitute` rows of R-STMT for the three backends (used by C11)"""
    out = []
    for b in ("x86_64", "aarch64", "rv64"):
        r = ctx.memo("stmt-" + b, lambda b=b: rule_stmt(b)(ctx))
        import copy
        r = copy.copy(r)
        r.instances = [i for i in r.instances if i["key"].endswith(":substitute")]
        r.violations = [v for v in r.violations if v.key.endswith(":substitute")]
        r.nontrivial = {i["key"] for i in r.instances}
        r.obligations = len(r.instances)
        r.discharged = len([i for i in r.instances if i["verdict"] == "ok"])
        r.floor = 1
        out.append(r)
    return out
