"""R-BINDORDER (C03): the order in which focusing lifts the subterms of one construct.

Focusing is written in continuation-passing style: `t.bind(k)` / `bind_many(args, k)` produce the binding of `t` (resp. of
all `args`) *around* whatever the continuation `k` produces, so the lifting call made in a function body is evaluated
before the lifting calls made inside the continuation closure it passes.  The nesting of the closures therefore is the
evaluation order of the lifted subterms.  The rule reads that nesting from the MIR (closure aggregates, captures mapped
back to the enclosing function's values) and requires, for every pair (outer lift, lift inside its continuation):

  * two parts of the same construct (self.fst / self.snd, op.fst / op.snd, ...) are lifted in the order in which the
    construct declares them (left to right);
  * an element taken out of an argument sequence is lifted before the rest of that sequence, never inside the
    continuation of the rest (first argument first)."""
from ..core import RuleResult
from ..facts import AnalysisError
from ..mir import Fn, Flow, op_root, place_fields

FOCUS = "scc_core_lang::traits::focus::"
PASS = {"pop_front", "pop", "unwrap_or_clone", "into_iter", "iter", "next", "unwrap", "into", "from", "collect", "split_off", "remove", "drain",
        "as_ref", "borrow", "clone", "to_owned", "new", "into_inner", "rev"}


def _extra(t):
    c = t.get("callee") or ""
    return t.get("callee_name") in PASS and c.startswith(("core::", "alloc::", "std::"))


def _is_lift(t, f=None):
    """a lifting call: bind / bind_many of the focus module - or, by what it takes, a call of core_lang that is handed the subject and a
    boxed continuation producing a focused statement (the same functions after a rename or a move)"""
    ck = t.get("callee_key") or ""
    if t.get("callee_name") in ("bind", "bind_many") and (ck.startswith(FOCUS) or (t.get("callee_trait") or "").startswith(FOCUS[:-2])):
        return True
    if f is None or not (ck.startswith(("scc_core_lang::", "<scc_core_lang::")) or (t.get("callee_trait") or "").startswith("scc_core_lang::")):
        return False
    if t.get("callee_name") in ("new", "from", "into", "call_once", "call") or len(t.get("args") or []) < 2:
        return False
    for a in t["args"][1:]:
        if a.get("pl") and not a["pl"]["p"]:
            ty = f["locals"][a["pl"]["l"]]["ty"]
            if "FnOnce" in ty and "dyn" in ty and "FsStatement" in ty:
                return True
            # a helper generic in its continuation (`bind_operand(term, |var, max_id| .., max_id)`): handed a closure, yields a focused statement
            dl = (t.get("dest") or {}).get("l")
            if "{closure@" in ty and dl is not None and "FsStatement" in f["locals"][dl]["ty"] and t["args"][0].get("pl") is not None:
                return True
    return False


def _closure_of(fn, local, depth=0):
    """the closure aggregate a Box<dyn FnOnce> local was built from: (closure def path, capture operands)"""
    if depth > 8:
        return None
    for d in fn.defs().get(local, []):
        if d["kind"] == "call":
            t = d["term"]
            if t.get("callee_name") in ("new", "from", "into") and t["args"] and t["args"][0].get("pl"):
                r = _closure_of(fn, t["args"][0]["pl"]["l"], depth + 1)
                if r:
                    return r
            continue
        rv = d.get("rv") or {}
        if rv.get("k") == "agg" and rv.get("closure"):
            return rv["closure"], rv["ops"]
        if rv.get("k") in ("use", "cast", "ref"):
            pl = rv.get("pl") or (rv.get("op") or {}).get("pl")
            if pl and not pl["p"]:
                r = _closure_of(fn, pl["l"], depth + 1)
                if r:
                    return r
    return None


def _field_index(fx, a, b):
    """declaration indices of two field names within one variant that has both, or None"""
    for adt in fx.adts.values():
        for v in adt["variants"]:
            names = [f["name"] for f in v["fields"]]
            if a in names and b in names:
                return names.index(a), names.index(b), adt["path"].split("::")[-1]
    return None


def rule_bindorder(ctx):
    fx = ctx.fx
    res = RuleResult("R-BINDORDER", "evaluation order of the subterms focusing lifts out of one construct, read from the nesting of the "
                     "continuation closures in the MIR of every function of core_lang that calls Bind::bind / bind_many: a lift made in "
                     "the continuation of another lift is evaluated after it, so parts of one construct must be lifted in declaration "
                     "(left-to-right) order, and an element taken from an argument sequence must be lifted before - never inside the "
                     "continuation of - the rest of the sequence")
    n_pairs = 0

    def explore(key, capmap, outer, top, trail):
        """outer: roots of the lift whose continuation we are in (None at the top)"""
        nonlocal n_pairs
        f = fx.fns.get(key)
        if f is None or len(trail) > 6:
            return
        fn = Fn(f)
        flow = Flow(fn, extra_pass=_extra)
        is_closure = capmap is not None

        def roots(local, fields=()):
            out = set()
            for o in flow.origins(local, tuple(fields)):
                if o[0] != "arg":
                    continue
                if is_closure:
                    if o[1] == 1 and o[2] and o[2][0].isdigit():
                        for r in capmap.get(int(o[2][0]), ()):
                            out.add((r[0], r[1] + tuple(o[2][1:])))
                else:
                    out.add((o[1], tuple(o[2])))
            return out

        for bi, t in fn.calls():
            if bi not in fn.reach:
                continue
            lift = _is_lift(t, f)
            subj = None
            if lift:
                r0 = op_root(t["args"][0]) if t["args"] else None
                subj = roots(r0, place_fields(t["args"][0]["pl"])) if r0 is not None else set()
                if outer is not None:
                    n_pairs += 1
                    _judge(res, fx, top, outer, (subj, t, key))
            # continuation closures handed to this call (to a lift, or to a helper that will call it)
            for a in t["args"][1:] if lift else t["args"]:
                r = op_root(a)
                if r is None:
                    continue
                c = _closure_of(fn, r)
                if not c:
                    continue
                cpath, ops = c
                child = {}
                for i, o in enumerate(ops):
                    ro = op_root(o)
                    # a closure captures disjoint fields (`move self.fst`): keep the projection of the captured place
                    child[i] = roots(ro, place_fields(o["pl"])) if ro is not None else set()
                bodies = [b for b in fx.by_path.get(cpath, []) if "{promoted" not in b["key"]]
                for b in bodies:
                    explore(b["key"], child, (subj, t, key) if lift else outer, top, trail + [key])
        # closures created but not passed to a call here (stored / returned) keep the current outer
        for b in f["blocks"]:
            for s in b["stmts"]:
                rv = s.get("rv") or {}
                if s["k"] == "assign" and rv.get("k") == "agg" and rv.get("closure"):
                    pass

    tops = sorted(k for k, f in fx.fns.items() if f["crate"] == "scc_core_lang" and "{closure" not in k and "{promoted" not in k
                  and any(b["term"]["k"] == "call" and _is_lift(b["term"], f) for b in f["blocks"]))
    for k in tops:
        before = len(res.violations)
        explore(k, None, None, k, [])
        f = fx.fns[k]
        if len(res.violations) == before:
            res.inst(k, f["sp"]["file"], f["sp"]["line"], "ok")
        else:
            res.inst(k, f["sp"]["file"], f["sp"]["line"], "violation")
    res.inst("nested-lift-pairs=%d" % n_pairs, None, None, "ok", "pairs (lift, lift inside its continuation) examined", nontrivial=False)
    # 5 pairs on the pinned tree (bind_many x2, Op::bind, Cut::focus, IfC::focus); sharing one helper for the operand pairs reduces
    # the number without weakening anything, so the liveness floor is "the nesting is still recognised at all"
    if n_pairs < 1:
        raise AnalysisError("R-BINDORDER: no nested lift pair found (5 on the pinned tree: bind_many x2, Op::bind, Cut::focus, IfC::focus)")
    res.require_floor(4)
    return res


def _judge(res, fx, top, outer, inner):
    (so, to, ko), (si, ti, ki) = outer, inner
    for po, fo in sorted(so):
        for pi, fi in sorted(si):
            if po != pi:
                continue
            file, line = ti["sp"]["file"], ti["sp"]["line"]
            if fo == () and fi != ():
                res.violate("%s:rest-before-element" % top,
                            "%s lifts an element taken from its argument sequence (line %d) inside the continuation of the lift of the rest of that "
                            "sequence (line %d): later arguments are evaluated before an earlier one" % (top.split("::")[-1], line, to["sp"]["line"]), file, line)
                return
            # first differing component
            for a, b in zip(fo, fi):
                if a == b:
                    continue
                idx = _field_index(fx, a, b)
                if idx and idx[0] > idx[1]:
                    res.violate("%s:%s-before-%s" % (top, a, b),
                                "%s lifts `%s` (line %d) before `%s` (line %d, inside the continuation), but %s declares %s before %s: "
                                "the subterms are evaluated right to left" % (top.split("::")[-1], a, to["sp"]["line"], b, line, idx[2], b, a), file, line)
                    return
                break


def rule_focus_cut(ctx):
    """R-FOCUSCUT: focusing a cut whose sides need no lifting focuses the two sides"""
    from ..interp import Adt, Sym, Vec, Interp
    from .. import backend
    fx = ctx.fx
    res = RuleResult("R-FOCUSCUT", "`Focusing for Cut`, folded on every pair of a producer and a consumer that are not xtors or operations (variables, "
                     "abstractions, (co)matches, literals): the result is the cut of the focused producer and the focused consumer, "
                     "N(<p | c>) = <N(p) | N(c)>, whatever the abstraction's body looks like. A rule that rewrites such a cut by looking into "
                     "the body of an abstraction - passing the consumer to a call inside `mu a. f(t, a)`, say - changes which side runs first: "
                     "at a codata type the producer is a thunk that must not run until it is forced")
    C = "scc_core_lang::syntax::"
    key = "<scc_core_lang::syntax::statements::cut::Cut<Term,Term> as scc_core_lang::traits::focus::Focusing>::focus"
    f = fx.fn(key)
    PRD, CNS = Adt(C + "terms::Prd", "Prd", {}), Adt(C + "terms::Cns", "Cns", {})

    def ident(nm, i):
        return Adt(C + "names::Identifier", "Identifier", {"name": nm, "id": i})
    TY = Adt(C + "types::Ty", "Decl", {"0": ident("T", 0)})

    def T(variant, inner):
        return Adt(C + "terms::Term", variant, {"0": inner})

    def mk(kind, pc, tag):
        if kind == "Mu":
            return T("Mu", Adt(C + "terms::mu::Mu", "Mu", {"prdcns": pc, "variable": ident("b" + tag, 1), "ty": TY, "statement": Sym("body" + tag, adt=C + "statements::Statement")}))
        if kind == "XVar":
            return T("XVar", Adt(C + "terms::xvar::XVar", "XVar", {"prdcns": pc, "var": ident("v" + tag, 2), "ty": TY}))
        if kind == "XCase":
            return T("XCase", Adt(C + "terms::xcase::XCase", "XCase", {"prdcns": pc, "clauses": Sym("clauses" + tag), "ty": TY}))
        return T("Literal", Adt(C + "terms::literal::Literal", "Literal", {"lit": 7}))
    n = 0
    for pk in ("Mu", "XVar", "XCase", "Literal"):
        for ck in ("Mu", "XVar", "XCase"):
            prod, cons = mk(pk, PRD, "P"), mk(ck, CNS, "C")

            def hook(I, p, fr, t, args):
                nm = t.get("callee_name")
                if nm == "focus" and (t.get("callee_trait") or "").endswith("focus::Focusing") and fr.f["key"] == f["key"]:
                    v = I.deref(args[0])
                    return Adt("FOCUSED", "of", {"0": repr(v)[:80]})
                if nm in ("bind", "bind_many") and fr.f["key"] == f["key"]:
                    return Adt("FOCUSED", "bound", {"0": repr(I.deref(args[0]))[:80]})
                return NotImplemented
            I = Interp(fx, hooks=[hook], max_depth=6, max_paths=64)
            cut = Adt(C + "statements::cut::Cut", "Cut", {"producer": prod, "ty": TY, "consumer": cons})
            holder = Adt(None, None, {"0": 50})
            from .linear import _MutInt
            outs = I.run(f, [cut, _MutInt(I, holder)])
            normal = [o for o in outs if not getattr(o, "diverged", None)]
            ikey = "<%s | %s>" % (pk, ck)
            n += 1
            if not normal:
                msg = backend.fold_verdict(outs, "R-FOCUSCUT: %s" % ikey)
                res.inst(ikey, f["sp"]["file"], f["sp"]["line"], "violation")
                res.violate(ikey, msg, f["sp"]["file"], f["sp"]["line"])
                continue
            if any(str(c_[0]).startswith("switch@") and "Unknown" in str(c_) for o in normal for c_ in o.conds):
                raise AnalysisError("R-FOCUSCUT: %s forks on a value the analysis cannot follow" % ikey)
            want_p, want_c = repr(prod)[:80], repr(cons)[:80]
            bad = None
            for o in normal:
                r = I.deref(o.result)
                inner = I.deref(r.fields.get("0")) if isinstance(r, Adt) and r.variant == "Cut" else None
                okp = okc = False
                if isinstance(inner, Adt):
                    pr, cn = I.deref(inner.fields.get("producer")), I.deref(inner.fields.get("consumer"))
                    okp = isinstance(pr, Adt) and pr.path == "FOCUSED" and pr.variant == "of" and pr.fields["0"][:40] == want_p[:40]
                    okc = isinstance(cn, Adt) and cn.path == "FOCUSED" and cn.variant == "of" and cn.fields["0"][:40] == want_c[:40]
                if not (okp and okc):
                    bad = (o, r)
            if bad:
                o, r = bad
                conds = [str(c_[0]) + "=" + str(c_[1]) for c_ in o.conds if not str(c_[0]).startswith("switch@")][-2:]
                res.inst(ikey, f["sp"]["file"], f["sp"]["line"], "violation")
                res.violate(ikey, "focusing the cut of a %s producer and a %s consumer%s does not yield the cut of the two focused sides (it yields %s): the "
                            "rule looks into a side it should only focus, which changes what runs first" %
                            (pk, ck, (" when " + " and ".join(conds)) if conds else "", repr(r)[:160]), f["sp"]["file"], f["sp"]["line"])
            else:
                res.inst(ikey, f["sp"]["file"], f["sp"]["line"], "ok", "%d path(s): <N(p) | N(c)>" % len(normal))
    res.require_floor(12)
    return res


def rule_bindseq(ctx):
    """R-BINDSEQ: the arguments of a construct are lifted in the order in which they stand"""
    from .. import prov
    fx = ctx.fx
    res = RuleResult("R-BINDSEQ", "where focusing lifts a whole argument sequence (bind_many), the sequence it hands over is the argument list of "
                     "the construct as it stands - a field of the term, passed on by order-preserving plumbing only - and not a rearranged "
                     "one (partitioned by polarity, sorted, reversed, filtered, chained): the arguments are evaluated in the order in which "
                     "they are lifted, so rearranging the sequence rearranges the effects of the program, whatever is done to the names afterwards")
    n = 0
    for k, f in sorted(fx.fns.items()):
        if f["crate"] != "scc_core_lang" or "{promoted" in k:
            continue
        fn = None
        for bi, b in enumerate(f["blocks"]):
            t = b["term"]
            if t["k"] != "call" or not t["args"]:
                continue
            if t.get("callee_name") != "bind_many":
                # the same function under another name: a lifting call (by role) whose subject is a sequence of arguments
                a0 = t["args"][0]
                ty0 = f["locals"][a0["pl"]["l"]]["ty"] if a0.get("pl") and not a0["pl"]["p"] else ""
                if not (_is_lift(t, f) and ("VecDeque<" in ty0 or "Arguments" in ty0 or ty0.startswith(("std::vec::Vec<", "Vec<"))) and "Argument" in ty0):
                    continue
            fn = fn or Fn(f)
            if bi not in fn.reach:
                continue
            flow = prov.make_flow(fn, fx, extra_names=())
            roots = prov.collection_roots(fn, flow, t["args"][0], fx=fx)
            n += 1
            ikey = "%s@bind_many:%d" % (k, sum(1 for b2 in f["blocks"][:bi] if b2["term"]["k"] == "call" and b2["term"].get("callee_name") == t.get("callee_name")))
            other = [r for r in roots if not (r and r[0] == "arg")]
            if roots and not other:
                res.inst(ikey, t["sp"]["file"], t["sp"]["line"], "ok", "the sequence is %s" % ", ".join(sorted({".".join(map(str, r[2])) or "the parameter" for r in roots})))
            elif not roots:
                raise AnalysisError("R-BINDSEQ: the sequence handed to bind_many in %s could not be traced" % k)
            else:
                def what(r):
                    if r[0] in ("call", "hcall"):
                        return "the result of %s" % (fn.term(r[1]).get("callee_name") if r[0] == "call" else r[1])
                    return str(r[0])
                res.inst(ikey, t["sp"]["file"], t["sp"]["line"], "violation")
                res.violate(ikey, "%s lifts a sequence that is not the construct's argument list as it stands but %s: the arguments are evaluated in the "
                            "order of the lifted sequence, so their effects happen in another order than the program says" %
                            (k.split(" as ")[0].lstrip("<").split("::")[-1] + "::" + k.split("::")[-1], ", ".join(sorted({what(r) for r in other}))),
                            t["sp"]["file"], t["sp"]["line"])
    if n < 1:
        raise AnalysisError("R-BINDSEQ: no call of bind_many found in core_lang")
    return res
