"""C17: R-HASH, R-STATIC, R-AMBIENT."""
import re

from .. import audit, backend
from ..core import RuleResult
from ..facts import AnalysisError
from ..mir import Fn, Flow, op_local, op_root, is_passthrough, place_fields, rvalue_places

HASH_ADTS = ("std::collections::hash::map::HashMap", "std::collections::hash::set::HashSet")
ORDERED_SET_RE = re.compile(r"^(core::result::Result<|core::option::Option<)?\s*(std::collections::(HashMap|HashSet|BTreeMap|BTreeSet)|"
                            r"std::collections::hash::(map::HashMap|set::HashSet)|alloc::collections::btree::(map::BTreeMap|set::BTreeSet))")
SETLIKE_ADTS = HASH_ADTS + ("alloc::collections::btree::map::BTreeMap", "alloc::collections::btree::set::BTreeSet")

ITER_API = {"iter", "iter_mut", "keys", "values", "values_mut", "into_keys", "into_values", "drain", "retain",
            "extract_if", "into_iter", "union", "intersection", "difference", "symmetric_difference"}
ORDER_FREE_API = {"get", "get_mut", "insert", "remove", "contains", "contains_key", "len", "is_empty", "new",
                  "default", "clone", "eq", "ne", "extend", "from", "entry", "with_capacity", "clear", "get_or_insert_with",
                  "take", "replace", "is_subset", "is_superset", "is_disjoint", "reserve", "from_iter", "remove_entry",
                  "get_key_value", "clone_from", "shrink_to_fit", "capacity", "hasher", "try_insert"}
ADAPTERS = {"map", "filter", "filter_map", "cloned", "copied", "flat_map", "flatten", "inspect", "by_ref",
            "into_iter", "chain", "map_while", "peekable", "fuse"}
REDUCERS_OK = {"any", "all", "count", "sum", "min", "max", "product"}
ITER_TRAITS = ("core::iter::traits::iterator::Iterator", "core::iter::traits::collect::IntoIterator")

SKIP_CRATES = {"scc_core_macros", "axcut_macros", "scc_macro_utils", "axcut_examples"}
ACCUM_NAMES = {"push", "push_str", "insert", "extend", "push_back", "push_front", "append", "extend_from_slice"}


def _is_hash_adt(a):
    return a in HASH_ADTS


def _ty_setlike(ty):
    ty = ty.replace("&mut ", "").replace("&", "")
    return bool(ORDERED_SET_RE.match(ty))


def _classify_iter(fn, start_local, fx=None, elem_kind="whole"):
    """Follow an iterator value forward; returns (class, detail).
    elem_kind: 'entry' when the elements are the (key, value) pairs of a map (the key alone identifies an element),
    'whole' otherwise; an element-transforming adapter on the way turns 'entry' into 'whole'."""
    uses = fn.uses()
    seen = set()
    work = [start_local]
    verdicts = []
    kinds = {start_local: elem_kind}
    while work:
        l = work.pop()
        if l in seen:
            continue
        seen.add(l)
        kind_here = kinds.get(l, "whole")
        for u in uses.get(l, []):
            if u["kind"] == "rv":
                s = u["stmt"]
                if s["rv"]["k"] in ("ref", "use", "cast", "rawptr"):
                    work.append(s["lhs"]["l"])
                    kinds.setdefault(s["lhs"]["l"], kind_here)
                elif s["rv"]["k"] == "discr":
                    pass
                else:
                    verdicts.append(("ESCAPE", "stored into %s at line %d" % (s["rv"]["k"], s["sp"]["line"])))
            elif u["kind"] == "arg":
                t = u["term"]
                name = t.get("callee_name")
                tr = t.get("callee_trait")
                dest = t["dest"]["l"]
                if tr in ITER_TRAITS or (t.get("callee") or "").startswith("core::iter::"):
                    if name in ADAPTERS:
                        work.append(dest)
                        kinds.setdefault(dest, kind_here if name in ("filter", "inspect", "by_ref", "into_iter", "peekable", "fuse", "chain") else "whole")
                    elif name in REDUCERS_OK:
                        verdicts.append(("REDUCER", name))
                    elif name in ("collect", "from_iter"):
                        dty = fn.local_ty(dest)
                        if _ty_setlike(dty):
                            verdicts.append(("SET_SINK", "collect into " + dty.split("<")[0]))
                        elif "alloc::vec::Vec" in (fn.local_adt(dest) or "") or dty.startswith("std::vec::Vec"):
                            sorts = _vec_sorted_first(fn, dest)
                            if sorts:
                                why = [w for w in (_sort_total(fx, fn, st, kind_here) for st in sorts) if w]
                                if why:
                                    verdicts.append(("ORDER_SENSITIVE", "collected into a Vec sorted with a key that does not identify the element, so "
                                                     "ties keep hash order: %s" % why[0]))
                                else:
                                    verdicts.append(("SORTED_SINK", "collected into a Vec that is sorted by an identifying key before any other use"))
                            else:
                                verdicts.append(("ORDER_SENSITIVE", "collected into a Vec that is not sorted first (line %d)" % t["sp"]["line"]))
                        else:
                            verdicts.append(("ORDER_SENSITIVE", "collected into " + dty))
                    elif name == "next":
                        verdicts.append(("LOOP", "for-loop / next() at line %d" % t["sp"]["line"]))
                    elif name in ("size_hint", "len"):
                        pass
                    else:
                        verdicts.append(("ORDER_SENSITIVE", "Iterator::%s at line %d" % (name, t["sp"]["line"])))
                elif name == "extend" and u["ai"] == 1:
                    sadt = t.get("callee_self_adt") or ""
                    if sadt in SETLIKE_ADTS:
                        verdicts.append(("SET_SINK", "extend of " + sadt.split("::")[-1]))
                    else:
                        verdicts.append(("ORDER_SENSITIVE", "extend of %s at line %d" % (sadt, t["sp"]["line"])))
                elif is_passthrough(t):
                    work.append(dest)
                    kinds.setdefault(dest, kind_here)
                elif name in ("drop", "drop_in_place"):
                    pass
                else:
                    verdicts.append(("ESCAPE", "passed to %s at line %d" % (t.get("callee_key"), t["sp"]["line"])))
            elif u["kind"] in ("drop",):
                pass
    return verdicts


def _vec_sorted_first(fn, vec_local):
    """All non-sort uses of the vec are dominated by a sort call on it."""
    uses = fn.uses()
    # locals aliasing the vec: refs, deref_mut results
    alias = set()
    work = [vec_local]
    sort_blocks = []
    sort_terms = []
    other_blocks = []
    while work:
        l = work.pop()
        if l in alias:
            continue
        alias.add(l)
        for u in uses.get(l, []):
            if u["kind"] == "rv" and u["stmt"]["rv"]["k"] in ("ref", "use", "rawptr"):
                work.append(u["stmt"]["lhs"]["l"])
            elif u["kind"] == "arg":
                t = u["term"]
                n = t.get("callee_name")
                if n in ("deref_mut", "as_mut_slice", "as_mut", "branch", "from_residual") and (t.get("callee") or "").startswith(("core::", "alloc::")):
                    work.append(t["dest"]["l"])
                elif n and n.startswith("sort"):
                    sort_blocks.append(u["bi"])
                    sort_terms.append(t)
                else:
                    other_blocks.append(u["bi"])
    if not sort_blocks:
        return []
    for ob in other_blocks:
        if not any(fn.dominates(sb, ob) and sb != ob for sb in sort_blocks):
            return []
    return sort_terms


KEY_PASSTHROUGH = {"clone", "to_owned", "to_string", "as_str", "as_ref", "borrow", "deref", "as_slice", "as_bytes", "into", "from", "as_deref"}


def _access_paths(f):
    """local -> (param, projection fields) for locals that are an untransformed view of (a part of) a parameter"""
    argc = f["argc"]
    paths = {i: (i, ()) for i in range(1, argc + 1)}
    changed = True
    defs = {}
    for b in f["blocks"]:
        for st in b["stmts"]:
            if st["k"] == "assign" and not st["lhs"]["p"]:
                defs.setdefault(st["lhs"]["l"], []).append(("stmt", st))
        t = b["term"]
        if t and t["k"] == "call" and t.get("dest") and not t["dest"]["p"]:
            defs.setdefault(t["dest"]["l"], []).append(("call", t))
    while changed:
        changed = False
        for l, ds in defs.items():
            if l in paths or len(ds) != 1:
                continue
            kind, d = ds[0]
            pl = None
            if kind == "stmt" and d["rv"]["k"] in ("ref", "use", "rawptr", "cast"):
                pl = d["rv"].get("pl") or (d["rv"].get("op") or {}).get("pl")
            elif kind == "call" and d.get("callee_name") in KEY_PASSTHROUGH and d["args"]:
                a = d["args"][0]
                pl = a.get("pl")
            if not pl or pl["l"] not in paths:
                continue
            base = paths[pl["l"]]
            if any(not (x == "*" or (isinstance(x, dict) and "f" in x)) for x in pl["p"]):
                continue
            proj = tuple(str(x["f"]) for x in pl["p"] if isinstance(x, dict))
            paths[l] = (base[0], base[1] + proj)
            changed = True
    return paths


def _sort_total(fx, fn, t, elem_kind):
    """None when the sort's order identifies every element (so the result does not depend on the incoming order);
    otherwise a description of why ties are possible"""
    name = t.get("callee_name")
    if name in ("sort", "sort_unstable"):
        return None
    ok_proj = {()} | ({("0",)} if elem_kind == "entry" else set())
    if len(t["args"]) < 2 or fx is None:
        return "%s with an unanalysable comparator" % name
    cl = op_root(t["args"][1])
    path = None
    for b in fn.f["blocks"]:
        for st in b["stmts"]:
            if st["k"] == "assign" and st["lhs"]["l"] == cl and st["rv"].get("agg") == "closure":
                path = st["rv"]["closure"]
    bodies = [c for c in (fx.by_path.get(path) or []) if "{promoted" not in c["key"]] if path else []
    if not bodies:
        return "%s with a comparator that is not a local closure" % name
    body = bodies[0]
    ap = _access_paths(body)
    line = t["sp"]["line"]
    if name in ("sort_by", "sort_unstable_by"):
        for b in body["blocks"]:
            c = b["term"]
            if c and c["k"] == "call" and c.get("callee_name") in ("cmp", "partial_cmp") and len(c["args"]) == 2:
                pa = ap.get(op_root(c["args"][0]))
                pb = ap.get(op_root(c["args"][1]))
                if pa and pb and {pa[0], pb[0]} == {2, 3} and pa[1] == pb[1] and pa[1] in ok_proj:
                    return None
        return "%s at line %d never compares the %s of the two elements" % (name, line, "keys (or whole elements)" if elem_kind == "entry" else "whole elements")
    if name in ("sort_by_key", "sort_by_cached_key", "sort_unstable_by_key"):
        # the key returned by the closure must be (or contain, as a tuple component) the untransformed element / map key
        rets = set()
        for b in body["blocks"]:
            for st in b["stmts"]:
                if st["k"] == "assign" and st["lhs"]["l"] == 0 and not st["lhs"]["p"]:
                    rv = st["rv"]
                    if rv["k"] == "agg" and rv.get("agg") in ("tuple", "Tuple"):
                        for o in rv["ops"]:
                            rets.add(op_root(o))
                    elif rv["k"] in ("use", "ref"):
                        rets.add(op_root(rv.get("op") or rv))
            c = b["term"]
            if c and c["k"] == "call" and c.get("dest") and c["dest"]["l"] == 0 and c.get("callee_name") in KEY_PASSTHROUGH and c["args"]:
                rets.add(op_root(c["args"][0]))
        for r in rets:
            pa = ap.get(r)
            if pa and pa[0] == 2 and pa[1] in ok_proj:
                return None
        return "%s at line %d: the key is not the %s itself" % (name, line, "map key (or whole element)" if elem_kind == "entry" else "whole element")
    return "unclassified sort `%s`" % name


def _accumulates(fn):
    for bi, t in fn.calls():
        if t.get("callee_name") in ACCUM_NAMES and (t.get("callee") or "").startswith(("alloc::", "std::", "core::")):
            return "%s at line %d" % (t.get("callee_name"), t["sp"]["line"])
    return None


def hash_sites(fx, crates=None):
    out = []
    for key, f in fx.fns.items():
        if f["crate"] in SKIP_CRATES:
            continue
        if crates and f["crate"] not in crates:
            continue
        if "{promoted#" in key:
            continue
        fn = None
        for bi, b in enumerate(f["blocks"]):
            t = b["term"]
            if t["k"] != "call":
                continue
            name = t.get("callee_name")
            sadt = t.get("callee_self_adt") or ""
            site = None
            if _is_hash_adt(sadt) and name in ITER_API:
                site = ("iter", name)
            elif _is_hash_adt(sadt) and name == "fmt":
                site = ("fmt", name)
            elif _is_hash_adt(sadt) and name not in ORDER_FREE_API:
                site = ("unknown-api", name)
            else:
                # a hash collection handed by value/reference to a foreign generic callee (extend, from_iter, zip, ...)
                c = t.get("callee") or ""
                if c.startswith(("core::", "alloc::", "std::")) and not (_is_hash_adt(sadt) and name != "extend"):
                    for ai, a in enumerate(t["args"]):
                        r = op_root(a)
                        if r is None or a["pl"]["p"]:
                            continue
                        if _is_hash_adt(f["locals"][r]["adt"] or "") and not (ai == 0 and _is_hash_adt(sadt)):
                            if name in ("drop", "clone", "deref", "deref_mut", "borrow", "as_ref", "eq", "ne", "fmt", "default", "drop_in_place",
                                        "branch", "from_residual", "from_output", "new", "unwrap", "expect", "is_some", "is_none", "into", "from",
                                        "unwrap_or_default", "unwrap_or", "ok", "as_mut", "replace", "take", "swap", "Some", "Ok") or c.startswith("core::ptr::"):
                                continue
                            site = ("foreign", name)
                            break
            if site:
                if fn is None:
                    fn = Fn(f)
                if bi not in fn.reach:
                    continue
                out.append((fn, bi, t, site))
    return out


_SUBSTRING = {"starts_with", "ends_with", "contains", "find", "rfind", "matches", "strip_prefix", "strip_suffix", "eq_ignore_ascii_case", "split_once"}


def _inexact_predicate(fx, key, depth=0, seen=None):
    """a unique-match search compares names exactly; a prefix / suffix / substring test in the search (the function, its closures, the
    helpers of its crate it calls) lets several entries match, and then the first one in hash order wins"""
    seen = seen if seen is not None else set()
    if key in seen or key not in fx.fns:
        return None
    seen.add(key)
    bodies = [key] + [k for k, g in fx.fns.items() if (g.get("parent") or "").startswith(key) and "{promoted" not in k]
    for b in bodies:
        f = fx.fns[b]
        for blk in f["blocks"]:
            t = blk["term"]
            if t["k"] != "call":
                continue
            c = t.get("callee") or ""
            if t.get("callee_name") in _SUBSTRING and c.startswith(("core::str::", "alloc::str::", "alloc::string::")):
                return "%s (%s, line %d)" % (t["callee_name"], b.split("::")[-1], t["sp"]["line"])
            k2 = t.get("resolved_key") or (t.get("callee_key") if not t.get("callee_trait") else None)
            if depth < 2 and k2 in fx.fns and fx.fns[k2]["crate"] == f["crate"] and "{closure" not in k2 and \
                    (fx.fns[k2].get("impl_trait") or "") != "scc_printer::types::Print" and t.get("callee_name") not in ("print_to_string", "print"):
                r = _inexact_predicate(fx, k2, depth + 1, seen)
                if r:
                    return r
    return None


def _collection(fn, t):
    """`Type.field` of the hash collection a site iterates, when it is a field of a parameter"""
    if not t["args"]:
        return None
    r = op_root(t["args"][0])
    if r is None:
        return None
    flow = Flow(fn)
    for o in sorted(flow.origins(r, tuple(place_fields(t["args"][0]["pl"]))), key=str):
        if o[0] == "arg" and o[2]:
            ty = fn.f["locals"][o[1]]
            adt = ty.get("core") or ty.get("adt") or ty["ty"]
            return "%s.%s" % (adt.split("<")[0], o[2][0])
    return None


def rule_hash(ctx, fx=None, table=None):
    res = RuleResult("R-HASH", "every iteration over a std HashMap/HashSet (resolved calls to an iteration API, or a hash "
                     "collection handed to a foreign generic consumer) must end in an order-insensitive sink: a set/map "
                     "collection, an order-free reducer, a Vec sorted before any other use, or an audited unique-match / "
                     "diagnostic-only loop that accumulates nothing")
    fx = fx or ctx.fx
    _, rows = audit.load("hash_sites") if table is None else ({}, table)
    for fn, bi, t, (kind, name) in hash_sites(fx):
        key = "%s@%s" % (fn.key, name)
        # disambiguate several sites of the same api in one function by ordinal
        n = sum(1 for i in res.instances if i["key"].split("#")[0] == key)
        ikey = key if n == 0 else "%s#%d" % (key, n + 1)
        file, line = t["sp"]["file"], t["sp"]["line"]
        if kind == "fmt":
            res.inst(ikey, file, line, "violation")
            res.violate(ikey, "Debug-formats a hash collection (order-dependent text)", file, line)
            continue
        if kind == "unknown-api":
            res.inst(ikey, file, line, "violation")
            res.violate(ikey, "unclassified HashMap/HashSet API `%s`" % name, file, line)
            continue
        if kind == "foreign":
            sadt = t.get("callee_self_adt") or ""
            if name in ("extend", "from_iter", "collect") and (sadt in SETLIKE_ADTS or _ty_setlike(fn.local_ty(t["dest"]["l"]))):
                res.inst(ikey, file, line, "ok", "SET_SINK: %s into %s" % (name, sadt.split("::")[-1]))
            else:
                res.inst(ikey, file, line, "violation")
                res.violate(ikey, "hash collection passed to order-sensitive consumer `%s`" % (t.get("callee_key")), file, line)
            continue
        if name == "retain":
            res.inst(ikey, file, line, "ok", "retain: closure result per element, set semantics")
            continue
        sadt0 = t.get("callee_self_adt") or ""
        elem_kind = "entry" if sadt0.endswith("HashMap") and name in ("iter", "iter_mut", "into_iter", "drain") else "whole"
        verdicts = _classify_iter(fn, t["dest"]["l"], fx, elem_kind)
        bad = [v for v in verdicts if v[0] in ("ORDER_SENSITIVE", "ESCAPE")]
        loops = [v for v in verdicts if v[0] == "LOOP"]
        # an audited unique-match search keeps its row when the function around it is renamed or the loop is written as
        # find/find_map: the row also names the collection (receiver type and field) the search runs over
        coll = _collection(fn, t)
        row = rows.get(fn.key) or next((r_ for r_ in rows.values() if coll and r_.get("collection") == coll), None)
        first_match = [v for v in bad if re.match(r"Iterator::(find|find_map|position|any|all)\b", v[1])]
        if bad and len(first_match) == len(bad) and row and row["class"] == "UNIQUE_MATCH" and coll and row.get("collection") == coll:
            acc = _accumulates(fn)
            inexact = _inexact_predicate(fx, fn.key)
            if inexact:
                res.inst(ikey, file, line, "violation")
                res.violate(ikey, "the audited unique-match search decides with a prefix/suffix/substring test - %s - instead of comparing names exactly: "
                            "several entries can match and the first one in hash order wins" % inexact, file, line)
                continue
            if not acc:
                res.inst(ikey, file, line, "audited", "%s (search over %s): %s" % (row["class"], coll, row["reason"]))
                continue
        if bad:
            res.inst(ikey, file, line, "violation", "; ".join(d for _, d in bad))
            res.violate(ikey, "iteration order of a hash collection reaches an order-sensitive use: %s" % "; ".join(d for _, d in bad),
                        file, line, {"verdicts": verdicts})
        elif loops:
            acc = _accumulates(fn)
            inexact = _inexact_predicate(fx, fn.key) if row and row["class"] == "UNIQUE_MATCH" else None
            if inexact:
                res.inst(ikey, file, line, "violation")
                res.violate(ikey, "the audited unique-match loop decides with a prefix/suffix/substring test - %s - instead of comparing names exactly: "
                            "several entries can match and the first one in hash order wins" % inexact, file, line)
            elif row and not acc:
                res.inst(ikey, file, line, "audited", "%s: %s" % (row["class"], row["reason"]))
            elif row and acc:
                res.inst(ikey, file, line, "violation")
                res.violate(ikey, "audited %s loop now accumulates (%s): result depends on hash order" % (row["class"], acc), file, line)
            else:
                res.inst(ikey, file, line, "violation")
                res.violate(ikey, "for-loop over a hash collection in hash order (no audit row: not a unique-match/diagnostic-only loop)",
                            file, line, {"verdicts": verdicts})
        elif not verdicts:
            res.inst(ikey, file, line, "ok", "iterator unused")
        else:
            res.inst(ikey, file, line, "ok", "; ".join("%s(%s)" % v for v in verdicts))
    return res


def rule_static(ctx):
    res = RuleResult("R-STATIC", "inventory of global mutable state in the pipeline crates: only axcut2backend's label COUNTER "
                     "may exist, only fresh_label may touch it, and its value flows only into label text")
    fx = ctx.fx
    allowed = {"axcut2backend::fresh_labels::COUNTER"}
    zone = PIPELINE_CRATES | {"driver"}
    for s in fx.statics:
        if s["crate"] not in zone:
            continue
        mutable = s["mut"] or not s["freeze"]
        key = s["path"]
        if not mutable:
            res.inst(key, s["sp"]["file"], s["sp"]["line"], "ok", "immutable static", nontrivial=False)
            continue
        if key in allowed:
            res.inst(key, s["sp"]["file"], s["sp"]["line"], "audited", "label counter (label numbering is tolerated by the property)")
        else:
            res.inst(key, s["sp"]["file"], s["sp"]["line"], "violation")
            res.violate(key, "global mutable state `%s` (%s): later compilations in the same process can observe earlier ones" % (key, s["ty"]),
                        s["sp"]["file"], s["sp"]["line"])
    # thread_local / lazy statics appear as statics or as tlsref rvalues
    for key, f in fx.fns.items():
        if f["crate"] in SKIP_CRATES:
            continue
        for b in f["blocks"]:
            for s in b["stmts"]:
                if s["k"] == "assign" and s["rv"]["k"] == "tlsref":
                    res.inst(key + "@tls", s["sp"]["file"], s["sp"]["line"], "violation")
                    res.violate(key + "@tls:" + s["rv"]["def"], "thread-local state used", s["sp"]["file"], s["sp"]["line"])
    # who touches COUNTER: any function whose MIR mentions the static (const operand with def path)
    touchers = {}
    for key, f in fx.fns.items():
        if f["crate"] in SKIP_CRATES:
            continue
        txt = None
        for b in f["blocks"]:
            for s in b["stmts"]:
                if s["k"] == "assign":
                    for o in _rv_consts(s["rv"]):
                        if o.get("static") in allowed or o.get("def") in allowed:
                            touchers.setdefault(key, s["sp"])
    for key, sp in touchers.items():
        base = key.split("::{")[0]
        if base in backend.label_counter_fns(fx):
            res.inst("COUNTER-writer:" + key, sp["file"], sp["line"], "ok")
        else:
            res.inst("COUNTER-writer:" + key, sp["file"], sp["line"], "violation")
            res.violate("COUNTER-writer:" + key, "label counter accessed outside fresh_label", sp["file"], sp["line"])
    # fresh_label()'s result must flow only into label strings: every caller formats it (Display::fmt / format!) and nothing else
    for key, f in fx.fns.items():
        if f["crate"] in SKIP_CRATES:
            continue
        fn = None
        for bi, b in enumerate(f["blocks"]):
            t = b["term"]
            if t["k"] == "call" and (t.get("resolved_key") or t.get("callee_key")) in backend.label_counter_fns(fx):
                fn = fn or Fn(f)
                if bi not in fn.reach:
                    continue
                ok, why = _only_formatted(fn, t["dest"]["l"])
                ikey = "fresh_label-use:" + key
                if ok:
                    res.inst(ikey, t["sp"]["file"], t["sp"]["line"], "ok", "counter value only formatted into a label")
                else:
                    res.inst(ikey, t["sp"]["file"], t["sp"]["line"], "violation")
                    res.violate(ikey, "label counter value used for something other than label text: " + why, t["sp"]["file"], t["sp"]["line"])
    res.require_floor(3)
    return res


def _rv_consts(rv):
    for k in ("op", "a", "b"):
        o = rv.get(k)
        if isinstance(o, dict) and o.get("k") == "const":
            yield o
    for o in rv.get("ops", []):
        if o.get("k") == "const":
            yield o


def _only_formatted(fn, local):
    uses = fn.uses()
    seen = set()
    work = [local]
    while work:
        l = work.pop()
        if l in seen:
            continue
        seen.add(l)
        for u in uses.get(l, []):
            if u["kind"] == "rv":
                k = u["stmt"]["rv"]["k"]
                if k in ("ref", "use"):
                    work.append(u["stmt"]["lhs"]["l"])
                elif k == "agg" and u["stmt"]["rv"]["agg"] in ("tuple", "array"):
                    work.append(u["stmt"]["lhs"]["l"])
                else:
                    return False, "rvalue %s at line %d" % (k, u["stmt"]["sp"]["line"])
            elif u["kind"] == "arg":
                t = u["term"]
                c = t.get("callee") or ""
                if c.startswith("core::fmt::") or t.get("callee_name") in ("new_display", "new_debug", "format", "to_string", "must_use"):
                    if c.startswith("core::fmt::rt::") and t.get("callee_name", "").startswith("new_"):
                        continue  # fmt::Argument: consumed by format machinery
                    if t.get("callee_name") in ("format", "to_string"):
                        continue
                    work.append(t["dest"]["l"])
                    continue
                return False, "passed to %s at line %d" % (t.get("callee_key"), t["sp"]["line"])
            elif u["kind"] == "switch" or u["kind"] == "assert":
                return False, "branches on the counter at line %d" % u["term"]["sp"]["line"]
    return True, ""


AMBIENT_PREFIXES = (
    "std::env::", "std::time::", "std::process::id", "std::thread::", "std::hash::random::", "std::collections::hash::map::RandomState",
    "std::fs::read_dir", "rand::", "std::sys::", "core::hash::BuildHasher", "std::os::", "std::net::",
)
PIPELINE_CRATES = {"fun", "fun2core", "scc_core_lang", "core2axcut", "axcut", "axcut2backend", "axcut2x86_64", "axcut2aarch64",
                   "axcut2rv64", "scc_printer"}


def ambient_sites(fx, crates, extra=()):
    for key, f in fx.fns.items():
        if f["crate"] not in crates:
            continue
        for bi, b in enumerate(f["blocks"]):
            for s in b["stmts"]:
                if s["k"] == "assign" and s["rv"]["k"] == "cast" and s["rv"]["kind"] in ("PointerExposeProvenance",) and not s["sp"].get("exp"):
                    yield key, s["sp"], "pointer-to-integer cast (address-dependent value)"
            t = b["term"]
            if t["k"] != "call":
                continue
            for c in (t.get("callee") or "", t.get("resolved") or ""):
                if c.startswith(AMBIENT_PREFIXES + tuple(extra)):
                    yield key, t["sp"], "call to " + c
                    break
            else:
                n = t.get("callee_name")
                if n in ("as_ptr", "ptr_eq") and "rc::Rc" in (t.get("callee_self_adt") or ""):
                    yield key, t["sp"], "Rc::%s (address-dependent)" % n


def rule_ambient(ctx):
    res = RuleResult("R-AMBIENT", "no call from the pipeline crates to ambient nondeterminism sources (env, time, process/thread id, "
                     "RandomState, read_dir, pointer-to-integer casts, Rc address comparisons); "
                     "expected count 0, positive control in fixtures/poscontrol")
    n = 0
    for key, sp, what in ambient_sites(ctx.fx, PIPELINE_CRATES):
        res.inst(key + "@ambient", sp["file"], sp["line"], "violation")
        res.violate(key + "@ambient:" + what.split(" ")[-1], "ambient nondeterminism source: " + what, sp["file"], sp["line"])
        n += 1
    # the command line and the driver: what is printed for the stages of a compilation (compile, focus, shrink, linearize, codegen,
    # check) must not depend on the terminal or the environment either; only the commands whose output is laid out for a human reader
    # (fmt, texify, shell completions) may ask for the terminal
    from .. import callgraph
    cg = callgraph.get(ctx)
    rev = {}
    for a_, bs_ in cg.edges.items():
        for b_ in bs_:
            rev.setdefault(b_.split("::{")[0], set()).add(a_.split("::{")[0])
    HUMAN = ("::cli::fmt::", "::cli::texify::", "::cli::gen_completions::")
    n_app = 0
    for key, sp, what in ambient_sites(ctx.fx, {"scc", "driver"}, extra=("termsize::",)):
        n_app += 1
        base = key.split("::{")[0]
        seen_, work_ = set(), [base]
        offenders = []
        while work_:
            x_ = work_.pop()
            if x_ in seen_:
                continue
            seen_.add(x_)
            if any(h in x_ for h in HUMAN) and x_.endswith("::exec"):
                continue        # a command for human readers: whoever dispatches to it does not inherit the dependence
            callers = {c_ for c_ in rev.get(x_, ()) if c_ in ctx.fx.fns and ctx.fx.fns[c_]["crate"] in ("scc", "driver") and c_ != x_}
            if "::cli::" in x_ and x_.endswith("::exec") and x_.count("::") > 2:
                offenders.append(x_)
            if not callers and "::cli::" not in x_ and not any(h in x_ for h in HUMAN) and x_ != base and ctx.fx.fns[x_].get("vis") == "pub":
                pass
            work_.extend(callers)
        ikey = base + "@ambient"
        if offenders:
            res.inst(ikey, sp["file"], sp["line"], "violation")
            res.violate(ikey + ":" + what.split(" ")[-1], "%s (%s) is reached from %s: what that command prints depends on the terminal or the "
                        "environment, not only on the program" % (what, base.split("::")[-1], ", ".join(sorted(o.split("::cli::")[-1] for o in offenders))[:160]),
                        sp["file"], sp["line"])
        else:
            res.inst(ikey, sp["file"], sp["line"], "ok", "only reached from commands that lay text out for a reader (fmt, texify, completions)")
    bodies = [f for f in ctx.fx.fns.values() if f["crate"] in PIPELINE_CRATES]
    res.inst("pipeline-bodies-scanned=%d" % len(bodies), None, None, "ok", "call sites and casts of all pipeline bodies scanned")
    # positive control
    fxp = ctx.fixture("poscontrol")
    pc = list(ambient_sites(fxp, {"poscontrol"}))
    if len(pc) < 2:
        from ..facts import AnalysisError
        raise AnalysisError("R-AMBIENT positive control not reported (%d)" % len(pc))
    res.inst("poscontrol:ambient(%d sites reported)" % len(pc), None, None, "ok", "positive control fired")
    # the hash rule's positive control
    pres = rule_hash(ctx, fx=fxp, table={})
    if len(pres.violations) < 2:
        from ..facts import AnalysisError
        raise AnalysisError("R-HASH positive control not reported")
    res.notes.append("R-HASH positive control: %d violations on fixtures/poscontrol as expected" % len(pres.violations))
    return res


def rule_trunc(ctx):
    """R-TRUNC: output files are written from an empty file"""
    fx = ctx.fx
    res = RuleResult("R-TRUNC", "every file the compiler writes is opened so that nothing of an earlier file of the same name survives: "
                     "File::create (truncates), or OpenOptions with truncate(true), append(true) or create_new(true) besides write(true). "
                     "A file opened with write+create only keeps the tail of a longer earlier file, so what a compilation leaves on disk "
                     "depends on what was compiled before")
    n = 0
    for key, f in sorted(fx.fns.items()):
        if f["crate"] in SKIP_CRATES or "{promoted" in key:
            continue
        fn = None
        for bi, b in enumerate(f["blocks"]):
            t = b["term"]
            if t["k"] != "call":
                continue
            nm = t.get("callee_name")
            c = t.get("callee") or ""
            slf = (t.get("callee_self") or "") + (t.get("callee_self_adt") or "")
            if nm in ("create", "create_new", "create_buffered") and "fs::File" in slf + c and c.startswith(("std::fs", "std::fs::File")):
                n += 1
                res.inst("%s@File::%s:%d" % (key, nm, n), t["sp"]["file"], t["sp"]["line"], "ok", "File::%s starts from an empty file" % nm, nontrivial=False)
                continue
            if nm == "write" and c.startswith("std::fs::write"):
                n += 1
                res.inst("%s@fs::write:%d" % (key, n), t["sp"]["file"], t["sp"]["line"], "ok", "fs::write replaces the file", nontrivial=False)
                continue
            if nm != "open" or "OpenOptions" not in slf + c:
                continue
            fn = fn or Fn(f)
            n += 1
            # the builder chain behind the receiver
            opts = {}
            work, seen = [op_root(t["args"][0])] if t["args"] else [], set()
            unknown = False
            while work:
                l0 = work.pop()
                if l0 is None or l0 in seen:
                    continue
                seen.add(l0)
                for d in fn.defs().get(l0, []):
                    if d["kind"] == "call":
                        t2 = d["term"]
                        n2 = t2.get("callee_name")
                        if n2 in ("write", "create", "truncate", "append", "read", "create_new") and "OpenOptions" in ((t2.get("callee_self") or "") + (t2.get("callee") or "")):
                            a = t2["args"][1] if len(t2["args"]) > 1 else {}
                            v = a.get("val") if a.get("k") == "const" else None
                            opts.setdefault(n2, set()).add(str(v).lower() if v is not None else "?")
                            work.append(op_root(t2["args"][0]))
                        elif n2 == "new" or n2 == "options":
                            pass
                        elif n2 in ("deref", "deref_mut", "borrow_mut", "clone"):
                            work.append(op_root(t2["args"][0]))
                        else:
                            unknown = True
                    elif d.get("rv", {}).get("k") in ("ref", "use", "cast"):
                        rv = d["rv"]
                        pl = rv.get("pl") or (rv.get("op") or {}).get("pl")
                        if pl:
                            work.append(pl["l"])
                    elif d["kind"] == "arg":
                        unknown = True
                # the builder is also configured through `&mut` calls on the same local (opts.write(true); opts.open(..))
                for u in fn.uses().get(l0, []):
                    if u["kind"] == "arg" and u["ai"] == 0:
                        t2 = u["term"]
                        n2 = t2.get("callee_name")
                        if n2 in ("write", "create", "truncate", "append", "read", "create_new") and "OpenOptions" in ((t2.get("callee_self") or "") + (t2.get("callee") or "")):
                            a = t2["args"][1] if len(t2["args"]) > 1 else {}
                            v = a.get("val") if a.get("k") == "const" else None
                            opts.setdefault(n2, set()).add(str(v).lower() if v is not None else "?")
            ikey = "%s@OpenOptions::open:%d" % (key, sum(1 for b2 in f["blocks"][:bi] if b2["term"]["k"] == "call" and b2["term"].get("callee_name") == "open"))

            def on(name):
                return bool(opts.get(name, set()) & {"true", "1", "?"})
            writes = on("write") or on("append")
            fresh = any(opts.get(x, set()) & {"true", "1"} for x in ("truncate", "append", "create_new"))
            if unknown and not fresh:
                raise AnalysisError("R-TRUNC: the options of the file opened at %s:%d are configured outside the function" % (t["sp"]["file"], t["sp"]["line"]))
            if writes and not fresh:
                res.inst(ikey, t["sp"]["file"], t["sp"]["line"], "violation")
                res.violate(ikey, "a file is opened for writing with OpenOptions (%s) but neither truncated, appended to nor required to be new: when a "
                            "longer file of that name exists its tail survives, and the bytes on disk depend on earlier compilations" %
                            ", ".join("%s(%s)" % (k_, "/".join(sorted(v_))) for k_, v_ in sorted(opts.items())), t["sp"]["file"], t["sp"]["line"])
            else:
                res.inst(ikey, t["sp"]["file"], t["sp"]["line"], "ok", "read-only" if not writes else "starts from an empty file / appends")
    if n < 3:
        raise AnalysisError("R-TRUNC: only %d file-opening sites found (the driver writes its artefacts, the C driver and the runtime)" % n)
    return res


LOSSY_PATH = {"file_name", "file_stem", "file_prefix", "extension", "parent", "strip_prefix", "components", "iter", "ancestors",
              "with_file_name", "with_extension", "last", "next_back", "nth", "len"}
MAP_LOOKUPS = {"get", "get_mut", "insert", "contains_key", "entry", "remove", "get_or_insert_with", "get_key_value"}


def _lossy_inside(fx, key, depth=0, seen=None):
    """a path projection inside an in-workspace helper (transitively)"""
    seen = seen if seen is not None else set()
    if key in seen or depth > 4:
        return None
    seen.add(key)
    f = fx.fns.get(key)
    if not f:
        return None
    for b in f["blocks"]:
        t = b["term"]
        if t["k"] != "call":
            continue
        nm = t.get("callee_name")
        slf = (t.get("callee_self") or "") + (t.get("callee") or "")
        if nm in LOSSY_PATH and ("path::Path" in slf or "ffi::OsStr" in slf or "path::Components" in slf):
            return "%s (%s:%d)" % (nm, t["sp"]["file"], t["sp"]["line"])
        k2 = t.get("resolved_key") or t.get("callee_key")
        if k2 in fx.fns:
            r = _lossy_inside(fx, k2, depth + 1, seen)
            if r:
                return r
    for k2 in fx.fns:
        if k2.startswith(key + "::{closure"):
            r = _lossy_inside(fx, k2, depth + 1, seen)
            if r:
                return r
    return None


def rule_cachekey(ctx):
    """R-CACHEKEY: the driver's caches are keyed by the whole path"""
    fx = ctx.fx
    res = RuleResult("R-CACHEKEY", "every lookup or insertion on a map held in the driver (its per-file caches of sources and intermediate programs) "
                     "takes a key that is the file's path as given - the parameter itself, a clone or an owned/canonical form of it - and not a "
                     "projection of it (file_name, file_stem, extension, parent, a component): with a projected key two files that share the "
                     "projection share the cache entry, and what a compilation prints depends on what was compiled before in the same process")
    n = 0
    for key, f in sorted(fx.fns.items()):
        if f["crate"] not in ("driver", "scc") or "{promoted" in key:
            continue
        fn = None
        for bi, b in enumerate(f["blocks"]):
            t = b["term"]
            if t["k"] != "call" or t.get("callee_name") not in MAP_LOOKUPS:
                continue
            core = t.get("callee_self_core") or ""
            if not core.endswith(("::HashMap", "::BTreeMap", "::HashSet", "::BTreeSet")) or len(t["args"]) < 2:
                continue
            fn = fn or Fn(f)
            # the receiver is a field of a struct of the crate (not a local map)
            recv = set()
            work, seen = [op_root(t["args"][0])], set()
            while work:
                l0 = work.pop()
                if l0 is None or l0 in seen:
                    continue
                seen.add(l0)
                for d in fn.defs().get(l0, []):
                    if d["kind"] == "arg":
                        recv.add(l0)
                    elif d["kind"] == "assign":
                        for pl, _r in rvalue_places(d["rv"]):
                            work.append(pl["l"])
                    elif d["kind"] == "call" and d["term"].get("callee_name") in ("deref", "deref_mut", "borrow", "borrow_mut", "as_ref", "as_mut"):
                        work.append(op_root(d["term"]["args"][0]))
            if not recv:
                continue
            n += 1
            ikey = "%s@%s:%d" % (key, t["callee_name"], sum(1 for b2 in f["blocks"][:bi] if b2["term"]["k"] == "call" and b2["term"].get("callee_name") == t["callee_name"]))
            work, seen = [op_root(t["args"][1])], set()
            bad = None
            reaches_param = False
            if t["args"][1].get("k") == "const":
                bad = "a constant"
            while work and not bad:
                l0 = work.pop()
                if l0 is None or l0 in seen:
                    continue
                seen.add(l0)
                for d in fn.defs().get(l0, []):
                    if d["kind"] == "arg":
                        reaches_param = True
                    elif d["kind"] == "assign":
                        for pl, _r in rvalue_places(d["rv"]):
                            work.append(pl["l"])
                    elif d["kind"] == "call":
                        t2 = d["term"]
                        n2 = t2.get("callee_name")
                        slf = (t2.get("callee_self") or "") + (t2.get("callee") or "")
                        if n2 in LOSSY_PATH and ("path::Path" in slf or "ffi::OsStr" in slf or "path::Components" in slf):
                            bad = "%s() of the path" % n2
                            break
                        k2 = t2.get("resolved_key") or t2.get("callee_key")
                        if k2 in fx.fns and fx.fns[k2]["crate"] not in SKIP_CRATES:
                            r = _lossy_inside(fx, k2)
                            if r:
                                bad = "%s, which takes %s" % (k2.split("::")[-1], r)
                                break
                        for a in t2["args"]:
                            work.append(op_root(a))
            if bad:
                res.inst(ikey, t["sp"]["file"], t["sp"]["line"], "violation")
                res.violate(ikey, "the key of this %s on a map of the driver is %s and not the whole path: two files in different directories that agree on "
                            "it share the entry, so the second compilation returns the first file's result" % (t["callee_name"], bad), t["sp"]["file"], t["sp"]["line"])
            else:
                res.inst(ikey, t["sp"]["file"], t["sp"]["line"], "ok", "key is the path parameter" if reaches_param else "key does not go through a path projection")
    if n < 1:
        raise AnalysisError("R-CACHEKEY: only %d cache lookups found in the driver (its stages look up and fill a cache)" % n)
    return res
