"""C02: R-HYG (continuation never placed under a source-named binder), R-SEED (fresh-name seeding)."""
from ..core import RuleResult
from ..facts import AnalysisError
from ..mir import Fn, Flow, op_root, place_fields, rvalue_places, aggregates

CORE_MU = "scc_core_lang::syntax::terms::mu::Mu"
CORE_CLAUSE = "scc_core_lang::syntax::terms::clause::Clause"
TERM_CNS_TY = "Term<scc_core_lang::syntax::Cns>"
FRESH_NAMES = {"fresh_var", "fresh_covar", "fresh_name"}


def _cont_params(fn):
    out = []
    for i in range(1, fn.argc + 1):
        ty = fn.local_ty(i)
        if ty.replace("scc_core_lang::syntax::terms::", "scc_core_lang::syntax::").endswith("Term<scc_core_lang::syntax::Cns>"):
            out.append(i)
    return out


def _taint_forward(fn, starts):
    """locals that may hold (something containing) a value from `starts`: moves, borrows, aggregates, any call result
    that received a tainted argument."""
    seen = set(starts)
    work = list(starts)
    uses = fn.uses()
    while work:
        l = work.pop()
        for u in uses.get(l, []):
            nxt = None
            if u["kind"] == "rv":
                nxt = u["stmt"]["lhs"]["l"]
            elif u["kind"] == "arg":
                nxt = u["term"]["dest"]["l"]
            if nxt is not None and nxt not in seen:
                seen.add(nxt)
                work.append(nxt)
    return seen


def _name_pass(t):
    n = t.get("callee_name")
    c = t.get("callee") or ""
    if n in ("new",) and "Identifier" in (t.get("callee_key") or ""):
        return True
    if n in ("compile_context", "vec_ids", "vars"):
        return True
    return False


def binder_sources(fn, flow, operand, fx=None, depth=0):
    """classify the provenance of a binder operand: set of 'SRC:<param>.<field>', 'FRESH', 'CONST', 'OTHER'; with `fx`, a helper of
    fun2core whose result is drawn from the fresh-name supply counts as the supply"""
    r = op_root(operand)
    if r is None:
        return {"CONST"}
    out = set()
    for o in flow.origins(r, tuple(place_fields(operand["pl"]))):
        if o[0] == "arg":
            out.add("SRC:_%d.%s" % (o[1], ".".join(o[2])) if o[2] else "PARAM:_%d" % o[1])
        elif o[0] == "call":
            t = fn.term(o[1])
            if t.get("callee_name") in FRESH_NAMES:
                out.add("FRESH")
            else:
                k2 = t.get("resolved_key") or (t.get("callee_key") if not t.get("callee_trait") else None)
                if fx is not None and depth < 2 and k2 in fx.fns and fx.fns[k2]["crate"] == "fun2core" and "{" not in k2:
                    hfn = Fn(fx.fns[k2])
                    sub = binder_sources(hfn, Flow(hfn, extra_pass=_name_pass), {"k": "copy", "pl": {"l": 0, "p": []}}, fx, depth + 1)
                    if sub == {"FRESH"}:
                        out.add("FRESH")
                        continue
                out.add("CALL:%s" % t.get("callee_name"))
        elif o[0] == "const":
            out.add("CONST")
        else:
            out.add("OTHER")
    return out


def rule_hyg(ctx):
    fx = ctx.fx
    res = RuleResult("R-HYG", "hygiene of the continuation-passing translation: in every fun2core function that receives a consumer "
                     "(parameter of type core Term<Cns>), no Mu{variable, statement} / Clause{context, body} is built whose body "
                     "contains (taint) the incoming consumer while its binder is copied verbatim from the source node: the consumer "
                     "may mention any outer name, so it is captured whenever the names coincide")
    n_fns = 0
    for key, f in sorted(fx.fns.items()):
        if f["crate"] != "fun2core" or "{promoted" in key:
            continue
        fn = Fn(f)
        conts = _cont_params(fn)
        if not conts:
            continue
        n_fns += 1
        tainted = _taint_forward(fn, conts)
        flow = Flow(fn, extra_pass=_name_pass)
        found = False
        for bi, s in aggregates(fn, fx):       # Mu { .. } as well as Mu::tilde_mu(..)
            rv = s["rv"]
            if rv["k"] != "agg" or rv.get("agg") != "adt" or rv.get("adt") not in (CORE_MU, CORE_CLAUSE):
                continue
            fields = rv["fields"]
            body_f = "statement" if rv["adt"] == CORE_MU else "body"
            bind_f = "variable" if rv["adt"] == CORE_MU else "context"
            if body_f not in fields or bind_f not in fields:
                continue
            body_op = rv["ops"][fields.index(body_f)]
            bind_op = rv["ops"][fields.index(bind_f)]
            body_root = op_root(body_op)
            ikey = "%s@%s" % (key, rv["adt"].split("::")[-1])
            if body_root is None or body_root not in tainted:
                res.inst(ikey + ":cont-free-body", s["sp"]["file"], s["sp"]["line"], "ok", "body does not contain the incoming consumer")
                continue
            srcs = binder_sources(fn, flow, bind_op)
            found = True
            if any(x.startswith("SRC:") for x in srcs) and "FRESH" not in srcs:
                res.inst(ikey, s["sp"]["file"], s["sp"]["line"], "violation", "binder from %s" % sorted(srcs))
                res.violate(key, "the incoming consumer is placed under the binder `%s` copied verbatim from the source (%s): a variable "
                            "of an outer scope mentioned by the consumer is captured when the names coincide" %
                            (bind_f, ", ".join(sorted(srcs))), s["sp"]["file"], s["sp"]["line"])
            else:
                res.inst(ikey, s["sp"]["file"], s["sp"]["line"], "ok", "binder is %s" % sorted(srcs))
        if not found:
            res.inst(key + ":no-binder-over-cont", fn.file, fn.line, "ok", "consumer never goes under a binder here", nontrivial=False)
    if n_fns < 15:
        raise AnalysisError("R-HYG: only %d fun2core functions with a consumer parameter found" % n_fns)
    res.notes.append("fun2core functions with a consumer parameter: %d" % n_fns)
    return res


def rule_seed(ctx):
    fx = ctx.fx
    res = RuleResult("R-SEED", "fresh-name seeding: compile_def/compile_main seed `used_vars` from the definition's parameters and from "
                     "used_binders(body) before the CompileState exists (so before any fresh_* call); compile_prog seeds `used_labels` "
                     "from all definition names; every Identifier::new in fun2core takes a source or fresh name, never a literal; "
                     "share draws its label from fresh_name(used_labels, ..)")
    # wherever a CompileState is built (compile_def / compile_main, or a helper they share)
    builders = []
    for key, f in sorted(fx.fns.items()):
        if f["crate"] != "fun2core" or "{promoted" in key:
            continue
        if any(s["k"] == "assign" and s["rv"]["k"] == "agg" and (s["rv"].get("adt") or "").endswith("compile::CompileState") for b in f["blocks"] for s in b["stmts"]):
            builders.append(key)
    if not builders:
        raise AnalysisError("R-SEED: no function of fun2core builds a CompileState")
    for key in builders:
        fn = Fn(fx.fns[key])
        flow = Flow(fn)
        state_aggs = [(bi, si, s) for bi, si, s in fn.stmts() if s["rv"]["k"] == "agg" and (s["rv"].get("adt") or "").endswith("CompileState")]
        ub = [bi for bi, t in fn.calls() if t.get("callee_name") == "used_binders"]
        for bi, si, s in state_aggs:
            rv = s["rv"]
            uv = rv["ops"][rv["fields"].index("used_vars")]
            l = op_root(uv)
            org = flow.origins(l, ()) if l is not None else set()
            from_ctx = any(o[0] == "call" and fn.term(o[1]).get("callee_name") == "vars" for o in org)
            ikey = key + ":used_vars"
            ok = True
            if not from_ctx:
                res.violate(ikey + "@params", "%s: used_vars is not seeded from the definition's parameter names (context.vars())" % key, s["sp"]["file"], s["sp"]["line"])
                ok = False
            else:
                # ... and that function yields the names of *all* parameters: it does not select among the bindings (by chirality, say)
                SELECT = {"filter", "filter_map", "take", "take_while", "skip", "skip_while", "step_by", "find", "retain", "partition", "position"}
                for o in org:
                    if o[0] != "call" or fn.term(o[1]).get("callee_name") != "vars":
                        continue
                    k2 = fn.term(o[1]).get("resolved_key") or fn.term(o[1]).get("callee_key")
                    todo, seen_k = [k2], set()
                    sel = None
                    while todo and not sel:
                        kk = todo.pop()
                        if kk in seen_k or kk not in fx.fns:
                            continue
                        seen_k.add(kk)
                        for b_ in fx.fns[kk]["blocks"]:
                            t_ = b_["term"]
                            if t_["k"] != "call":
                                continue
                            if t_.get("callee_name") in SELECT and (t_.get("callee") or "").startswith(("core::iter", "core::slice", "alloc::vec")):
                                sel = (t_.get("callee_name"), t_["sp"])
                                break
                            k3 = t_.get("resolved_key") or t_.get("callee_key")
                            if k3 in fx.fns and fx.fns[k3]["crate"] == "fun" and len(seen_k) < 6:
                                todo.append(k3)
                    if sel:
                        res.violate(ikey + "@all-params", "%s seeds used_vars with %s(), which selects among the parameters (%s at %s:%d): the names of the "
                                    "parameters left out are not reserved, and a generated name can coincide with one of them" %
                                    (key, k2.split("::")[-1], sel[0], sel[1]["file"], sel[1]["line"]), s["sp"]["file"], s["sp"]["line"])
                        ok = False
            # used_binders(&body, &mut used_vars) must dominate the construction and receive the same local
            good_ub = []
            for b in ub:
                t = fn.term(b)
                a1 = t["args"][1] if len(t["args"]) > 1 else None
                r1 = op_root(a1) if a1 else None
                o1 = flow.origins(r1, ()) if r1 is not None else set()
                if o1 & org and fn.dominates(b, bi) and b != bi:
                    good_ub.append(b)
            if not good_ub:
                res.violate(ikey + "@binders", "%s: used_binders(body, &mut used_vars) does not precede the construction of CompileState: "
                            "fresh names can coincide with binders chosen by the user" % key, s["sp"]["file"], s["sp"]["line"])
                ok = False
            res.inst(ikey, s["sp"]["file"], s["sp"]["line"], "ok" if ok else "violation")
            # no name is drawn from the set before the body's binders are in it (a draw made directly on the local set, not through the state)
            for b2, t2 in fn.calls():
                c2 = t2.get("callee") or ""
                if t2.get("callee_name") in ("used_binders", "vars") or c2.startswith(("std::", "core::", "alloc::", "hashbrown::")):
                    continue
                dl = t2["dest"]["l"]
                dty = fn.f["locals"][dl]["ty"]
                if not (dty.endswith("String") or "Identifier" in dty or dty.endswith("Name")):
                    continue
                takes = False
                for a2 in t2["args"]:
                    r2 = op_root(a2)
                    if r2 is not None and "HashSet" in fn.f["locals"][r2]["ty"] and flow.origins(r2, ()) & org:
                        takes = True
                if not takes:
                    continue
                dkey = "%s:draw@%s" % (key, t2.get("callee_name"))
                if any(fn.dominates(b, b2) and b != b2 for b in good_ub):
                    res.inst(dkey, t2["sp"]["file"], t2["sp"]["line"], "ok", "drawn after used_binders")
                else:
                    res.inst(dkey, t2["sp"]["file"], t2["sp"]["line"], "violation")
                    res.violate(dkey, "%s draws a name with %s from the set of used names before used_binders(body, ..) has added the binders of the body: "
                                "the name can coincide with a binder chosen by the user, which then captures it" % (key, t2.get("callee_name")),
                                t2["sp"]["file"], t2["sp"]["line"])
    # compile_prog: used_labels seeded from every def name
    def hands_on(t):
        """the call translates definitions: compile_def / compile_main, or a helper of fun2core that calls them"""
        if t.get("callee_name") in ("compile_def", "compile_main"):
            return True
        k2 = t.get("resolved_key") or (t.get("callee_key") if not t.get("callee_trait") else None)
        g = fx.fns.get(k2)
        if not g or g["crate"] != "fun2core" or "{" in k2:
            return False
        bodies = [g] + [h for hk, h in fx.fns.items() if (h.get("parent") or "").startswith(k2) and "{promoted" not in hk]
        return any(b_["term"]["k"] == "call" and b_["term"].get("callee_name") in ("compile_def", "compile_main") for h in bodies for b_ in h["blocks"])

    def seeded(key, is_defs, depth=0):
        """(site, ok): the label set handed on by `key` is collected from the definitions; is_defs(origin) recognises the definition list"""
        fn_ = Fn(fx.fns[key])
        flow_ = Flow(fn_, extra_pass=lambda t: t.get("callee_name") in ("iter", "map", "collect", "into_iter", "cloned") and (t.get("callee") or "").startswith(("core::", "alloc::")))
        site_, ok_ = None, False
        bodies = [key] + [hk for hk, h in fx.fns.items() if (h.get("parent") or "").startswith(key) and "{promoted" not in hk]
        for bk in bodies:
            bfn = fn_ if bk == key else Fn(fx.fns[bk])
            bflow = flow_ if bk == key else Flow(bfn)
            for bi, t in bfn.calls():
                if not hands_on(t):
                    continue
                site_ = site_ or t
                direct = t.get("callee_name") in ("compile_def", "compile_main")
                cands = [t["args"][-1]] if direct else [a_ for a_ in t["args"] if op_root(a_) is not None and "HashSet" in bfn.f["locals"][op_root(a_)]["ty"]]
                for a in cands:
                    r = op_root(a)
                    for o in (bflow.origins(r, ()) if r is not None else ()):
                        if bk == key and is_defs(o):
                            ok_ = True
                        elif bk != key and o[0] == "arg" and o[1] == 1:
                            # inside a closure: the set is a capture; where it was built is in the enclosing body
                            for bi0, t0 in fn_.calls():
                                pass
                            ok_ = ok_ or any(is_defs(o2) for l0 in range(len(fn_.f["locals"])) if "HashSet" in fn_.f["locals"][l0]["ty"] for o2 in flow_.origins(l0, ()))
                if not cands and not direct and depth < 2:
                    # the helper is given the definitions themselves and collects the set on its own
                    k2 = t.get("resolved_key") or t.get("callee_key")
                    for ai, a in enumerate(t["args"]):
                        r = op_root(a)
                        if r is not None and any(is_defs(o) for o in bflow.origins(r, tuple(place_fields(a["pl"])))) and bk == key:
                            s2, ok2 = seeded(k2, lambda o, ai=ai: o[0] == "arg" and o[1] == ai + 1, depth + 1)
                            site_, ok_ = s2 or site_, ok_ or ok2
        return site_, ok_
    site, ok = seeded(fx.fn("fun2core::program::compile_prog")["key"], lambda o: o[0] == "arg" and tuple(o[2][:1]) == ("defs",))
    ikey = "fun2core::program::compile_prog:used_labels"
    if site is None:
        raise AnalysisError("R-SEED: compile_prog calls neither compile_def nor compile_main")
    if ok:
        res.inst(ikey, site["sp"]["file"], site["sp"]["line"], "ok", "used_labels collected from prog.defs")
    else:
        res.inst(ikey, site["sp"]["file"], site["sp"]["line"], "violation")
        res.violate(ikey, "compile_prog: the label set handed to compile_def/compile_main is not collected from the program's definition names",
                    site["sp"]["file"], site["sp"]["line"])
    # Identifier::new never takes a literal
    n = 0
    for key, f in sorted(fx.fns.items()):
        if f["crate"] != "fun2core" or "{promoted" in key:
            continue
        fn = Fn(f)
        flow = Flow(fn)
        for bi, t in fn.calls():
            if t.get("callee_name") == "new" and "names::Identifier" in (t.get("callee_key") or ""):
                n += 1
                a = t["args"][0]
                srcs = binder_sources(fn, flow, a) if a.get("k") != "const" else {"CONST"}
                ikey = "%s@Identifier::new#%d" % (key, sum(1 for i in res.instances if i["key"].startswith(key + "@Identifier::new")))
                if "CONST" in srcs:
                    res.inst(ikey, t["sp"]["file"], t["sp"]["line"], "violation")
                    res.violate(key + "@literal-name", "Identifier::new with a hard-coded name: a compiler-chosen name that is not drawn from the fresh-name "
                                "generator can coincide with a user-chosen one", t["sp"]["file"], t["sp"]["line"])
                else:
                    res.inst(ikey, t["sp"]["file"], t["sp"]["line"], "ok", ",".join(sorted(srcs)))
    # share: label from fresh_name(state.used_labels, ..)
    fn = Fn(fx.fn("fun2core::compile::share"))
    flow = Flow(fn)
    defs = [(bi, si, s) for bi, si, s in fn.stmts() if s["rv"]["k"] == "agg" and (s["rv"].get("adt") or "").endswith("syntax::def::Def")]
    if not defs:
        raise AnalysisError("R-SEED: share builds no Def")
    for bi, si, s in defs:
        rv = s["rv"]
        nm = rv["ops"][rv["fields"].index("name")]
        srcs = binder_sources(fn, Flow(fn, extra_pass=_name_pass), nm, fx)
        ikey = "fun2core::compile::share:def-name"
        # ... and the names it is drawn against are the program's labels (not, say, the variable names of the definition)
        def drawn_against(k0, depth=0):
            out_ = set()
            f0 = Fn(fx.fns[k0])
            fl0 = Flow(f0)
            for _, t0 in f0.calls():
                if t0.get("callee_name") == "fresh_name" and t0["args"]:
                    r0 = op_root(t0["args"][0])
                    for o0 in (fl0.origins(r0, tuple(place_fields(t0["args"][0]["pl"]))) if r0 is not None else ()):
                        out_.add(o0[2][-1] if o0[0] == "arg" and o0[2] else "?")
                else:
                    k2_ = t0.get("resolved_key") or (t0.get("callee_key") if not t0.get("callee_trait") else None)
                    if depth < 2 and k2_ in fx.fns and fx.fns[k2_]["crate"] == "fun2core" and "{" not in k2_ and fx.fns[k2_]["locals"][0]["ty"].endswith("String"):
                        out_ |= drawn_against(k2_, depth + 1)
            return out_
        against = drawn_against(fn.f["key"])
        if srcs == {"FRESH"} and against - {"used_labels"}:
            res.inst(ikey, s["sp"]["file"], s["sp"]["line"], "violation")
            res.violate(ikey, "share: the name of the lifted definition is drawn against %s, not against the labels of the program (used_labels): it can "
                        "coincide with the name of a user definition" % sorted(against), s["sp"]["file"], s["sp"]["line"])
        elif srcs == {"FRESH"}:
            res.inst(ikey, s["sp"]["file"], s["sp"]["line"], "ok", "name from fresh_name")
        else:
            res.inst(ikey, s["sp"]["file"], s["sp"]["line"], "violation")
            res.violate(ikey, "share: the lifted definition's name is not drawn from fresh_name(used_labels, ..) but from %s" % sorted(srcs), s["sp"]["file"], s["sp"]["line"])
    # fresh_name itself: loops until the candidate is not contained, then inserts it
    fn = Fn(fx.fn("fun::syntax::names::fresh_name"))
    names = [t.get("callee_name") for _, t in fn.calls()]
    ikey = "fun::syntax::names::fresh_name:contains+insert"
    if "contains" in names and "insert" in names:
        cb = [bi for bi, t in fn.calls() if t.get("callee_name") == "contains"]
        ib = [bi for bi, t in fn.calls() if t.get("callee_name") == "insert"]
        # the contains check guards the exit of the loop: the insert is dominated by a contains call
        if all(any(fn.dominates(c, i) for c in cb) for i in ib):
            res.inst(ikey, fn.file, fn.line, "ok")
        else:
            res.inst(ikey, fn.file, fn.line, "violation")
            res.violate(ikey, "fresh_name inserts a name without having tested it against the used set", fn.file, fn.line)
    else:
        res.inst(ikey, fn.file, fn.line, "violation")
        res.violate(ikey, "fresh_name no longer tests (contains) and records (insert) the chosen name in the used set", fn.file, fn.line)
    res.require_floor(20)
    return res


def rule_fvscope(ctx):
    """R-FVSCOPE: free-variable collection before binders are unique must scope each binder to its own body"""
    fx = ctx.fx
    res = RuleResult("R-FVSCOPE", "typed_free_vars on unfocused Core (binders not yet unique: Fun allows shadowing and uniquify runs later) "
                     "must remove a bound variable only from the set collected for the binder's own body; an impl that can be used "
                     "at an unfocused type (its Self type names no Fs* body type) and removes from / retains on the caller's "
                     "accumulator loses a free occurrence of an outer variable with the same name and type, so the lifted "
                     "definition built from the set lacks a parameter. Focused impls (Self names FsStatement) may use the accumulator")
    n = 0
    for k, f in sorted(fx.fns.items()):
        if not (f.get("impl_trait") or "").endswith("typed_free_vars::TypedFreeVars") or f["crate"] != "scc_core_lang" or "{" in k.split(" as ")[-1]:
            continue
        self_ty = k.split(" as ")[0].lstrip("<")
        fn = Fn(f)
        flow = Flow(fn)
        rem = [(bi, t) for bi, t in fn.calls() if t.get("callee_name") in ("remove", "retain", "pop_first", "pop_last", "clear", "split_off", "take", "extract_if")
               and (t.get("callee") or "").startswith(("alloc::collections::", "std::collections::"))]
        if not rem:
            continue
        focused_only = "Fs" in self_ty.split("<", 1)[1] if "<" in self_ty else False
        for bi, t in rem:
            n += 1
            r = op_root(t["args"][0])
            org = flow.origins(r, ()) if r is not None else set()
            on_acc = any(o[0] == "arg" and o[1] == 2 for o in org)
            ikey = "%s@%s" % (self_ty, t.get("callee_name"))
            if on_acc and not focused_only:
                res.inst(ikey, t["sp"]["file"], t["sp"]["line"], "violation")
                res.violate(ikey, "typed_free_vars of %s removes the binder from the caller's accumulator although the impl applies to unfocused "
                            "terms, whose binders may shadow a variable that is free outside" % self_ty, t["sp"]["file"], t["sp"]["line"])
            else:
                res.inst(ikey, t["sp"]["file"], t["sp"]["line"], "ok", "focused only: binders unique" if on_acc else "removes from a set local to the binder's body")
    res.require_floor(2)
    return res


def _field_source(fn, local, depth=0):
    """trace a local backwards through single-definition copies / borrows to the place it was read from; returns the last
    field projection {'n', 'of', ...} of that place, or None"""
    if depth > 12:
        return None
    ds = fn.defs().get(local, [])
    if len(ds) != 1:
        return None
    d = ds[0]
    pl = None
    if d["kind"] == "stmt" or "rv" in d:
        rv = d.get("rv") or {}
        if rv.get("k") in ("ref", "use", "rawptr", "cast"):
            pl = rv.get("pl") or (rv.get("op") or {}).get("pl")
    elif d["kind"] == "call":
        t = d["term"]
        if t.get("callee_name") in ("deref", "as_ref", "borrow", "as_str", "clone", "as_deref") and t["args"] and t["args"][0].get("pl"):
            pl = t["args"][0]["pl"]
    if not pl:
        return None
    fields = [x for x in pl["p"] if isinstance(x, dict) and "n" in x and x.get("of")]
    if fields:
        return fields[-1]
    return _field_source(fn, pl["l"], depth + 1)


def rule_binders(ctx):
    """R-BINDERS: every source field the type checker treats as a binder is collected by used_binders"""
    fx = ctx.fx
    res = RuleResult("R-BINDERS", "sibling agreement between the type checker and the fresh-name seeding: every field of a Fun term that the "
                     "checker adds to the typing context as a new (co)variable (add_var / add_covar / NameContext::add_types) is also "
                     "inserted into the used-name set by that term's UsedBinders impl; a binder missing there can coincide with a "
                     "generated name and capture it")
    binders = {}
    # the functions that add a binder to a context: add_var / add_covar / add_types, and wrappers of the context module that hand one of
    # their own parameters on to them (`with_var(&self, var, ty)` = clone + add_var)
    adders = {}
    for k, f in sorted(fx.fns.items()):
        if f["crate"] == "fun" and k.startswith("fun::syntax::context::") and "{" not in k and f.get("name") in ("add_var", "add_covar", "add_types"):
            adders[k] = 0 if f["name"] == "add_types" else 1
    for k, f in sorted(fx.fns.items()):
        if f["crate"] != "fun" or not k.startswith("fun::syntax::context::") or "{" in k or k in adders:
            continue
        wfn = None
        for b in f["blocks"]:
            t = b["term"]
            k2 = t.get("resolved_key") or t.get("callee_key") if t["k"] == "call" else None
            if k2 in adders and len(t["args"]) > adders[k2]:
                wfn = wfn or Fn(f)
                wflow = Flow(wfn)
                r = op_root(t["args"][adders[k2]])
                for o in (wflow.origins(r, ()) if r is not None else ()):
                    if o[0] == "arg" and not o[2] and 1 <= o[1] <= f["argc"]:
                        adders.setdefault(k, o[1] - 1)
    for k, f in sorted(fx.fns.items()):
        if f["crate"] != "fun" or "{promoted" in k or k in adders:
            continue
        fn = None
        for bi, b in enumerate(f["blocks"]):
            t = b["term"]
            if t["k"] != "call":
                continue
            k2 = t.get("resolved_key") or t.get("callee_key")
            if k2 not in adders:
                continue
            fn = fn or Fn(f)
            ai = adders[k2]
            r = op_root(t["args"][ai]) if len(t["args"]) > ai else None
            src = _field_source(fn, r) if r is not None else None
            if src is None:
                continue
            adt = src["of"].rsplit("::", 1)[0]
            binders.setdefault((adt, src["n"]), []).append((k, t["sp"]["file"], t["sp"]["line"], t["callee_name"]))
    for (adt, field), sites in sorted(binders.items()):
        key = "<%s as fun::traits::used_binders::UsedBinders>::used_binders" % adt
        ikey = "%s.%s" % (adt, field)
        f = fx.fns.get(key)
        if f is None:
            res.inst(ikey, sites[0][1], sites[0][2], "violation")
            res.violate(ikey, "%s.%s is bound by %s (%s) but %s has no UsedBinders impl" % (adt, field, sites[0][3], sites[0][0], adt), sites[0][1], sites[0][2])
            continue
        fn = Fn(f)
        flow = Flow(fn, extra_pass=lambda t: t.get("callee_name") in ("iter", "into_iter", "next", "cloned", "unwrap") and (t.get("callee") or "").startswith(("core::", "alloc::")))
        found = False
        for bi, t in fn.calls():
            if t.get("callee_name") in ("insert", "extend") and (t.get("callee_self_adt") or "").endswith(("HashSet", "BTreeSet")) and len(t["args"]) > 1:
                r = op_root(t["args"][1])
                org = flow.origins(r, ()) if r is not None else set()
                if any(o[0] == "arg" and o[1] == 1 and o[2][:1] == (field,) for o in org):
                    found = True
        if found:
            res.inst(ikey, f["sp"]["file"], f["sp"]["line"], "ok", "bound at %s:%d (%s); inserted by used_binders" % (sites[0][1], sites[0][2], sites[0][3]))
        else:
            res.inst(ikey, f["sp"]["file"], f["sp"]["line"], "violation")
            res.violate(ikey, "the type checker binds %s.%s (%s at %s:%d) but UsedBinders for %s does not insert it into the used-name set: "
                        "a generated name can coincide with this binder" % (adt.split("::")[-1], field, sites[0][3], sites[0][1], sites[0][2], adt.split("::")[-1]),
                        f["sp"]["file"], f["sp"]["line"])
    res.require_floor(3)
    return res


def rule_seq(ctx):
    """R-SEQ: call-by-value sequencing in the Fun->Core translation only at non-codata types"""
    fx = ctx.fx
    res = RuleResult("R-SEQ", "evaluation strategy of the Fun->Core translation: handing a freshly built mu-tilde abstraction to `compile_with_cont` "
                     "runs the compiled term first and then the abstraction's body (call by value), which is the source semantics only "
                     "for integers and data; every such site must have the abstraction's type fixed to i64 or be dominated by the false "
                     "branch of an `is_codata` test of that type (codata is evaluated by name: the term has to stay the producer of a cut)")
    n = 0
    for k, f in sorted(fx.fns.items()):
        if f["crate"] != "fun2core" or "{promoted" in k:
            continue
        fn = Fn(f)
        flow = Flow(fn, fx=fx)      # `Mu::tilde_mu(var, stmt, ty)` is the aggregate it builds
        guards = []     # (false-successor block, origins of the tested type)
        for bi, t in fn.calls():
            if t.get("callee_name") == "is_codata" and t["args"]:
                r0 = op_root(t["args"][0])
                torg = flow.origins(r0, ()) if r0 is not None else set()
                res_l = t["dest"]["l"]
                for b2, blk in enumerate(f["blocks"]):
                    tt = blk["term"]
                    if tt["k"] != "switch":
                        continue
                    d = tt.get("discr") or {}
                    pl = d.get("pl") if isinstance(d, dict) else None
                    if not pl:
                        continue
                    dorg = flow.origins(pl["l"], ())
                    if ("call", bi, ()) in dorg or pl["l"] == res_l:
                        for val, tg in tt.get("targets") or []:
                            if val == 0:
                                guards.append((tg, torg))
        for bi, t in fn.calls():
            if t.get("callee_name") != "compile_with_cont" or len(t["args"]) < 2:
                continue
            r = op_root(t["args"][1])
            org = flow.origins(r, ()) if r is not None else set()
            for o in [o for o in org if o[0] == "agg"]:
                rv = flow.agg_at(o)
                if not (rv.get("adt") or "").endswith("mu::Mu"):
                    continue
                flds = dict(zip(rv["fields"], rv["ops"]))
                pc = flds.get("prdcns")
                pr = op_root(pc) if pc else None
                pc_org = flow.origins(pr, ()) if pr is not None else set()
                is_tilde = any(x[0] == "agg" and (flow.agg_at(x).get("adt") or "").endswith("::Cns") for x in pc_org) or \
                    (pr is not None and fn.local_ty(pr).endswith("Cns")) or (pc is not None and pc.get("k") == "const" and str(pc.get("ty") or "").endswith("Cns"))
                if not is_tilde:
                    continue
                n += 1
                ikey = "%s@compile_with_cont" % k
                tyop = flds.get("ty")
                tr = op_root(tyop) if tyop else None
                ty_org = flow.origins(tr, ()) if tr is not None else set()
                const_i64 = bool(ty_org) and all(x[0] == "agg" and flow.agg_at(x).get("variant") == "I64" for x in ty_org)
                # `mu~ x. exit x`: the bound value is the exit code of the program, an integer by the typing of exit
                st = flds.get("statement")
                sr = op_root(st) if st else None
                st_org = flow.origins(sr, ()) if sr is not None else set()

                def _is_exit(x, depth=0):
                    if x[0] != "agg" or depth > 3:
                        return False
                    a = flow.agg_at(x)
                    if (a.get("adt") or "").endswith("exit::Exit"):
                        return True
                    if (a.get("adt") or "").endswith("Statement") and a.get("variant") == "Exit":
                        return True
                    return False
                if st_org and all(_is_exit(x) for x in st_org):
                    res.inst("%s@compile_with_cont:exit" % k, t["sp"]["file"], t["sp"]["line"], "ok", "the continuation is `mu~ x. exit x`: an exit code is an integer")
                    continue
                guarded = any(fn.dominates(g, bi) and (torg & ty_org) for g, torg in guards)
                if const_i64 or guarded:
                    res.inst(ikey, t["sp"]["file"], t["sp"]["line"], "ok", "type fixed to i64" if const_i64 else "on the non-codata branch of an is_codata test")
                else:
                    res.inst(ikey, t["sp"]["file"], t["sp"]["line"], "violation")
                    res.violate(ikey, "%s sequences a term before a mu-tilde continuation (call by value) at a type that may be codata: a codata-typed "
                                "binding would be evaluated eagerly and once instead of by name" % k, t["sp"]["file"], t["sp"]["line"])
    res.require_floor(1)
    return res
