"""R-ANNOT: annotations are set on every Ok path (typestate by must-dataflow on the CFG)."""
import re

from .. import grammar
from ..core import RuleResult
from ..facts import AnalysisError
from ..mir import Fn, Flow, op_local, op_root

ANNOT_NAMES = {"ty", "ret_ty", "chi"}


def grammar_annotation_fields(ctx):
    """struct name -> annotation fields (those the parser initialises with None and that are named ty/ret_ty/chi)"""
    g = grammar.load(ctx)
    ann = {}
    for n, p in g.prods.items():
        for a in p["alts"]:
            if not a.action:
                continue
            for m in re.finditer(r"\b([A-Z][A-Za-z0-9]*)\s*\{([^{}]*)\}", a.action):
                for fm in re.finditer(r"\b([a-z_]+)\s*:\s*None\b", m.group(2)):
                    if fm.group(1) in ANNOT_NAMES:
                        ann.setdefault(m.group(1), set()).add(fm.group(1))
    return ann


def _is_some(fn, flow, operand):
    """the operand's value is `Some(..)` on every definition reaching it (flow-insensitive over its origins)"""
    if operand.get("k") == "const":
        return False
    l = op_root(operand)
    if l is None:
        return False
    fields = tuple(e["n"] for e in operand["pl"]["p"] if isinstance(e, dict) and "f" in e)
    origins = flow.origins(l, fields)
    if not origins:
        return False
    for o in origins:
        if o[0] == "agg":
            rv = flow.agg_at(o)
            if not (rv.get("adt") == "core::option::Option" and rv.get("variant") == "Some"):
                return False
        else:
            return False
    return True


def must_assigned(fn, is_assign_stmt, targets):
    """Forward must-analysis: for each (block, stmt index) in targets report whether an assignment matched by
    is_assign_stmt(bi, si, stmt) has happened on every path from entry."""
    n = fn.n
    gen = [False] * n
    for bi in range(n):
        for si, s in enumerate(fn.blocks[bi]["stmts"]):
            if is_assign_stmt(bi, si, s):
                gen[bi] = True
    reach = sorted(fn.reach)
    IN = {b: True for b in reach}
    OUT = {b: True for b in reach}
    IN[0] = False
    OUT[0] = gen[0]
    changed = True
    while changed:
        changed = False
        for b in reach:
            if b == 0:
                continue
            ps = [p for p in fn.pred[b] if p in fn.reach]
            i = all(OUT[p] for p in ps) if ps else False
            o = i or gen[b]
            if i != IN[b] or o != OUT[b]:
                IN[b], OUT[b] = i, o
                changed = True
    out = {}
    for (bi, si) in targets:
        v = IN[bi]
        for sj, s in enumerate(fn.blocks[bi]["stmts"][:si]):
            if is_assign_stmt(bi, sj, s):
                v = True
        out[(bi, si)] = v
    return out


def rule_annot_check(ctx):
    fx = ctx.fx
    res = RuleResult("R-ANNOT", "typestate: every `Check::check` of a Fun node carrying a type/chirality annotation (the fields the "
                     "parser initialises with None) assigns `Some(..)` to that field on every path that returns `Ok(self)` "
                     "(forward must-dataflow over the MIR CFG); check_args does the same for covariable arguments. Discharges the "
                     "'Types should be annotated before translation' expects of fun2core instead of trusting them")
    ann = grammar_annotation_fields(ctx)
    if len(ann) < 10:
        raise AnalysisError("R-ANNOT: only %d annotated node kinds found in the grammar" % len(ann))
    done = set()
    for imp in fx.impls:
        if imp.get("trait") != "fun::typing::check::Check":
            continue
        adt = imp.get("self_adt") or ""
        sname = adt.split("::")[-1]
        if sname not in ann or not adt.startswith("fun::"):
            continue
        mk = [m["key"] for m in imp["methods"] if m["name"] == "check" and m["key"] in fx.fns]
        if not mk:
            continue
        fn = Fn(fx.fns[mk[0]])
        flow = Flow(fn)
        # blocks/statements that build the Ok(self) result
        targets = []
        for d in fn.defs().get(0, []):
            if d["kind"] == "assign" and d["rv"]["k"] == "agg" and d["rv"].get("variant") == "Ok" and d["rv"].get("adt") == "core::result::Result":
                targets.append((d["bi"], d["si"], d["rv"]["ops"][0]))
        if not targets:
            raise AnalysisError("R-ANNOT: %s builds no Ok(..)" % mk[0])
        for field in sorted(ann[sname]):
            done.add((sname, field))
            key = "%s.%s" % (adt, field)
            if sname == "XVar" and field == "chi":
                # XVar::check rejects Some(Cns) and otherwise must end with chi = Some(Prd)
                pass

            def is_assign(bi, si, s, field=field):
                if s["k"] != "assign" or s["lhs"]["l"] != 1:
                    return False
                p = [e for e in s["lhs"]["p"] if e != "*"]
                if len(p) != 1 or not isinstance(p[0], dict) or p[0].get("n") != field:
                    return False
                rv = s["rv"]
                if rv["k"] == "use":
                    return _is_some(fn, flow, rv["op"])
                if rv["k"] == "agg":
                    return rv.get("adt") == "core::option::Option" and rv.get("variant") == "Some"
                return False
            verdict = must_assigned(fn, is_assign, [(b, s) for b, s, _ in targets])
            bad = []
            for (b, s, payload) in targets:
                src = op_root(payload)
                # payload must be self (local 1) possibly moved through temporaries
                org = flow.origins(src, ()) if src is not None else set()
                if any(o[0] == "arg" and o[1] == 1 and not o[2] for o in org):
                    if not verdict[(b, s)]:
                        bad.append(fn.blocks[b]["stmts"][s]["sp"]["line"])
                else:
                    # rebuilt node: the aggregate must carry Some in that field
                    okagg = False
                    for o in org:
                        if o[0] == "agg":
                            rv = flow.agg_at(o)
                            if field in rv.get("fields", []):
                                if _is_some(fn, flow, rv["ops"][rv["fields"].index(field)]):
                                    okagg = True
                    if not okagg:
                        bad.append(fn.blocks[b]["stmts"][s]["sp"]["line"])
            if bad:
                res.inst(key, fn.file, fn.line, "violation")
                res.violate(key, "`Check::check` for %s can return Ok(self) without setting `%s = Some(..)` (Ok built at line %s): "
                            "fun2core's expect(\"Types should be annotated before translation\") panics" % (sname, field, bad), fn.file, bad[0])
            else:
                res.inst(key, fn.file, fn.line, "ok", "%d Ok exits, all preceded by %s = Some(..)" % (len(targets), field))
    missing = {(s, f) for s, fs in ann.items() for f in fs} - done
    for s, f in sorted(missing):
        res.inst("fun::%s.%s" % (s, f), None, None, "violation")
        res.violate("fun::%s.%s" % (s, f), "no `impl Check for %s` found that sets annotation `%s`" % (s, f))
    # check_args: covariable arguments (the assignment may live in a helper that check_args calls)
    f = fx.fn("fun::typing::check::check_args")
    fn = Fn(f)
    setf = set()
    todo, seen_fns = [(f, 0)], {f["key"]}
    while todo:
        g, depth = todo.pop()
        gfn = Fn(g)
        gflow = Flow(gfn)
        for bi, si, s in gfn.stmts():
            if s["k"] == "assign" and s["lhs"]["p"]:
                flds = [e["n"] for e in s["lhs"]["p"] if isinstance(e, dict) and "f" in e]
                if flds and flds[-1] in ("ty", "chi") and "XVar" in (gfn.local_ty(s["lhs"]["l"]) or ""):
                    rv = s["rv"]
                    if (rv["k"] == "agg" and rv.get("variant") == "Some") or (rv["k"] == "use" and _is_some(gfn, gflow, rv["op"])):
                        setf.add(flds[-1])
        for k2, g2 in fx.fns.items():
            if k2.startswith(g["key"] + "::{closure") and k2 not in seen_fns:
                seen_fns.add(k2)
                todo.append((g2, depth))
        if depth < 2:
            for bi, t in gfn.calls():
                k2 = t.get("resolved_key") or (t.get("callee_key") if not t.get("callee_trait") else None)
                if k2 and k2 in fx.fns and fx.fns[k2]["crate"] == "fun" and k2 not in seen_fns and fx.fns[k2].get("impl_trait") != "fun::typing::check::Check":
                    seen_fns.add(k2)
                    todo.append((fx.fns[k2], depth + 1))
    for fld in ("ty", "chi"):
        key = "fun::typing::check::check_args:covariable.%s" % fld
        if fld in setf:
            res.inst(key, fn.file, fn.line, "ok")
        else:
            res.inst(key, fn.file, fn.line, "violation")
            res.violate(key, "check_args no longer annotates covariable arguments with `%s = Some(..)`" % fld, fn.file, fn.line)
    res.require_floor(12)
    return res


def rule_annot_freevars(ctx):
    fx = ctx.fx
    res = RuleResult("R-ANNOT/FreeVars", "every axcut `FreeVars::free_vars` impl of a node with a free_vars_* annotation assigns "
                     "Some(..) to it on every path to its return; `Create::linearize` sets `self.context = Some(..)` on every path "
                     "(discharges the FVANNOT / ENVANNOT panic classes)")
    n = 0
    for imp in fx.impls:
        if imp.get("trait") != "axcut::traits::free_vars::FreeVars":
            continue
        adt = imp.get("self_adt") or ""
        if adt not in fx.adts:
            continue
        fields = [fl["name"] for v in fx.adts[adt]["variants"] for fl in v["fields"] if fl["name"].startswith("free_vars") and fl["ty"].startswith("std::option::Option")]
        if not fields:
            continue
        mk = [m["key"] for m in imp["methods"] if m["name"] == "free_vars" and m["key"] in fx.fns]
        fn = Fn(fx.fns[mk[0]])
        flow = Flow(fn)
        rets = [(b, len(fn.blocks[b]["stmts"])) for b in fn.exits()]
        for field in fields:
            n += 1
            key = "%s.%s" % (adt, field)

            def is_assign(bi, si, s, field=field):
                if s["k"] != "assign" or s["lhs"]["l"] != 1:
                    return False
                p = [e for e in s["lhs"]["p"] if e != "*"]
                if len(p) != 1 or not isinstance(p[0], dict) or p[0].get("n") != field:
                    return False
                rv = s["rv"]
                return (rv["k"] == "agg" and rv.get("variant") == "Some") or (rv["k"] == "use" and _is_some(fn, flow, rv["op"]))
            verdict = must_assigned(fn, is_assign, rets)
            if all(verdict.values()):
                res.inst(key, fn.file, fn.line, "ok")
            else:
                res.inst(key, fn.file, fn.line, "violation")
                res.violate(key, "`FreeVars::free_vars` for %s can return without setting `%s = Some(..)`: linearization's "
                            "expect(\"Free variables must be annotated before linearization\") panics" % (adt.split("::")[-1], field), fn.file, fn.line)
    # Create::linearize sets self.context
    k = "<axcut::syntax::statements::create::Create as axcut::traits::linearize::Linearizing>::linearize"
    fn = Fn(fx.fn(k))
    flow = Flow(fn)

    def is_ctx(bi, si, s):
        if s["k"] != "assign" or s["lhs"]["l"] != 1:
            return False
        p = [e for e in s["lhs"]["p"] if e != "*"]
        if len(p) != 1 or not isinstance(p[0], dict) or p[0].get("n") != "context":
            return False
        rv = s["rv"]
        return (rv["k"] == "agg" and rv.get("variant") == "Some") or (rv["k"] == "use" and _is_some(fn, flow, rv["op"]))
    rets = [(b, len(fn.blocks[b]["stmts"])) for b in fn.exits()]
    verdict = must_assigned(fn, is_ctx, rets)
    if rets and all(verdict.values()):
        res.inst(k + ":context", fn.file, fn.line, "ok")
    else:
        res.inst(k + ":context", fn.file, fn.line, "violation")
        res.violate(k + ":context", "Create::linearize can return without setting `self.context = Some(..)`: code generation's "
                    "expect(\"Closure environment must be annotated\") panics", fn.file, fn.line)
    res.require_floor(7)
    return res
