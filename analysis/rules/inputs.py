"""R-USEALL: a translation function uses every input on every path.

The translations (fun2core, focusing/uniquify in core_lang, core2axcut, linearization in axcut) are defined by cases on the
shape of their input; in each case every by-value input - the binder, the sub-statement, the continuation - ends up in the
output, is handed to another function, is captured by a continuation closure, or is compared with something.  A path on
which an input is merely dropped means that part of the program does not influence the result of the translation: that is
how a shortcut with a missing side condition looks (the dropped variable is the one that should have been compared).  The
inputs that are legitimately ignored on some path (type annotations, the continuation of `exit`/`goto`, ...) are listed in
audit/unused_inputs.toml, one reason each."""
from .. import audit
from ..core import RuleResult
from ..facts import AnalysisError
from ..mir import Fn

ZONE = {"core2axcut", "fun2core", "scc_core_lang", "axcut"}
SCALAR = ("usize", "bool", "i64", "()", "u8", "u32", "u64", "isize", "char")


def _aliases(f, p):
    alias = {p}
    changed = True
    while changed:
        changed = False
        for b in f["blocks"]:
            for s in b["stmts"]:
                if s["k"] != "assign" or s["lhs"]["p"] or s["lhs"]["l"] in alias:
                    continue
                rv = s["rv"]
                o = rv.get("op")
                pl = rv.get("pl") or (o.get("pl") if isinstance(o, dict) else None)
                if rv["k"] in ("use", "ref", "cast", "rawptr") and pl and pl["l"] in alias:
                    alias.add(s["lhs"]["l"])
                    changed = True
            t = b["term"]
            if t["k"] == "call" and t.get("callee_name") in ("deref", "deref_mut", "as_ref", "borrow", "clone", "unwrap_or_clone", "as_slice", "as_str") \
                    and (t.get("callee") or "").startswith(("core::", "alloc::", "std::")) and t["args"] and t["args"][0].get("pl") \
                    and t["args"][0]["pl"]["l"] in alias and t.get("dest") and not t["dest"]["p"] and t["dest"]["l"] not in alias:
                alias.add(t["dest"]["l"])
                changed = True
    return alias


def _use_blocks(f, alias):
    out = set()
    for bi, b in enumerate(f["blocks"]):
        for s in b["stmts"]:
            if s["k"] != "assign":
                continue
            rv = s["rv"]
            if rv["k"] == "discr" and rv.get("pl") and rv["pl"]["l"] in alias:
                out.add(bi)     # the input's own shape decides the path
            ops = [rv.get("op"), rv.get("a"), rv.get("b")] + list(rv.get("ops", []))
            for o in ops:
                if isinstance(o, dict) and o.get("pl") and o["pl"]["l"] in alias:
                    if rv["k"] in ("agg", "binop") or s["lhs"]["l"] == 0 or s["lhs"]["p"]:
                        out.add(bi)
        t = b["term"]
        if t["k"] == "call" and t.get("callee_name") not in ("drop", "drop_in_place"):
            passthrough = t.get("callee_name") in ("deref", "deref_mut", "as_ref", "borrow", "clone", "unwrap_or_clone", "as_slice", "as_str") and \
                (t.get("callee") or "").startswith(("core::", "alloc::", "std::"))
            if not passthrough:
                for a in t["args"]:
                    if a.get("pl") and a["pl"]["l"] in alias:
                        out.add(bi)
    return out


def rule_useall_for(crates, floor):
    def rule(ctx):
        return _useall(ctx, set(crates), floor)
    rule.__name__ = "rule_useall_" + "_".join(sorted(crates))
    return rule


def _useall(ctx, zone, floor):
    fx = ctx.fx
    res = RuleResult("R-USEALL", "every by-value input of a translation function (crates " + ", ".join(sorted(zone)) + "; closures and std-trait impls "
                     "excluded) reaches, on every path to a return, a call, an aggregate, the result or a comparison - it is never merely "
                     "dropped (type annotations excepted); inputs that are legitimately ignored on some path are audited in audit/unused_inputs.toml")
    _, rows = audit.load("unused_inputs")
    n = 0
    used_rows = set()
    for k, f in sorted(fx.fns.items()):
        if f["crate"] not in zone or "{closure" in k or "{promoted" in k:
            continue
        if (f.get("impl_trait") or "").startswith(("core::", "std::", "alloc::", "scc_printer", "miette", "thiserror")):
            continue
        argc = f["argc"]
        names = {v["pl"]["l"]: v["name"] for v in (f.get("vars") or []) if not v["pl"]["p"]}
        fn = None
        for p in range(1, argc + 1):
            ty = f["locals"][p]["ty"]
            if ty in SCALAR or ty.startswith(("&", "fn", "*")):
                continue
            core_adt = f["locals"][p].get("core") or f["locals"][p].get("adt") or ""
            if core_adt.endswith(("::Ty", "::TypeArgs", "::Polarity", "::Chirality")):
                continue        # type annotations: a case that does not need the annotation may ignore it
            fn = fn or Fn(f)
            alias = _aliases(f, p)
            use = _use_blocks(f, alias)
            # an input used for every element of a collection is used by the loop: with no element there is nothing it could
            # influence (the same code written with an iterator adaptor captures the input before the first element is seen)
            from .termination import _natural_loops
            for h, body in _natural_loops(fn, f).items():
                if use & body:
                    use = use | {h}
            seen, work, bad = set(), [0], None
            while work:
                x = work.pop()
                if x in seen or x in use or x not in fn.reach:
                    continue
                seen.add(x)
                if f["blocks"][x]["term"]["k"] == "return":
                    bad = x
                    break
                work.extend(fn.succ[x])
            pname = names.get(p, "_%d" % p)
            if pname.startswith("_"):
                continue        # marked as intentionally unused in the source (rustc's own lint covers the unmarked-and-never-used case)
            n += 1
            ikey = "%s#%s" % (k, pname)
            if bad is None:
                res.inst(ikey, f["sp"]["file"], f["sp"]["line"], "ok", nontrivial=False)
                continue
            row = rows.get(ikey)
            if row:
                used_rows.add(ikey)
                res.inst(ikey, f["sp"]["file"], f["sp"]["line"], "audited", row["reason"])
                continue
            sp = f["blocks"][bad]["term"].get("sp") or f["sp"]
            res.inst(ikey, f["sp"]["file"], f["sp"]["line"], "violation")
            res.violate(ikey, "%s: the input `%s` (%s) is dropped unused on a path to the return at line %s: this part of the program does not "
                        "influence the translation on that path" % (k.split("::")[-1] if not k.startswith("<") else k, pname, ty[:50], sp.get("line")),
                        f["sp"]["file"], f["sp"]["line"])
    res.inst("inputs=%d" % n, None, None, "ok", "%d (function, by-value input) pairs examined, %d audited" % (n, len(used_rows)))
    res.require_floor(floor)
    return res
