"""R-USEALL: a translation function uses every input on every path.

The translations (fun2core, focusing/uniquify in core_lang, core2axcut, linearization in axcut) are defined by cases on the
shape of their input; in each case every by-value input - the binder, the sub-statement, the continuation - ends up in the
output, is handed to another function, is captured by a continuation closure, or is compared with something.  A path on
which an input is merely dropped means that part of the program does not influence the result of the translation: that is
how a shortcut with a missing side condition looks (the dropped variable is the one that should have been compared).  The
inputs that are legitimately ignored on some path (type annotations, the continuation of `exit`/`goto`, ...) are listed in
audit/unused_inputs.toml, one reason each.

The sub-terms of a by-value node are inputs of their own: for a struct parameter (`self: FsCut`) every tree-carrying field is
followed through moves, clone-like calls and the tuples it is packed into for matching (`match (self.producer, self.consumer)`);
an arm whose pattern leaves one side unexamined and whose body never mentions it (`(Mu{..}, _) if guard => translate(s)`) is a
path on which that sub-term is dropped.  Discriminant reads that only take a value apart for dropping are not an inspection."""
from .. import audit
from ..core import RuleResult
from ..facts import AnalysisError
from ..mir import Fn

ZONE = {"core2axcut", "fun2core", "scc_core_lang", "axcut"}
SCALAR = ("usize", "bool", "i64", "()", "u8", "u32", "u64", "isize", "char")


def _aliases(f, p):
    alias = {p}
    changed = True
    while changed:
        changed = False
        for b in f["blocks"]:
            for s in b["stmts"]:
                if s["k"] != "assign" or s["lhs"]["p"] or s["lhs"]["l"] in alias:
                    continue
                rv = s["rv"]
                o = rv.get("op")
                pl = rv.get("pl") or (o.get("pl") if isinstance(o, dict) else None)
                if rv["k"] in ("use", "ref", "cast", "rawptr") and pl and pl["l"] in alias:
                    alias.add(s["lhs"]["l"])
                    changed = True
            t = b["term"]
            if t["k"] == "call" and t.get("callee_name") in ("deref", "deref_mut", "as_ref", "borrow", "clone", "unwrap_or_clone", "as_slice", "as_str") \
                    and (t.get("callee") or "").startswith(("core::", "alloc::", "std::")) and t["args"] and t["args"][0].get("pl") \
                    and t["args"][0]["pl"]["l"] in alias and t.get("dest") and not t["dest"]["p"] and t["dest"]["l"] not in alias:
                alias.add(t["dest"]["l"])
                changed = True
    return alias


def _use_blocks(f, alias):
    out = set()
    for bi, b in enumerate(f["blocks"]):
        for s in b["stmts"]:
            if s["k"] != "assign":
                continue
            rv = s["rv"]
            if rv["k"] == "discr" and rv.get("pl") and rv["pl"]["l"] in alias:
                out.add(bi)     # the input's own shape decides the path
            ops = [rv.get("op"), rv.get("a"), rv.get("b")] + list(rv.get("ops", []))
            for o in ops:
                if isinstance(o, dict) and o.get("pl") and o["pl"]["l"] in alias:
                    if rv["k"] in ("agg", "binop") or s["lhs"]["l"] == 0 or s["lhs"]["p"]:
                        out.add(bi)
        t = b["term"]
        if t["k"] == "call" and t.get("callee_name") not in ("drop", "drop_in_place"):
            passthrough = t.get("callee_name") in ("deref", "deref_mut", "as_ref", "borrow", "clone", "unwrap_or_clone", "as_slice", "as_str") and \
                (t.get("callee") or "").startswith(("core::", "alloc::", "std::"))
            if not passthrough:
                for a in t["args"]:
                    if a.get("pl") and a["pl"]["l"] in alias:
                        out.add(bi)
    return out


_PASS = ("deref", "deref_mut", "as_ref", "borrow", "clone", "unwrap_or_clone", "as_slice", "as_str")


def _component_dropped(f, p, fld):
    """A field of a by-value struct parameter as an input of its own: the block of a return reached on a path on which the field -
    followed through moves, clone-like calls and tuples it is packed into (`match (self.producer, self.consumer) { (.., _) => ..`) -
    is neither inspected, moved apart, handed to a call nor built into a value; None if there is no such path."""
    from .termination import _natural_loops
    PASS = _PASS
    fn=Fn(f)
    whole=set()            # locals that are the input
    comps={(p,fld)}        # (local, first field name/index) that hold the input
    def is_comp(pl):
        if not pl: return False
        if pl["l"] in whole: return True
        if pl["l"]==p and not any(isinstance(e,dict) and "f" in e for e in pl["p"]): return True
        for e in pl["p"]:
            if isinstance(e,dict) and "f" in e:
                return (pl["l"], e["n"]) in comps
            if e=="*" or (isinstance(e,dict) and "dc" in e): continue
            break
        return False
    changed=True
    while changed:
        changed=False
        for b in f["blocks"]:
            for s in b["stmts"]:
                if s["k"]!="assign": continue
                rv=s["rv"]; lhs=s["lhs"]
                o=rv.get("op"); pl=rv.get("pl") or (o.get("pl") if isinstance(o,dict) else None)
                if rv["k"] in ("use","ref","cast") and is_comp(pl) and not lhs["p"] and lhs["l"] not in whole:
                    # only exact component (no deeper projection) becomes a whole alias
                    deeper=[e for e in pl["p"] if isinstance(e,dict) and "f" in e]
                    if pl["l"] in whole and not deeper or (pl["l"] not in whole and len(deeper)==1):
                        whole.add(lhs["l"]); changed=True
                if rv["k"] in ("use",) and pl and not pl["p"] and not lhs["p"] and pl["l"] not in whole:
                    # the tuple the component was packed into is moved as a whole
                    for (cl, ci) in list(comps):
                        if cl == pl["l"] and cl != p and (lhs["l"], ci) not in comps:
                            comps.add((lhs["l"], ci)); changed=True
                if rv["k"]=="agg" and rv.get("agg")=="tuple" and not lhs["p"]:
                    for i,op in enumerate(rv["ops"]):
                        if op.get("pl") and not op["pl"]["p"] and op["pl"]["l"] in whole and (lhs["l"],str(i)) not in comps:
                            comps.add((lhs["l"],str(i))); changed=True
            t=b["term"]
            if t["k"]=="call" and t.get("callee_name") in PASS and (t.get("callee") or "").startswith(("core::","alloc::","std::")) and t["args"] and t["args"][0].get("pl") and t.get("dest") and not t["dest"]["p"]:
                pl=t["args"][0]["pl"]
                deeper=[e for e in pl["p"] if isinstance(e,dict) and "f" in e]
                if is_comp(pl) and (pl["l"] in whole and not deeper or (pl["l"] not in whole and len(deeper)==1)) and t["dest"]["l"] not in whole:
                    whole.add(t["dest"]["l"]); changed=True
    ladder_memo = {}

    def drop_ladder(b0):
        """everything reachable from the block only drops values and returns: the discriminant is read to take the value apart for
        dropping (drop elaboration of a partially moved tuple), not to decide what the translation is"""
        if b0 in ladder_memo:
            return ladder_memo[b0]
        seen_, work_ = set(), [b0]
        ok_ = True
        while work_ and ok_:
            x_ = work_.pop()
            if x_ in seen_:
                continue
            seen_.add(x_)
            blk = f["blocks"][x_]
            for s_ in blk["stmts"]:
                if s_["k"] != "assign":
                    continue
                rv_ = s_["rv"]
                if rv_["k"] == "discr" or (rv_["k"] == "use" and isinstance(rv_.get("op"), dict) and rv_["op"].get("k") == "const"):
                    continue
                if rv_["k"] in ("use", "ref") and x_ != b0 and False:
                    continue
                ok_ = False
            if blk["term"]["k"] not in ("drop", "goto", "switch", "return", "resume", "unreachable"):
                ok_ = False
            work_.extend(fn.succ[x_])
        ladder_memo[b0] = ok_
        return ok_
    use=set()
    for bi,b in enumerate(f["blocks"]):
        for s in b["stmts"]:
            if s["k"]!="assign": continue
            rv=s["rv"]
            if rv["k"]=="discr" and is_comp(rv.get("pl")) and not drop_ladder(bi): use.add(bi)
            ops=[rv.get("op"),rv.get("a"),rv.get("b")]+list(rv.get("ops",[]))
            if rv.get("pl") and rv["k"] in ("ref","len"): ops.append({"pl":rv["pl"]})
            for o in ops:
                if isinstance(o,dict) and is_comp(o.get("pl")):
                    pl=o["pl"]
                    # moving the component itself into a tuple or alias is not a use; anything else is
                    deeper=[e for e in pl["p"] if isinstance(e,dict) and "f" in e]
                    exact = (pl["l"] in whole and not deeper) or (pl["l"] not in whole and len(deeper)==1 and not (pl["l"]==p and not deeper))
                    if exact and (rv["k"] in ("use","ref","cast") and not s["lhs"]["p"] and s["lhs"]["l"]!=0 or (rv["k"]=="agg" and rv.get("agg")=="tuple")):
                        continue
                    use.add(bi)
        t=b["term"]
        if t["k"]=="call":
            passthrough=t.get("callee_name") in PASS and (t.get("callee") or "").startswith(("core::","alloc::","std::"))
            for a in t["args"]:
                apl=a.get("pl")
                if apl and not apl["p"] and apl["l"]!=p and any(cl==apl["l"] for cl,_ci in comps):
                    use.add(bi)     # the tuple the component is packed into is handed to a call
                if is_comp(a.get("pl")):
                    pl=a["pl"]; deeper=[e for e in pl["p"] if isinstance(e,dict) and "f" in e]
                    exact = (pl["l"] in whole and not deeper) or (pl["l"] not in whole and len(deeper)==1 and not (pl["l"]==p and not deeper))
                    if passthrough and exact: continue
                    use.add(bi)
        if t["k"]=="switch":
            d=t.get("discr") or {}
            if isinstance(d,dict) and is_comp(d.get("pl")): use.add(bi)
    for h,body in _natural_loops(fn,f).items():
        if use & body: use.add(h)
    seen,work,bad=set(),[0],None
    while work:
        x=work.pop()
        if x in seen or x in use or x not in fn.reach: continue
        seen.add(x)
        if f["blocks"][x]["term"]["k"]=="return": bad=x; break
        work.extend(fn.succ[x])
    return bad


def rule_useall_for(crates, floor):
    def rule(ctx):
        return _useall(ctx, set(crates), floor)
    rule.__name__ = "rule_useall_" + "_".join(sorted(crates))
    return rule


def _useall(ctx, zone, floor):
    fx = ctx.fx
    res = RuleResult("R-USEALL", "every by-value input of a translation function (crates " + ", ".join(sorted(zone)) + "; closures and std-trait impls "
                     "excluded) reaches, on every path to a return, a call, an aggregate, the result or a comparison - it is never merely "
                     "dropped (type annotations excepted); inputs that are legitimately ignored on some path are audited in audit/unused_inputs.toml")
    _, rows = audit.load("unused_inputs")
    n = 0
    used_rows = set()
    for k, f in sorted(fx.fns.items()):
        if f["crate"] not in zone or "{closure" in k or "{promoted" in k:
            continue
        if (f.get("impl_trait") or "").startswith(("core::", "std::", "alloc::", "scc_printer", "miette", "thiserror")):
            continue
        argc = f["argc"]
        names = {v["pl"]["l"]: v["name"] for v in (f.get("vars") or []) if not v["pl"]["p"]}
        fn = None
        for p in range(1, argc + 1):
            ty = f["locals"][p]["ty"]
            if ty in SCALAR or ty.startswith(("&", "fn", "*", "for<")) or " fn(" in ty[:40]:
                continue        # references, raw pointers, function pointers
            core_adt = f["locals"][p].get("core") or f["locals"][p].get("adt") or ""
            if core_adt.endswith(("::Ty", "::TypeArgs", "::Polarity", "::Chirality")):
                continue        # type annotations: a case that does not need the annotation may ignore it
            fn = fn or Fn(f)
            alias = _aliases(f, p)
            use = _use_blocks(f, alias)
            # an input used for every element of a collection is used by the loop: with no element there is nothing it could
            # influence (the same code written with an iterator adaptor captures the input before the first element is seen)
            from .termination import _natural_loops
            for h, body in _natural_loops(fn, f).items():
                if use & body:
                    use = use | {h}
            seen, work, bad = set(), [0], None
            while work:
                x = work.pop()
                if x in seen or x in use or x not in fn.reach:
                    continue
                seen.add(x)
                if f["blocks"][x]["term"]["k"] == "return":
                    bad = x
                    break
                work.extend(fn.succ[x])
            pname = names.get(p, "_%d" % p)
            if pname.startswith("_"):
                continue        # marked as intentionally unused in the source (rustc's own lint covers the unmarked-and-never-used case)
            n += 1
            ikey = "%s#%s" % (k, pname)
            if bad is None:
                res.inst(ikey, f["sp"]["file"], f["sp"]["line"], "ok", nontrivial=False)
                continue
            row = rows.get(ikey)
            if row:
                used_rows.add(ikey)
                res.inst(ikey, f["sp"]["file"], f["sp"]["line"], "audited", row["reason"])
                continue
            sp = f["blocks"][bad]["term"].get("sp") or f["sp"]
            res.inst(ikey, f["sp"]["file"], f["sp"]["line"], "violation")
            res.violate(ikey, "%s: the input `%s` (%s) is dropped unused on a path to the return at line %s: this part of the program does not "
                        "influence the translation on that path" % (k.split("::")[-1] if not k.startswith("<") else k, pname, ty[:50], sp.get("line")),
                        f["sp"]["file"], f["sp"]["line"])
    # the fields of a by-value node (`self`) are inputs of their own: each sub-term must matter on every path
    from .termination import _tree_carrying
    tc, _rec = _tree_carrying(fx)
    n_comp = 0
    for k, f in sorted(fx.fns.items()):
        if f["crate"] not in zone or "{closure" in k or "{promoted" in k:
            continue
        if (f.get("impl_trait") or "").startswith(("core::", "std::", "alloc::", "scc_printer", "miette", "thiserror")):
            continue
        names = {v["pl"]["l"]: v["name"] for v in (f.get("vars") or []) if not v["pl"]["p"]}
        for p in range(1, f["argc"] + 1):
            loc = f["locals"][p]
            if loc["ty"].startswith(("&", "fn", "*")) or names.get(p, "_").startswith("_"):
                continue
            A = fx.adts.get(loc.get("adt") or "")
            if not A or A["kind"] != "struct" or (loc.get("adt") or "").split("::")[0] not in fx.crates:
                continue
            for fd in A["variants"][0]["fields"]:
                c = fd.get("core") or fd.get("adt")
                if not ((c in tc) or fd.get("is_param")) or (c or "").endswith(("::Ty", "::TypeArgs", "::Chirality")):
                    continue
                if fd.get("is_param") and fd["name"] in ("prdcns", "dat", "xtor"):
                    continue        # chirality / polarity markers
                n_comp += 1
                ikey = "%s#%s.%s" % (k, names.get(p, "_%d" % p), fd["name"])
                bad = _component_dropped(f, p, fd["name"])
                if bad is None:
                    res.inst(ikey, f["sp"]["file"], f["sp"]["line"], "ok", nontrivial=False)
                    continue
                row = rows.get(ikey)
                if row:
                    used_rows.add(ikey)
                    res.inst(ikey, f["sp"]["file"], f["sp"]["line"], "audited", row["reason"])
                    continue
                sp = f["blocks"][bad]["term"].get("sp") or f["sp"]
                res.inst(ikey, f["sp"]["file"], f["sp"]["line"], "violation")
                res.violate(ikey, "%s: the sub-term `%s.%s` of the input is dropped unused on a path to the return at line %s: this part of the "
                            "program does not influence the translation on that path" % (k.split("::")[-1] if not k.startswith("<") else k, names.get(p, "_%d" % p), fd["name"], sp.get("line")),
                            f["sp"]["file"], f["sp"]["line"])
    res.inst("inputs=%d" % n, None, None, "ok", "%d (function, by-value input) pairs and %d (function, input, field) triples examined, %d audited" % (n, n_comp, len(used_rows)))
    res.require_floor(floor)
    return res
