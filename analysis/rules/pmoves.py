"""C11: explicit substitutions as simultaneous assignments - the backend-specific pieces of the parallel-move scheme and the
order/ref-count discipline of Substitute, decided on folded emission lists and the symbolic machine."""
import itertools

from .. import backend, isa, interp
from ..core import RuleResult
from ..facts import AnalysisError
from ..interp import Adt, Sym, Vec
from ..mir import Fn
from .codegen import Target, temporary_at, check_effect, _init_machine, _read_loc, _p

TREE = "axcut2backend::parallel_moves::Tree"
ROOT = "axcut2backend::parallel_moves::Root"


def _trees(labels, max_nodes):
    """all trees (as nested tuples) whose nodes carry a label from `labels`, with BackEdge leaves, up to max_nodes nodes"""
    memo = {}

    def forests(n):
        # list of forests (tuples of trees) with exactly n nodes in total, at most 2 trees
        if n in memo:
            return memo[n]
        out = [()] if n == 0 else []
        for k in range(1, n + 1):
            for t in trees_exact(k):
                if n - k == 0:
                    out.append((t,))
                else:
                    for t2 in trees_exact(n - k):
                        out.append((t, t2))
        memo[n] = out
        return out

    tmemo = {}

    def trees_exact(n):
        if n in tmemo:
            return tmemo[n]
        out = []
        if n == 1:
            for l in labels:
                out.append((l, ()))
                out.append((l, ("BE",)))
        else:
            for l in labels:
                for fo in forests(n - 1):
                    out.append((l, fo))
                    out.append((l, fo + ("BE",)))
        tmemo[n] = out
        return out
    res = []
    for n in range(0, max_nodes + 1):
        res.extend(forests(n))
    return res


def _has_spill_edge(parent_is_spill, root_is_spill, forest):
    for t in forest:
        if t == "BE":
            if parent_is_spill and root_is_spill:
                return True
            continue
        lab, kids = t
        if parent_is_spill and lab == "S":
            return True
        if _has_spill_edge(lab == "S", root_is_spill, kids):
            return True
    return False


def spill_edge_facts(ctx):
    """backend -> True when contains_spill_edge can answer false for a tree that contains a spill-to-spill edge"""
    def build():
        res = _spill_edge_rule(ctx)
        return {i["key"].split(":")[0]: (i["verdict"] != "ok") for i in res.instances}, res
    return ctx.memo("spill-edge-facts", build)


def _spill_edge_rule(ctx):
    res = RuleResult("R-SPILLEDGE", "contains_spill_edge (the guard that decides where a cycle's value is parked) folded over every "
                     "move tree with up to 4 nodes and either kind of root: it must return true exactly when the tree contains an "
                     "edge between two spill slots (including the back edge to a spilled root) - whenever such an edge exists the "
                     "spill-to-spill `mov` overwrites the scratch register")
    for b in ("x86_64", "aarch64"):
        tg = Target(ctx, b)
        key = [k for k in ctx.fx.fns if k.endswith(">::contains_spill_edge") and k.startswith("<%s::" % tg.crate)]
        if len(key) != 1:
            raise AnalysisError("contains_spill_edge of %s not found" % b)
        key = key[0]
        f = ctx.fx.fns[key]
        regs = [temporary_at(tg, 1), temporary_at(tg, 3), temporary_at(tg, 5), temporary_at(tg, 7), temporary_at(tg, 9)]
        spills = [tg.spill(1), tg.spill(2), tg.spill(3), tg.spill(4), tg.spill(5)]
        cnt = {"R": 0, "S": 0}

        def build(t):
            if t == "BE":
                return Adt(TREE, "BackEdge", {})
            lab, kids = t
            pool = regs if lab == "R" else spills
            v = pool[cnt[lab] % len(pool)]
            cnt[lab] += 1
            return Adt(TREE, "Node", {"0": v, "1": Vec([build(k) for k in kids])})
        n = 0
        bad = []
        for forest in _trees(("R", "S"), 5 if ctx.tier == "thorough" else 4):
            for rootlab in ("R", "S"):
                cnt["R"], cnt["S"] = 1, 1
                rootv = regs[0] if rootlab == "R" else spills[0]
                rv = Adt(ROOT, "StartNode", {"0": rootv, "1": Vec([build(t) for t in forest])})
                _, outs = backend.fold(ctx, key, [rv])
                n += 1
                got = outs[0].result if len(outs) == 1 else None
                if got is not None and not isinstance(got, bool):
                    raise AnalysisError("R-CYCLE: contains_spill_edge of %s could not be folded on a concrete tree (%r): the analysis cannot follow this code" % (b, got))
                want = _has_spill_edge(rootlab == "S", rootlab == "S", forest)
                if got is not want:
                    # returning true without a spill edge is harmless (slower parking), false with one is the defect
                    if want and got is not True:
                        bad.append((rootlab, forest, got))
        ikey = "%s:contains_spill_edge" % b
        if bad:
            rootlab, forest, got = bad[0]
            res.inst(ikey, f["sp"]["file"], f["sp"]["line"], "violation")
            res.violate(ikey, "contains_spill_edge returns %r for root %s with trees %s although it contains a spill-to-spill edge "
                        "[%d of %d trees]" % (got, rootlab, forest, len(bad), n), f["sp"]["file"], f["sp"]["line"])
        else:
            res.inst(ikey, f["sp"]["file"], f["sp"]["line"], "ok", "%d (root, forest) cases" % n)
    res.violations = []
    return res


def rule_cycle(ctx):
    res = RuleResult("R-CYCLE", "cycle scratch discipline on the symbolic machine, per backend: store_temporary(x, flag) parks x's value; "
                     "every kind of `mov` that can occur while it is parked (register/spill sources and targets; spill-to-spill "
                     "only when flag = contains_spill_move) leaves the parked value intact; restore_temporary(r, flag) then puts "
                     "it into r; nothing but the moved target, scratch registers and the reserved scratch slot changes. Subsumes "
                     "the store/restore mirror and the scratch-disjointness rules")
    guard_may_miss, se = spill_edge_facts(ctx)
    for i in se.instances:
        res.inst("guard:" + i["key"], i["file"], i["line"], "ok",
                 "contains_spill_edge is exact (%s)" % i["note"] if i["verdict"] == "ok" else
                 "contains_spill_edge can answer false although a spill-to-spill edge exists: spill-to-spill moves are therefore checked with the flag unset as well")
    for b in ("x86_64", "aarch64", "rv64"):
        tg = Target(ctx, b)
        pm = "<%s::Backend as axcut2backend::parallel_moves::ParallelMoves<" % tg.crate
        st = [k for k in ctx.fx.fns if k.startswith(pm) and k.endswith(">::store_temporary")]
        rs = [k for k in ctx.fx.fns if k.startswith(pm) and k.endswith(">::restore_temporary")]
        if len(st) != 1 or len(rs) != 1:
            raise AnalysisError("store/restore_temporary of %s not found" % b)
        movk = tg.method("mov")
        f = ctx.fx.fns[st[0]]
        if b == "rv64":
            P = [temporary_at(tg, p) for p in (1, 3, 5, 7)]
        else:
            nreg = (tg.consts["REGISTER_NUM"]["val"] - tg.reserved)
            P = [temporary_at(tg, 1), temporary_at(tg, 2), temporary_at(tg, 5), temporary_at(tg, nreg + 1), temporary_at(tg, nreg + 2), temporary_at(tg, nreg + 5)]

        def is_spill(t):
            return b != "rv64" and t.variant == "Spill"

        def emit(key, args, vi):
            v = Vec()
            a = list(args)
            a.insert(vi, v)
            _, outs = backend.fold(ctx, key, a)
            outs = [o for o in outs if not getattr(o, "diverged", None)]
            return outs[0].final.locals[vi + 1].items if len(outs) == 1 else None
        n = 0
        bad = []
        for x, r in itertools.product(P, P):
            for flag in (False, True):
                if b == "rv64" and flag:
                    continue
                movs = [(a, s) for a, s in itertools.product(P, P) if a != s and a != x and s != r]
                for mv in movs + [None]:
                    if mv is not None and not flag and is_spill(mv[0]) and is_spill(mv[1]) and not guard_may_miss.get(b, True):
                        continue        # a spill-to-spill move only happens when the flag is set (contains_spill_edge is exact)
                    codes_s = emit(st[0], [x, flag], 2)
                    codes_m = emit(movk, [mv[0], mv[1]], 2) if mv else []
                    codes_r = emit(rs[0], [r, flag], 2)
                    n += 1
                    if codes_s is None or codes_m is None or codes_r is None:
                        bad.append((x, r, flag, mv, ["the emission function panics on this input"]))
                        continue
                    locs = {tg.loc_of(t) for t in P}
                    m, init = _init_machine(b, locs)
                    isa.run(ctx, b, codes_s, m)
                    isa.run(ctx, b, codes_m, m)
                    isa.run(ctx, b, codes_r, m)
                    pr = list(m.errors)
                    want = init[tg.loc_of(x)]
                    got = _read_loc(m, tg.loc_of(r))
                    if got != want:
                        pr.append("%s holds %s after restore, expected the value parked from %s" % (_p(tg, r), isa.show(got), _p(tg, x)))
                    # frame: everything except r, the mov target, scratch and the reserved slot is unchanged
                    allowed = {tg.loc_of(r)} | ({tg.loc_of(mv[0])} if mv else set())
                    for loc in locs:
                        if loc in allowed:
                            continue
                        if _read_loc(m, loc) != init[loc]:
                            pr.append("%s clobbered" % (loc[1] if loc[0] == "reg" else "slot%+d" % loc[1][1]))
                    if mv and mv[0] != r:
                        if _read_loc(m, tg.loc_of(mv[0])) != init[tg.loc_of(mv[1])]:
                            pr.append("intermediate move target wrong")
                    if m.r(isa.SP[b]) != ("addr", "sp0", 0):
                        pr.append("stack pointer changed")
                    if pr:
                        bad.append((x, r, flag, mv, pr))
        ikey = "%s:store-move-restore" % b
        if bad:
            x, r, flag, mv, pr = bad[0]
            res.inst(ikey, f["sp"]["file"], f["sp"]["line"], "violation")
            res.violate(ikey, "store_temporary(%s, spill_move=%s)%s; restore_temporary(%s): %s [%d of %d cases wrong]" %
                        (_p(tg, x), flag, "; mov(%s <- %s)" % (_p(tg, mv[0]), _p(tg, mv[1])) if mv else "", _p(tg, r), "; ".join(pr[:3]), len(bad), n),
                        f["sp"]["file"], f["sp"]["line"])
        else:
            res.inst(ikey, f["sp"]["file"], f["sp"]["line"], "ok", "%d (parked, restored, flag, intermediate move) cases" % n)
    res.require_floor(5)
    return res


def rule_subst_order(ctx):
    fx = ctx.fx
    res = RuleResult("R-ORDER", "Substitute::code_statement updates reference counts before moving (code_weakening_contraction dominates "
                     "code_exchange), both from the one transpose(rearrange, old context) map and the former with the old context; "
                     "update_reference_count folds to: 0 targets -> erase_block, 1 -> nothing, n -> share_block_n(n - 1)")
    key = "<axcut::syntax::statements::substitute::Substitute as axcut2backend::statements::code_statement::CodeStatement>::code_statement"
    fn = Fn(fx.fn(key))
    from ..mir import Flow, op_root
    flow = Flow(fn)
    wc = [(bi, t) for bi, t in fn.calls() if t.get("callee_name") == "code_weakening_contraction"]
    ex = [(bi, t) for bi, t in fn.calls() if t.get("callee_name") == "code_exchange"]
    tr = [(bi, t) for bi, t in fn.calls() if t.get("callee_name") == "transpose"]
    ikey = "Substitute:refcounts-before-moves"
    if not wc or not ex or not tr:
        res.inst(ikey, fn.file, fn.line, "violation")
        res.violate(ikey, "Substitute::code_statement no longer calls transpose, code_weakening_contraction and code_exchange", fn.file, fn.line)
    else:
        ok = all(any(fn.dominates(w, e) and w != e for w, _ in wc) for e, _ in ex)
        same_map = True
        for _, t in wc + ex:
            r = op_root(t["args"][0])
            org = flow.origins(r, ())
            if not any(o[0] == "call" and fn.term(o[1]).get("callee_name") == "transpose" for o in org):
                same_map = False
        # old context: second argument of weakening_contraction derives from the function's `context` parameter
        oldctx = True
        for _, t in wc:
            r = op_root(t["args"][1])
            org = flow.origins(r, ())
            if not any(o[0] == "arg" for o in org):
                oldctx = False
        if ok and same_map and oldctx:
            res.inst(ikey, fn.file, fn.line, "ok")
        else:
            res.inst(ikey, fn.file, fn.line, "violation")
            res.violate(ikey, "Substitute::code_statement: %s" % "; ".join(
                m for c, m in ((ok, "code_exchange is not preceded by code_weakening_contraction on every path"),
                               (same_map, "the two phases do not use the one transpose(..) map"),
                               (oldctx, "reference counts are updated with a context other than the old one")) if not c), fn.file, fn.line)
    # update_reference_count folded
    # the function that turns a target count into erase / nothing / share: the one of axcut2backend that calls both erase_block and
    # share_block_n (code_weakening_contraction::update_reference_count on the pinned tree)
    ukey = [k for k, g in fx.fns.items() if g["crate"] == "axcut2backend" and "{closure" not in k and
            {"erase_block", "share_block_n"} <= {b_["term"].get("callee_name") for b_ in g["blocks"] if b_["term"]["k"] == "call"}]
    if len(ukey) != 1:
        raise AnalysisError("update_reference_count not found")
    f = fx.fns[ukey[0]]
    for count, want in ((0, ("erase_block", None)), (1, None), (2, ("share_block_n", 1)), (3, ("share_block_n", 2)), (6, ("share_block_n", 5))):
        events = []

        def hook(I, p, fr, t, args, events=events):
            n = t.get("callee_name")
            if n in ("erase_block", "share_block_n", "share_block"):
                events.append((n, args[1] if n == "share_block_n" else None))
                return Adt(None, None, {})
            if n in ("variable_temporary",):
                return Sym("tmp")
            if n in ("comment", "print_to_string"):
                return Sym("c")
            return NotImplemented
        var = Adt("axcut::syntax::names::Identifier", "Identifier", {"name": "v", "id": 1})
        I = interp.Interp(fx, hooks=[hook], max_depth=2)
        I.run(f, [var, Sym("ctx"), count, Vec()])
        ikey = "update_reference_count(%d)" % count
        got = events[0] if len(events) == 1 else (None if not events else tuple(events))
        if got == want:
            res.inst(ikey, f["sp"]["file"], f["sp"]["line"], "ok", "%s" % (want,))
        else:
            res.inst(ikey, f["sp"]["file"], f["sp"]["line"], "violation")
            res.violate(ikey, "a variable with %d target(s) leads to %s, expected %s" % (count, got, want), f["sp"]["file"], f["sp"]["line"])
    res.require_floor(6)
    return res


def rule_pmoves(ctx):
    """R-PMOVES: the generic parallel-moves algorithm instantiated at each backend, over all small assignment maps"""
    import itertools
    from ..interp import SetVal, MapVal
    res = RuleResult("R-PMOVES", "simultaneous-assignment semantics of axcut2backend::parallel_moves, decided for every assignment map over a "
                     "small set of temporaries: the generic algorithm (spanning forest, cycle breaking through the scratch register / "
                     "reserved slot, move order) is folded from its MIR at each backend's instance into the move list it emits, the list "
                     "is run on the symbolic machine, and every target must end up with the *old* value of its source while every "
                     "temporary that is not a target keeps its value. Quick: all 64 maps over 3 temporaries (self-moves, chains, "
                     "fan-out, cycles, cycles with tails) in every register/spill placement; thorough: all 625 maps over 4 temporaries")
    key = "axcut2backend::parallel_moves::parallel_moves"
    if key not in ctx.fx.fns:
        raise AnalysisError("R-PMOVES: %s not found" % key)
    f = ctx.fx.fns[key]
    thorough = ctx.tier == "thorough"
    for b in ("x86_64", "aarch64", "rv64"):
        tg = Target(ctx, b)
        reg_num = tg.consts["REGISTER_NUM"]["val"]
        nreg_pos = reg_num - tg.reserved            # environment positions held in registers
        k = 4 if thorough else 3
        if b == "rv64":
            placements = [tuple(range(1, 1 + 2 * k, 2))]
        else:
            # positions (Snd temporaries of consecutive variables) chosen so that every register/spill pattern occurs
            regs = [1, 3, 5, 7]
            spills = [nreg_pos + 1, nreg_pos + 3, nreg_pos + 5, nreg_pos + 7]
            placements = []
            for pat in itertools.product("rs", repeat=k):
                ri, si = iter(regs), iter(spills)
                placements.append(tuple(next(ri) if c == "r" else next(si) for c in pat))
            if not thorough:
                placements = [p for i, p in enumerate(placements)]
        n = 0
        bad = []
        for pos in placements:
            T = [temporary_at(tg, p) for p in pos]
            locs = [tg.loc_of(t) for t in T]
            for srcs in itertools.product(range(-1, k), repeat=k):
                # target i receives the value of temporary srcs[i] (-1: not a target)
                amap = {}
                for i, sidx in enumerate(srcs):
                    if sidx >= 0:
                        amap.setdefault(sidx, []).append(i)
                m = MapVal([(T[sidx], SetVal([T[i] for i in tl])) for sidx, tl in sorted(amap.items())])
                _, outs = backend.fold(ctx, key, [m, Vec()], type_env={"Backend": tg.crate + "::Backend"}, max_steps=200000)
                n += 1
                msg = backend.fold_verdict(outs, "R-PMOVES: parallel_moves at %s" % b)
                if msg:
                    bad.append((pos, srcs, [msg], []))
                    continue
                outs = [o for o in outs if not getattr(o, "diverged", None)]
                if not isinstance(outs[0].final.locals[2], Vec):
                    raise AnalysisError("R-PMOVES: the instruction list of parallel_moves is not concrete")
                codes = outs[0].final.locals[2].items
                mach, init = _init_machine(b, set(locs))
                isa.run(ctx, b, codes, mach)
                pr = list(mach.errors)
                for i, l in enumerate(locs):
                    want = init[locs[srcs[i]]] if srcs[i] >= 0 else init[l]
                    got = _read_loc(mach, l)
                    if got != want:
                        pr.append("%s ends with %s, expected the old value of %s" % (_pl(l), isa.show(got), _pl(locs[srcs[i]] if srcs[i] >= 0 else l)))
                sp = isa.SP[b]
                if mach.r(sp) != ("addr", "sp0", 0):
                    pr.append("stack pointer changed")
                if [e for e in mach.events if e[0] in ("call", "ret", "jmp", "jcc")]:
                    pr.append("control transfer in a move sequence")
                if pr:
                    bad.append((pos, srcs, pr, codes))
        ikey = b
        if bad:
            pos, srcs, pr, codes = bad[0]
            locs = [tg.loc_of(temporary_at(tg, p)) for p in pos]
            desc = ", ".join("%s := %s" % (_pl(locs[i]), _pl(locs[s])) for i, s in enumerate(srcs) if s >= 0)
            res.inst(ikey, f["sp"]["file"], f["sp"]["line"], "violation", "%d of %d maps wrong" % (len(bad), n))
            res.violate(ikey, "%s: parallel assignment {%s}: %s  [emitted: %s; %d of %d maps wrong]" %
                        (b, desc, "; ".join(pr[:3]), " | ".join(repr(c) for c in codes if getattr(c, "variant", "") != "COMMENT")[:300], len(bad), n),
                        f["sp"]["file"], f["sp"]["line"])
        else:
            res.inst(ikey, f["sp"]["file"], f["sp"]["line"], "ok", "%d assignment maps over %d temporaries in %d placements" % (n, k, len(placements)))
    res.require_floor(3)
    return res


def _pl(l):
    return l[1] if l[0] == "reg" else "[sp%+d]" % l[1][1]
