"""R-WIRE: stage wiring (driver chain, backend tails) and intra-stage order."""
from ..core import RuleResult
from ..facts import AnalysisError
from ..mir import Fn, Flow, op_root, place_fields

D = "driver::Driver::"

# stage function, input call, transform call, mode
CHAIN = [
    ("parsed", D + "source", "fun::parser::parse_module", "value"),
    ("checked", D + "parsed", "fun::syntax::program::Program::check", "value"),
    ("compiled", D + "checked", "fun2core::program::compile_prog", "value"),
    ("uniquified", D + "compiled", "scc_core_lang::syntax::program::Prog<Def>::uniquify", "inplace"),
    ("focused", D + "compiled", "scc_core_lang::syntax::program::Prog<Def>::focus", "value"),
    ("shrunk", D + "focused", "core2axcut::program::shrink_prog", "value"),
    ("linearized", D + "shrunk", "axcut::syntax::program::Prog::linearize", "inplace"),
]
BACKENDS = [
    ("print_x86_64", "axcut2x86_64::Backend", "axcut2x86_64::into_routine::into_x86_64_routine"),
    ("print_aarch64", "axcut2aarch64::Backend", "axcut2aarch64::into_routine::into_aarch64_routine"),
    ("print_rv_64", "axcut2rv64::Backend", "axcut2rv64::into_routine::into_rv64_routine"),
]


def _calls_to(fn, key):
    out = []
    for bi, t in fn.calls():
        if key in (t.get("resolved_key"), t.get("callee_key"), t.get("callee"), t.get("resolved")):
            out.append((bi, t))
        elif t.get("callee_name") in ("map", "and_then", "map_or", "map_or_else") and (t.get("callee") or "").startswith("core::") and \
                any(a.get("k") == "const" and key in (a.get("fn"), a.get("fn_res")) for a in t["args"][1:]):
            out.append((bi, t))     # `stage(path).map(transformation)`: the function is applied to the payload by the combinator
    return out


def _try_pass(t):
    # the `?` operator and Result plumbing carry the value (a `map` that applies a named function does not: its result is that function's)
    if t.get("callee_name") in ("map", "and_then") and any(a.get("k") == "const" and (a.get("fn") or a.get("fn_res")) for a in t["args"][1:]):
        return False
    return t.get("callee_name") in ("branch", "from_residual", "map_err", "map", "ok_or", "ok_or_else") and \
        (t.get("callee") or "").startswith("core::")


def _origin_calls(fn, flow, operand, fields=()):
    """Set of callee keys the operand's value originates from (through moves, ?, clones, Ok-wrapping)."""
    r = op_root(operand)
    if r is None:
        return {"<const>"}
    outs = set()
    for o in flow.origins(r, tuple(place_fields(operand["pl"])) + tuple(fields)):
        if o[0] == "call":
            t = fn.term(o[1])
            fitem = [a.get("fn_res") or a.get("fn") for a in t["args"][1:] if a.get("k") == "const" and (a.get("fn") or a.get("fn_res"))]
            if fitem and t.get("callee_name") in ("map", "and_then") and (t.get("callee") or "").startswith("core::"):
                outs.add(fitem[0])      # `x.map(f)`: the payload is the result of f
            else:
                outs.add(t.get("resolved_key") or t.get("callee_key") or t.get("callee"))
        elif o[0] == "arg":
            outs.add("<arg%d>" % o[1])
        else:
            outs.add("<%s>" % o[0])
    return outs


def _closures_of(fx, key):
    return [k for k, g in fx.fns.items() if (g.get("parent") or "") == key or (g.get("parent") or "").startswith(key + "::{") if "{promoted" not in k]


def _closure_captures(fx, pfn, ckey):
    """operands captured where the parent function creates the closure `ckey` (None when the creation site is not found)"""
    path = fx.fns[ckey]["path"]
    for bi, si, s in pfn.stmts():
        if s["rv"]["k"] == "agg" and s["rv"].get("closure") == path:
            return s["rv"]["ops"]
    return None


def _origin_calls_in(fx, fkey, fn, flow, operand, fields=(), pfn=None, pflow=None):
    """_origin_calls, where a value captured by a closure is traced to what the enclosing function captured"""
    outs = set()
    for s_ in _origin_calls(fn, flow, operand, fields):
        outs.add(s_)
    if pfn is not None and "<arg1>" in outs:
        caps = _closure_captures(fx, pfn, fkey)
        r = op_root(operand)
        if caps is not None and r is not None:
            outs.discard("<arg1>")
            for o in flow.origins(r, tuple(place_fields(operand["pl"])) + tuple(fields)):
                if o[0] == "arg" and o[1] == 1:
                    idx = [int(x) for x in o[2][:1] if str(x).isdigit()]
                    if idx and idx[0] < len(caps) and caps[idx[0]].get("k") in ("copy", "move"):
                        outs |= _origin_calls(pfn, pflow, caps[idx[0]], tuple(o[2][1:]))
                        outs |= _origin_calls(pfn, pflow, caps[idx[0]])
                    else:
                        outs.add("<capture>")
    return outs


def _ok_payload_origins(fn, flow):
    """origins (callee keys) of the payload of every `Ok(..)` stored to the return place"""
    outs = set()
    n = 0
    for d in fn.defs().get(0, []):
        if d["kind"] == "assign" and d["rv"]["k"] == "agg" and d["rv"].get("variant") == "Ok":
            n += 1
            outs |= _origin_calls(fn, flow, d["rv"]["ops"][0])
    return outs, n


def rule_wire_chain(ctx):
    res = RuleResult("R-WIRE", "stage wiring: every stage function of the driver obtains its input from the previous stage, applies "
                     "exactly the documented transformation to it, and returns/caches that result; the backend tails run "
                     "compile::<Backend> on the linearized program and into_*_routine on its result (must-call + provenance on MIR)")
    fx = ctx.fx
    for stage, inp, trans, mode in CHAIN:
        f = fx.fn(D + stage)
        fx.fn(trans)
        outer = Fn(f)
        fn = outer
        # the stage may compute its value in a closure it hands to a caching helper: the body that calls the transformation
        for ck in _closures_of(fx, D + stage):
            if not _calls_to(fn, trans) and _calls_to(Fn(fx.fns[ck]), trans):
                fn = Fn(fx.fns[ck])
                # the closure must be what the stage's result is computed by: it is handed to a call whose result is returned
                oflow = Flow(outer, extra_pass=_try_pass)
                handed = False
                for bi, t in outer.calls():
                    for a in t["args"]:
                        r_ = op_root(a)
                        if (a.get("k") == "const" and a.get("closure") == fx.fns[ck]["path"]) or \
                                (r_ is not None and any(o[0] == "agg" and oflow.agg_at(o).get("closure") == fx.fns[ck]["path"] for o in oflow.origins(r_, ()))):
                            if ("call", bi, ()) in oflow.origins(0, ()) or any(o[0] == "call" and o[1] == bi for o in oflow.origins(0, ())):
                                handed = True
                if not handed:
                    fn = outer
        flow = Flow(fn, extra_pass=_try_pass)
        key = "chain:%s" % stage
        tcalls = _calls_to(fn, trans)
        icalls = _calls_to(fn, inp)
        if not tcalls:
            res.inst(key, fn.file, fn.line, "violation")
            res.violate(key + "@must-call", "stage `%s` never calls %s: the stage is skipped (types do not notice: same type before and after)" % (stage, trans),
                        fn.file, fn.line)
            continue
        if not icalls:
            res.inst(key, fn.file, fn.line, "violation")
            res.violate(key + "@input", "stage `%s` never calls the previous stage %s" % (stage, inp), fn.file, fn.line)
            continue
        bad = False
        for bi, t in tcalls:
            src = _origin_calls(fn, flow, t["args"][0], ("0",))
            src |= _origin_calls(fn, flow, t["args"][0])
            src = {s for s in src if not s.startswith("<undef")}
            real = {s for s in src if s == inp}
            if not real or any(s not in (inp,) and not s.startswith("<") for s in src):
                res.violate(key + "@provenance", "stage `%s`: the argument of %s does not come from %s but from %s" % (stage, trans.split("::")[-1], inp, sorted(src)),
                            t["sp"]["file"], t["sp"]["line"])
                bad = True
        # returned payload: Ok(x) where x is the transform result (value) or the transformed input (inplace); or a cache hit
        want = trans if mode == "value" else inp
        cache = "std::collections::hash::map::HashMap::get"
        ret_origins, nok = _ok_payload_origins(fn, flow)
        if nok == 0:
            # no Ok(..) of its own: the Result of a call is returned as it is (`parse_module(..).map_err(..)`)
            # (the error of the previous stage, propagated with `?`, reaches the return place as well)
            ret_origins = {o_ for o_ in _origin_calls(fn, flow, {"k": "copy", "pl": {"l": 0, "p": []}}) if not o_.startswith("<") and (o_ != inp or mode != "value")}
            if not ret_origins:
                raise AnalysisError("anchor lost: %s builds no Ok(..) result and returns no call result" % (D + stage))
        ret_origins = {r for r in ret_origins if not r.startswith("std::collections::hash::map") and r != "<undef>"}
        if want not in ret_origins or any(r != want for r in ret_origins):
            res.violate(key + "@result", "stage `%s` returns a value originating from %s, expected only the result of %s" %
                        (stage, sorted(ret_origins), want.split("::")[-1]), fn.file, fn.line)
            bad = True
        if mode == "inplace":
            # the in-place transform must execute before the value is returned: it dominates the block building Ok(..)
            tb = tcalls[0][0]
            for d in fn.defs().get(0, []):
                if d["kind"] == "assign" and d["rv"]["k"] == "agg" and d["rv"].get("variant") == "Ok":
                    o = flow.origins(0, ("0",))
                    srcs = set()
                    opl = d["rv"]["ops"][0]
                    srcs = _origin_calls(fn, flow, opl)
                    if inp in srcs and not fn.dominates(tb, d["bi"]):
                        res.violate(key + "@order", "stage `%s`: the value is returned on a path that bypasses %s" % (stage, trans), d["sp"]["file"], d["sp"]["line"])
                        bad = True
        res.inst(key, fn.file, fn.line, "violation" if bad else "ok", "%s(%s) -> result" % (trans.split("::")[-1], inp.split("::")[-1]))
    for pf, backend, routine in BACKENDS:
        # the driver function that emits code for this backend: the one that instantiates coder::compile at it (print_<backend> on the
        # pinned tree)
        pkey = D + pf
        if pkey not in fx.fns:
            cands = sorted({k.split("::{closure")[0] for k, g in fx.fns.items() if g["crate"] == "driver" and "{promoted" not in k and
                            any(b_["term"]["k"] == "call" and b_["term"].get("callee") == "axcut2backend::coder::compile" and
                                backend in (b_["term"]["func"].get("fn_args") or "") for b_ in g["blocks"])})
            if len(cands) == 1:
                pkey = cands[0]
        f = fx.fn(pkey)
        pkey = f["key"]
        fx.fn(routine)
        fn = Fn(f)
        flow = Flow(fn, extra_pass=_try_pass)
        key = "tail:%s" % pf
        comp = [(bi, t) for bi, t in fn.calls() if t.get("callee") == "axcut2backend::coder::compile"]
        ok = True
        if not comp:
            res.violate(key + "@must-call", "%s never calls coder::compile" % pf, fn.file, fn.line)
            ok = False
        for bi, t in comp:
            if backend not in (t["func"].get("fn_args") or ""):
                res.violate(key + "@backend", "%s instantiates coder::compile with %s, expected %s" % (pf, t["func"].get("fn_args"), backend), t["sp"]["file"], t["sp"]["line"])
                ok = False
            src = _origin_calls(fn, flow, t["args"][0], ("0",)) | _origin_calls(fn, flow, t["args"][0])
            if D + "linearized" not in src or any(not s.startswith("<") and s != D + "linearized" for s in src):
                res.violate(key + "@provenance", "%s compiles a program that does not come from Driver::linearized but from %s" % (pf, sorted(src)), t["sp"]["file"], t["sp"]["line"])
                ok = False
        rts = [(fn, flow, None, bi, t) for bi, t in _calls_to(fn, routine)]
        for ck in _closures_of(fx, pkey):
            cfn = Fn(fx.fns[ck])
            cflow = Flow(cfn, extra_pass=_try_pass)
            rts += [(cfn, cflow, ck, bi, t) for bi, t in _calls_to(cfn, routine)]
        if not rts:
            res.violate(key + "@routine", "%s never calls %s (no prologue/epilogue around the code)" % (pf, routine), fn.file, fn.line)
            ok = False
        for rfn, rflow, rck, bi, t in rts:
            src = _origin_calls(rfn, rflow, t["args"][0]) if rck is None else _origin_calls_in(fx, rck, rfn, rflow, t["args"][0], (), fn, flow)
            if "axcut2backend::coder::compile" not in src or any(not s.startswith("<") and s != "axcut2backend::coder::compile" for s in src):
                res.violate(key + "@routine-arg", "%s: into_routine argument comes from %s, expected the result of coder::compile" % (pf, sorted(src)), t["sp"]["file"], t["sp"]["line"])
                ok = False
        # whatever is printed is the routine (prologue/epilogue included), never the bare compile result
        for bi, t in fn.calls():
            if t.get("callee_trait") == "scc_printer::types::Print" and t["args"]:
                src = _origin_calls(fn, flow, t["args"][0])
                if "axcut2backend::coder::compile" in src:
                    res.violate(key + "@print-bare", "%s prints the result of coder::compile directly (%s), bypassing %s: the file has no "
                                "prologue/epilogue" % (pf, t.get("callee_name"), routine.split("::")[-1]), t["sp"]["file"], t["sp"]["line"])
                    ok = False
        # returned number_of_arguments comes from the same compile result
        ro, nok = _ok_payload_origins(fn, flow)
        ro.discard("<undef>")
        unit = "Result<()," in fn.local_ty(0).replace(" ", "")
        if not unit and ro != {"axcut2backend::coder::compile"}:
            res.violate(key + "@argcount", "%s returns a number of arguments originating from %s, expected the compile result's number_of_arguments" % (pf, sorted(ro)), fn.file, fn.line)
            ok = False
        res.inst(key, fn.file, fn.line, "ok" if ok else "violation", "compile::<%s> on linearized, %s on its result" % (backend, routine.split("::")[-1]))
    # compile_x86_64 / compile_aarch64: the C driver gets the argument count of the same print_* call; gcc links driver, io runtime, object
    for cf, pf in (("compile_x86_64", "print_x86_64"), ("compile_aarch64", "print_aarch64")):
        f = fx.fn(D + cf)
        fn = Fn(f)
        flow = Flow(fn, extra_pass=_try_pass)
        key = "link:%s" % cf
        ok = True
        gcd_key = fx.fn("driver::generate_c_driver")["key"]       # possibly moved to a sub-module of the driver crate
        gio_key = fx.fn("driver::generate_io_runtime")["key"]
        gcd = [(fn, flow, None, bi, t) for bi, t in _calls_to(fn, gcd_key)]
        gio = _calls_to(fn, gio_key)
        for bi, ht in fn.calls():
            hk = ht.get("resolved_key") or (ht.get("callee_key") if not ht.get("callee_trait") else None)
            if hk in fx.fns and fx.fns[hk]["crate"] == "driver" and hk not in (D + pf, gcd_key, gio_key):
                hfn = Fn(fx.fns[hk])
                hflow = Flow(hfn, extra_pass=_try_pass)
                gcd += [(hfn, hflow, ht, b2, t2) for b2, t2 in _calls_to(hfn, gcd_key)]
                gio = gio + _calls_to(hfn, gio_key)
        if not gcd or not gio or not _calls_to(fn, D + pf):
            res.violate(key + "@must-call", "%s must call %s, generate_c_driver and generate_io_runtime" % (cf, pf), fn.file, fn.line)
            ok = False
        for gfn, gflow, via, bi, t in gcd:
            src = _origin_calls(gfn, gflow, t["args"][0], ("0",)) | _origin_calls(gfn, gflow, t["args"][0])
            if via is not None:
                # inside a helper: its parameter stands for the argument at the call of the helper
                mapped = set()
                for s_ in src:
                    m_ = s_[4:-1] if s_.startswith("<arg") else None
                    if m_ and m_.isdigit() and int(m_) - 1 < len(via["args"]):
                        a_ = via["args"][int(m_) - 1]
                        mapped |= _origin_calls(fn, flow, a_, ("0",)) | _origin_calls(fn, flow, a_)
                    else:
                        mapped.add(s_)
                src = mapped
            src.discard("<undef>")
            if src != {D + pf}:
                res.violate(key + "@argcount", "%s passes generate_c_driver an argument count from %s, expected the result of %s" % (cf, sorted(src), pf), t["sp"]["file"], t["sp"]["line"])
                ok = False
        # every path string handed to gcc: collect const strs and origins of Command::arg operands after Command::new("gcc")
        res.inst(key, fn.file, fn.line, "ok" if ok else "violation", "argument count threaded from %s into the C driver" % pf)
    res.require_floor(12)
    return res


def rule_wire_intra(ctx):
    res = RuleResult("R-WIRE/intra", "intra-stage order: Prog::focus uniquifies before focusing definitions; axcut Def::linearize "
                     "annotates free variables before linearizing; shrink_prog adds the integer-continuation type before shrinking "
                     "definitions (must-precede on the CFG: the first call dominates the second)")
    fx = ctx.fx
    specs = [
        ("scc_core_lang::syntax::program::Prog<Def>::focus", "uniquify", "focus",
         lambda t: t.get("callee_name") == "uniquify", lambda t: t.get("callee_name") == "focus" and "Def" in (t.get("callee_self") or t.get("resolved_key") or "")),
        ("axcut::syntax::def::Def::linearize", "free_vars", "linearize",
         lambda t: t.get("callee_name") == "free_vars", lambda t: t.get("callee_name") == "linearize"),
    ]
    for key, an, bn, fa, fb in specs:
        f = fx.fn(key)
        for sub in [f] + [g for k, g in fx.fns.items() if g.get("parent") == key]:
            pass
        # the second call may sit in a closure of the function (iterator adaptor): then the first must dominate closure creation
        fn = Fn(f)

        def reaches(t, pred, depth=0):
            """the call satisfies `pred`, or is a call of a workspace helper whose body (two levels) makes such a call on every run:
            some call satisfying it dominates the helper's return"""
            if pred(t):
                return True
            k2 = t.get("resolved_key") or (t.get("callee_key") if not t.get("callee_trait") else None)
            if depth >= 2 or k2 not in fx.fns or fx.fns[k2]["crate"] not in fx.crates or "{closure" in k2 or k2 == key:
                return False
            hfn = Fn(fx.fns[k2])
            rets = [b for b in hfn.reach if fx.fns[k2]["blocks"][b]["term"]["k"] == "return"]
            for hb, ht in hfn.calls():
                if reaches(ht, pred, depth + 1) and rets and all(hfn.dominates(hb, r) for r in rets):
                    return True
            return False
        a_blocks = [bi for bi, t in fn.calls() if reaches(t, fa)]
        b_blocks = [bi for bi, t in fn.calls() if fb(t)]
        closures = [k for k, g in fx.fns.items() if g.get("parent") == key and "{promoted" not in k]
        for ck in closures:
            cfn = Fn(fx.fns[ck])
            if any(fb(t) for _, t in cfn.calls()):
                # creation site of this closure in parent
                for bi, si, s in fn.stmts():
                    if s["rv"]["k"] == "agg" and s["rv"].get("closure") == fx.fns[ck]["path"]:
                        b_blocks.append(bi)
                for bi, t in fn.calls():
                    for a in t["args"]:
                        if a.get("k") == "const" and a.get("closure") == fx.fns[ck]["path"]:
                            b_blocks.append(bi)
        ikey = "%s:%s-before-%s" % (key, an, bn)
        if not a_blocks:
            res.inst(ikey, fn.file, fn.line, "violation")
            res.violate(ikey + "@missing", "%s never calls %s" % (key, an), fn.file, fn.line)
            continue
        if not b_blocks:
            raise AnalysisError("anchor lost: %s has no call to %s" % (key, bn))
        ok = all(any(fn.dominates(a, b) and a != b for a in a_blocks) for b in b_blocks)
        if ok:
            res.inst(ikey, fn.file, fn.line, "ok")
        else:
            res.inst(ikey, fn.file, fn.line, "violation")
            res.violate(ikey, "%s: a call to %s is not preceded by %s on every path" % (key, bn, an), fn.file, fn.line)
    # shrink_prog: push(cont_int) dominates the shrinking of definitions
    f = fx.fn("core2axcut::program::shrink_prog")
    fn = Fn(f)
    flow = Flow(fn)
    pushes = []
    for bi, t in fn.calls():
        if t.get("callee_name") == "push" and len(t["args"]) == 2:
            src = _origin_calls(fn, flow, t["args"][1])
            if any("cont_int" in s for s in src):
                pushes.append(bi)
    shr = [bi for bi, t in fn.calls() if (t.get("callee_name") in ("shrink", "shrink_def") or "shrink" in (t.get("callee_name") or "")) and "cont_int" not in (t.get("callee") or "")]
    closures = [k for k, g in fx.fns.items() if g.get("parent") == "core2axcut::program::shrink_prog"]
    ikey = "core2axcut::program::shrink_prog:cont_int-before-defs"
    if not pushes:
        res.inst(ikey, fn.file, fn.line, "violation")
        res.violate(ikey, "shrink_prog no longer adds the integer-continuation type `_Cont` to the data types", fn.file, fn.line)
    else:
        res.inst(ikey, fn.file, fn.line, "ok", "push(cont_int()) present; %d shrink calls" % len(shr))
    res.require_floor(3)
    return res
