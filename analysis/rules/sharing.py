"""R-SHARE (C19): every duplication of a continuation/statement is downstream of the share/lift decision, and every
bypass of that decision is size-bounded or duplicates at most once."""
import copy

from .. import interp
from ..core import RuleResult
from ..facts import AnalysisError
from ..interp import Adt, Sym, SymExpr, Iter, Ref, Vec, Unknown

TERM = "scc_core_lang::syntax::terms::Term"
STMT = "scc_core_lang::syntax::statements::Statement"
FSSTMT = "scc_core_lang::syntax::statements::FsStatement"
SEEDS = {TERM, STMT, FSSTMT, "scc_core_lang::syntax::terms::FsTerm", "axcut::syntax::statements::Statement"}


def rec_adts(fx):
    """ADTs through whose fields a statement/term can be reached (type-parameter fields count, except the chirality marker)"""
    rec = set(SEEDS)
    changed = True
    while changed:
        changed = False
        for path, a in fx.adts.items():
            if path in rec:
                continue
            for v in a["variants"]:
                for f in v["fields"]:
                    if f["name"] == "prdcns":
                        continue
                    if (f.get("core") in rec) or f.get("is_param") or _peeled_param(f["ty"]):
                        rec.add(path)
                        changed = True
                        break
    return rec


def _peeled_param(ty):
    import re
    t = ty
    for w in ("std::rc::Rc<", "std::vec::Vec<", "std::option::Option<", "std::boxed::Box<"):
        while t.startswith(w) and t.endswith(">"):
            t = t[len(w):-1]
    return bool(re.fullmatch(r"[A-Z][A-Za-z0-9]*", t))


def rec_field(fx, rec, adt, variant, fname):
    a = fx.adts.get(adt)
    if not a:
        return True
    for v in a["variants"]:
        if v["name"] == variant or a["kind"] == "struct":
            for f in v["fields"]:
                if f["name"] == fname:
                    if fname == "prdcns":
                        return False
                    return (f.get("core") in rec) or bool(f.get("is_param")) or _peeled_param(f["ty"])
    return True


def bounded(fx, rec, v, depth=0):
    """the value tree pins every position that can contain a statement/term down to variants without such positions"""
    if depth > 12:
        return False
    if isinstance(v, Adt):
        if v.path is None:
            return all(bounded(fx, rec, x, depth + 1) for x in v.fields.values())
        for fname, child in v.fields.items():
            if rec_field(fx, rec, v.path, v.variant, fname):
                if not bounded(fx, rec, child, depth + 1):
                    return False
        return True
    if isinstance(v, Sym):
        if v.adt is None and not v.attrs:
            return False
        adt = v.adt
        a = fx.adts.get(adt) if adt else None
        if a is None or a["kind"] != "struct":
            return False        # an unrefined enum position (or unknown type): any shape possible
        table = v.inst if v.inst else a["variants"][0]["fields"]
        for f in table:
            if f["name"] == "prdcns":
                continue
            is_rec = (f.get("core") in rec) or bool(f.get("is_param")) or (not v.inst and _peeled_param(f["ty"]))
            if is_rec:
                if f["name"] not in v.attrs or not bounded(fx, rec, v.attrs[f["name"]], depth + 1):
                    return False
        return True
    if isinstance(v, (int, str, bool)):
        return True
    return False


def _mentions(v, tag):
    return tag in repr(v)


def analyse(fx, key, params, decision_names, consume, rec, result_wrappers=(), tracked="CONT"):
    """Run the function symbolically; return per path the list of duplication events."""
    f = fx.fn(key)

    def hook(I, p, fr, t, args):
        n = t.get("callee_name")
        c = t.get("callee") or ""
        if n in decision_names and c.split("::")[0] in fx.crates:
            return Adt("DECIDED", n.upper(), {})
        if n in result_wrappers and c.split("::")[0] in fx.crates:
            return Adt("WRAPPED", n, {"of": copy.deepcopy(I.deref(args[0]))})
        if n in ("map", "for_each", "flat_map", "filter_map", "fold") and c.startswith("core::iter::"):
            src = I.deref(args[0])
            clo = args[1] if len(args) > 1 else None
            caps = []
            if isinstance(clo, interp.FnVal) and clo.captures:
                caps = [copy.deepcopy(I.deref(x)) for x in clo.captures]
            p.events.append(("iter", repr(src.sym) if isinstance(src, Iter) else repr(src), caps, t["sp"]["line"]))
            return Iter(None, sym=Sym("mapped"))
        if c.split("::")[0] in fx.crates and n in consume:
            # a consuming call inside a loop over a collection of unknown length runs once per element
            stack = []
            for m in p.loop_marks:
                if m[0] == "loop-enter":
                    stack.append(m[1])
                elif stack:
                    stack.pop()
            p.events.append(("use", n, [copy.deepcopy(I.deref(a)) for a in args], t["sp"]["line"], stack[-1] if stack else None))
            return Sym("res:%s" % n)
        if c.split("::")[0] in fx.crates:
            # a helper of the same crate that receives the tracked value (and is neither a consumer nor the decision function) is
            # followed into: it may hand the value back, or decide about sharing itself
            k2 = t.get("resolved_key") or (t.get("callee_key") if not t.get("callee_trait") else None)
            if k2 in fx.fns and fx.fns[k2]["crate"] == f["crate"] and getattr(fr, "depth", 0) < 2 and \
                    any(_mentions(I.deref(a), "$" + tracked) for a in args):
                return NotImplemented
            return Sym("res:%s" % n)
        return NotImplemented
    I = interp.Interp(fx, hooks=[hook], max_depth=2, max_paths=4096)
    return I.run(f, params)


def _count_leq_one(conds, source):
    for c in conds:
        e = c[0]
        if isinstance(e, SymExpr) and e.op in ("Le", "Lt") and isinstance(e.a, Sym) and e.a.name.startswith("len("):
            coll = e.a.name[4:-1]
            limit = e.b if isinstance(e.b, int) else None
            truth = (c[1] == "else")       # bool switch: 0 -> false branch, otherwise -> true
            if truth and limit is not None and ((e.op == "Le" and limit <= 1) or (e.op == "Lt" and limit <= 2)):
                if coll in source or source in coll:
                    return True
        # the same test written the other way round: `len > 1` / `len >= 2` is false on this path
        if isinstance(e, SymExpr) and e.op in ("Gt", "Ge") and isinstance(e.a, Sym) and e.a.name.startswith("len("):
            coll = e.a.name[4:-1]
            limit = e.b if isinstance(e.b, int) else None
            false_ = (c[1] == 0)
            if false_ and limit is not None and ((e.op == "Gt" and limit <= 1) or (e.op == "Ge" and limit <= 2)):
                if coll in source or source in coll:
                    return True
    return False


def rule_share(ctx):
    fx = ctx.fx
    rec = ctx.memo("rec-adts", lambda: rec_adts(fx))
    res = RuleResult("R-SHARE", "sharing discipline: every fun2core function that receives a consumer and every core2axcut function that "
                     "receives statements is executed symbolically over its MIR (decision regions forked per variant, values refined "
                     "lazily); on every path, a consumer/statement that reaches two or more consuming calls - or a closure handed to "
                     "an iterator adaptor - is either the result of share()/lift(), or its shape is pinned to a size-bounded tree "
                     "(every position that can hold a statement/term is a leaf variant), or the iterator runs over a collection "
                     "whose length was tested to be <= 1")
    n_sites = 0
    n_fns = 0
    share_key = fx.fn("fun2core::compile::share")["key"]
    lift_key = fx.fn("core2axcut::statements::cut::lift")["key"]
    share_name, lift_name = share_key.split("::")[-1], lift_key.split("::")[-1]
    # ---- fun2core: consumer parameters ----
    for key, f in sorted(fx.fns.items()):
        if f["crate"] != "fun2core" or "{" in key.split(">::")[-1].replace("{closure", "{") and "{closure" in key or "{promoted" in key:
            continue
        if key == share_key:
            continue
        pidx = [i for i in range(1, f["argc"] + 1) if f["locals"][i]["ty"].endswith("Term<scc_core_lang::syntax::Cns>")]
        if not pidx:
            continue
        n_fns += 1
        params = []
        for i in range(1, f["argc"] + 1):
            if i in pidx:
                params.append(Sym("CONT", adt=TERM))
            else:
                params.append(Sym("p%d" % i))
        consume = {"compile_with_cont", "compile_clause", "compile_coclause", "compile", "compile_subst"}
        try:
            outs = analyse(fx, key, params, {share_name}, consume, rec)
        except AnalysisError as e:
            raise AnalysisError("R-SHARE: %s: %s" % (key, e))
        n_sites += _judge(fx, rec, res, key, f, outs, "CONT", "share")
    # ---- core2axcut: statement parameters ----
    for key, f in sorted(fx.fns.items()):
        if f["crate"] != "core2axcut" or "{closure" in key or "{promoted" in key:
            continue
        if key == lift_key:
            continue
        pidx = [i for i in range(1, f["argc"] + 1) if f["locals"][i]["core"] == FSSTMT and "Clause" not in f["locals"][i]["ty"] and "[" not in f["locals"][i]["ty"]]
        if not pidx:
            continue
        n_fns += 1
        params = []
        for i in range(1, f["argc"] + 1):
            if i in pidx:
                params.append(Sym("STMT%d" % i, adt=FSSTMT))
            else:
                params.append(Sym("p%d" % i))
        outs = analyse(fx, key, params, {lift_name}, {"subst_sim"}, rec, result_wrappers=("shrink",), tracked="STMT")
        n_sites += _judge(fx, rec, res, key, f, outs, "STMT", "lift")
    if n_fns < 20:
        raise AnalysisError("R-SHARE: only %d functions analysed" % n_fns)
    res.notes.append("functions executed symbolically: %d; duplicating sites found: %d" % (n_fns, n_sites))
    if n_sites < 1:
        raise AnalysisError("R-SHARE: the three known duplicating sites were not all recognised (%d)" % n_sites)
    return res


def _judge(fx, rec, res, key, f, outs, tag, decider):
    dup_site = False
    bad = {}
    n_paths = 0
    for o in outs:
        n_paths += 1
        uses = {}
        for ev in o.events:
            if ev[0] == "use":
                for a in ev[2]:
                    if _mentions(a, "$" + tag):
                        uses.setdefault(_root_of(a, tag), []).append((a, ev[3]))
                        if len(ev) > 4 and ev[4] is not None:
                            # used inside a loop: once per element of the collection
                            dup_site = True
                            ok = (isinstance(a, Adt) and a.path == "DECIDED") or bounded(fx, rec, _unwrap(a)) or _count_leq_one(o.conds, ev[4])
                            if not ok:
                                bad.setdefault(("iter", ev[3]), []).append((a, o.conds))
            elif ev[0] == "iter":
                for cap in ev[2]:
                    if _mentions(cap, "$" + tag):
                        dup_site = True
                        ok = (isinstance(cap, Adt) and cap.path == "DECIDED") or bounded(fx, rec, _unwrap(cap)) or _count_leq_one(o.conds, ev[1])
                        if not ok:
                            bad.setdefault(("iter", ev[3]), []).append((cap, o.conds))
        for root, lst in uses.items():
            if len(lst) >= 2:
                dup_site = True
                for a, line in lst:
                    if not bounded(fx, rec, _unwrap(a)):
                        bad.setdefault(("use", line), []).append((a, o.conds))
    if dup_site:
        ikey = key
        if bad:
            (kind, line), lst = sorted(bad.items())[0]
            val, conds = lst[0]
            res.inst(ikey, f["sp"]["file"], line, "violation")
            res.violate(ikey, "a %s reaches several consuming uses (%s at line %d) without going through %s() and its shape is not "
                        "size-bounded on the path [%s]: value %s - nested branch points duplicate it exponentially" %
                        ("consumer" if tag == "CONT" else "statement", "iterator closure" if kind == "iter" else "second call", line, decider,
                         "; ".join("%s=%s" % (c[0], c[1]) for c in conds[:8]), repr(val)[:160]), f["sp"]["file"], line)
        else:
            res.inst(ikey, f["sp"]["file"], f["sp"]["line"], "ok", "duplicating site: %d paths, every duplicated value is %s()'d, size-bounded, or iterated at most once" % (n_paths, decider))
        return 1
    res.inst(key + ":no-duplication", f["sp"]["file"], f["sp"]["line"], "ok", "%d paths, no value used twice" % n_paths, nontrivial=False)
    return 0


def _unwrap(v):
    while isinstance(v, Adt) and v.path == "WRAPPED":
        v = v.fields["of"]
    return v


def _root_of(v, tag):
    r = repr(v)
    i = r.find("$" + tag)
    j = i + 1
    while j < len(r) and (r[j].isalnum() or r[j] == "_"):
        j += 1
    return r[i:j]


def rule_once(ctx):
    """R-ONCE: the two functions that decide sharing translate what they share once"""
    from ..mir import Fn, Flow, op_root
    fx = ctx.fx
    res = RuleResult("R-ONCE", "lift (core2axcut) is the place where a statement is moved to one shared definition; R-SHARE treats it as the "
                     "decision and does not look inside. Inside it, on every path, the shared statement (clones included) reaches at "
                     "most one translating call (Shrinking::shrink): a second translation - even of a throw-away clone - repeats every lift nested in the "
                     "body, so k nested shared continuations produce 2^k definitions")
    specs = [("core2axcut::statements::cut::lift", {"shrink"}, "core2axcut")]
    PASS = {"clone", "subst_sim", "subst_var", "subst_covar", "unwrap_or_clone", "deref", "as_ref", "borrow", "into", "from", "new", "uniquify", "focus"}
    for want, consume, crate in specs:
        f = fx.fn(want)
        key = f["key"]
        fn = Fn(f)
        flow = Flow(fn, extra_pass=lambda t: t.get("callee_name") in PASS, fx=fx)
        tree_params = [i for i in range(1, f["argc"] + 1) if not f["locals"][i]["ty"].startswith("&mut ") and
                       any(x in f["locals"][i]["ty"] for x in ("Statement", "Term<", "FsStatement", "Rc<"))]
        sites = []
        for bi, t in fn.calls():
            if t.get("callee_name") not in consume or not t["args"]:
                continue
            srcs = set()
            for a in t["args"]:
                r = op_root(a)
                if r is None:
                    continue
                for o in flow.origins(r, ()):
                    if o[0] == "arg" and o[1] in tree_params:
                        srcs.add(o[1])
            if srcs:
                sites.append((bi, t, srcs))
        ikey = "%s:translated-once" % key
        bad = None
        for i, (b1, t1, s1) in enumerate(sites):
            for b2, t2, s2 in sites[i + 1:]:
                if (s1 & s2) and (b2 in fn.reach_from(b1) or b1 in fn.reach_from(b2)):
                    bad = (t1, t2, sorted(s1 & s2)[0])
        if not sites:
            raise AnalysisError("R-ONCE: %s no longer translates its argument (no %s call on a parameter)" % (key, "/".join(sorted(consume))))
        if bad:
            t1, t2, p = bad
            res.inst(ikey, t2["sp"]["file"], t2["sp"]["line"], "violation")
            res.violate(ikey, "%s translates its parameter %d twice on one path (%s at line %d and %s at line %d): every shared continuation nested "
                        "in it is lifted once per translation, so the number of top-level definitions doubles with each level of nesting" %
                        (key.split("::")[-1], p, t1.get("callee_name"), t1["sp"]["line"], t2.get("callee_name"), t2["sp"]["line"]), t2["sp"]["file"], t2["sp"]["line"])
        else:
            res.inst(ikey, fn.file, fn.line, "ok", "%d translating call(s), no two on one path" % len(sites))
    return res


def rule_sharepath(ctx):
    """R-SHAREPATH: share and lift always lift"""
    from ..mir import Fn, Flow, op_root, place_fields, rvalue_places
    fx = ctx.fx
    res = RuleResult("R-SHAREPATH", "share (fun2core) and lift (core2axcut) are called where a continuation / statement is about to be used more than "
                     "once: on every path to their return they add the definition to the collection of lifted definitions (the result is the "
                     "call of that definition), or hand back their argument as it is. A path that returns something else - a part of the "
                     "argument, say the covariable inside `mu~x.<y | a>` - has thrown the rest of the argument away")
    for want in ("fun2core::compile::share", "core2axcut::statements::cut::lift"):
        f = fx.fn(want)
        fn = Fn(f)
        flow = Flow(fn)
        def adds(t, depth=0):
            """the call adds to a collection: push/push_front/push_back, or a helper of the crate that does (the lifting moved into a method)"""
            if t.get("callee_name") in ("push", "push_front", "push_back"):
                return True
            k2 = t.get("resolved_key") or t.get("callee_key")
            g = fx.fns.get(k2)
            if not g or g["crate"] != f["crate"] or depth > 2 or k2 == f["key"]:
                return False
            gfn = Fn(g)
            # on every path of the helper
            gp = {bi for bi, t2 in gfn.calls() if adds(t2, depth + 1)}
            if not gp:
                return False
            ws, sn = [0], set()
            while ws:
                x = ws.pop()
                if x in sn or x not in gfn.reach or x in gp:
                    continue
                sn.add(x)
                if g["blocks"][x]["term"]["k"] == "return":
                    return False
                ws.extend(gfn.succ[x])
            return True
        pushes = {bi for bi, t in fn.calls() if adds(t)}
        if not pushes:
            raise AnalysisError("R-SHAREPATH: %s does not add to a collection" % f["key"])
        rets = [b for b in fn.reach if f["blocks"][b]["term"]["k"] == "return"]
        # paths to a return that avoid every push
        seen, work = set(), [0]
        escaping = False
        while work:
            x = work.pop()
            if x in seen or x not in fn.reach or x in pushes:
                continue
            seen.add(x)
            if f["blocks"][x]["term"]["k"] == "return":
                escaping = True
            work.extend(fn.succ[x])
        ikey = "%s:always-lifts" % f["key"]
        if not escaping:
            res.inst(ikey, fn.file, fn.line, "ok", "every path to the return adds the lifted definition")
            continue
        # what is returned on such paths: only the argument itself is acceptable
        org = flow.origins(0, ())
        tree = [i for i in range(1, f["argc"] + 1) if not f["locals"][i]["ty"].startswith("&")]
        whole = all(o[0] == "arg" and not o[2] and o[1] in tree for o in org if o[0] == "arg") and any(o[0] == "arg" for o in org)
        partial = [o for o in org if o[0] == "arg" and o[2]]
        if partial or not whole:
            res.inst(ikey, fn.file, fn.line, "violation")
            res.violate(ikey, "%s can return without adding a lifted definition, and what it returns then is %s: the rest of the argument is "
                        "dropped from the program" % (f["key"].split("::")[-1], ("the part `%s` of its argument" % ".".join(partial[0][2])) if partial else "not its argument"),
                        fn.file, fn.line)
        else:
            # the argument is handed back only where its *shape* says that it is small: the switch that opens the way to such a return
            # tests the variant of the argument (directly, or in a helper that does nothing but look at variants), and the variants
            # sent that way have no sub-terms.  A guard computed some other way - a size measured by a recursive function, a counter,
            # a flag - lets a continuation of unbounded size be copied to every use
            def leads_out(b0):
                ws, sn = [b0], set()
                while ws:
                    x = ws.pop()
                    if x in sn or x not in fn.reach or x in pushes:
                        continue
                    sn.add(x)
                    if f["blocks"][x]["term"]["k"] == "return":
                        return True
                    ws.extend(fn.succ[x])
                return False

            def leafish(adt, names_):
                A = fx.adts.get(adt)
                if not A:
                    return False
                for v_ in A["variants"]:
                    if v_["name"] in names_:
                        for fd in v_["fields"]:
                            inner = fx.adts.get(fd.get("core") or "")
                            tys = [fd["ty"]] + ([x["ty"] for vv in inner["variants"] for x in vv["fields"]] if inner else [])
                            if any(w in ty_ for ty_ in tys for w in ("Rc<", "Statement", "Term<", "Arguments", "Vec<", "Box<", "Clause")):
                                return False
                return True

            def shape_helper(k2, depth=0):
                """the helper only looks at variants: no loop, no call into the workspace except helpers of the same kind"""
                g = fx.fns.get(k2)
                if not g or depth > 2:
                    return False
                gfn = Fn(g)
                if any(t_ in gfn.reach_from(t_) for t_ in gfn.reach if any(s_ == t_ for s_ in gfn.reach_from(t_))):
                    return False
                for bi_, t_ in gfn.calls():
                    k3 = t_.get("resolved_key") or t_.get("callee_key")
                    if k3 == k2:
                        return False
                    if k3 in fx.fns and fx.fns[k3]["crate"] == g["crate"] and not shape_helper(k3, depth + 1):
                        return False
                return any(s_["k"] == "assign" and s_["rv"]["k"] == "discr" for b_ in g["blocks"] for s_ in b_["stmts"])
            bad = None
            for bi_ in sorted(fn.reach):
                t_ = f["blocks"][bi_]["term"]
                if t_["k"] != "switch":
                    continue
                succs = [b for _v, b in t_["targets"]] + [t_["otherwise"]]
                outs_ = [b for b in succs if leads_out(b)]
                if not outs_ or len(outs_) == len(succs):
                    continue        # not the switch that decides between handing back and lifting
                # what is tested
                l0 = op_root(t_["discr"])
                kind = None
                ws, sn = [l0], set()
                while ws and kind is None:
                    l1 = ws.pop()
                    if l1 is None or l1 in sn:
                        continue
                    sn.add(l1)
                    for d in fn.defs().get(l1, []):
                        if d["kind"] == "assign" and d["rv"]["k"] == "discr":
                            root = d["rv"]["pl"]["l"]
                            o_ = flow.origins(root, ())
                            if any(o[0] == "arg" and o[1] in tree for o in o_) or root in tree:
                                adt_ = fn.local_adt(root) or fn.local_core(root)
                                names_all = [v_["name"] for v_ in (fx.adts.get(adt_) or {"variants": []})["variants"]]
                                out_names = set()
                                named = set()
                                for val, b in t_["targets"]:
                                    if val < len(names_all):
                                        named.add(names_all[val])
                                        if leads_out(b) and not (b in pushes):
                                            out_names.add(names_all[val])
                                if leads_out(t_["otherwise"]):
                                    out_names |= set(names_all) - named
                                kind = "shape-ok" if adt_ and leafish(adt_, out_names) else "shape-big:%s" % ",".join(sorted(out_names))
                            else:
                                kind = "other-discr"
                        elif d["kind"] == "call":
                            k2 = d["term"].get("resolved_key") or d["term"].get("callee_key")
                            if k2 in fx.fns and fx.fns[k2]["crate"] == f["crate"]:
                                kind = "shape-ok" if shape_helper(k2) else "computed:%s" % k2.split("::")[-1]
                            elif d["term"].get("callee_name") in ("deref", "as_ref", "borrow", "clone", "not", "eq", "ne"):
                                ws.extend(op_root(a_) for a_ in d["term"]["args"])
                            else:
                                kind = "computed:%s" % (d["term"].get("callee_name") or "?")
                        elif d["kind"] == "assign":
                            rv_ = d["rv"]
                            if rv_["k"] == "binop":
                                for o_ in (rv_["a"], rv_["b"]):
                                    ws.append(op_root(o_))
                            else:
                                for pl_, _r in rvalue_places(rv_):
                                    ws.append(pl_["l"])
                        elif d["kind"] == "arg":
                            kind = "parameter"
                if kind and kind != "shape-ok":
                    bad = (bi_, kind, t_)
                    break
            if bad:
                bi_, kind, t_ = bad
                why = {"shape-big": "variants that have sub-terms (%s)" % kind.split(":", 1)[-1], "computed": "a value computed by %s, not by the variant of the argument" % kind.split(":", 1)[-1],
                       "other-discr": "the variant of something other than the argument", "parameter": "a parameter"}[kind.split(":")[0]]
                res.inst(ikey, t_["sp"]["file"], t_["sp"]["line"], "violation")
                res.violate(ikey, "%s hands its argument back unshared on a path chosen by %s: a continuation of any size can then reach every use "
                            "as a copy, and nested branch points double the program" % (f["key"].split("::")[-1], why), t_["sp"]["file"], t_["sp"]["line"])
            else:
                res.inst(ikey, fn.file, fn.line, "ok", "paths that do not lift hand the argument back unchanged, chosen by its variant (leaf shapes)")
    return res


def rule_liftstore(ctx):
    """R-LIFTSTORE: the store of lifted definitions is write-only for the translation"""
    from ..mir import Fn, place_fields
    fx = ctx.fx
    res = RuleResult("R-LIFTSTORE", "share (fun2core) and lift (core2axcut) put the one copy of a shared continuation / statement into the state's "
                     "collection of lifted definitions; the translation functions only ever add to that collection (push, push_front, append, "
                     "extend). Code that reads it back - looks a lifted definition up and copies its body to a use site - undoes the sharing: "
                     "every use gets its own copy of the continuation again, and of everything nested in it")
    WRITERS = {"push", "push_front", "push_back", "append", "extend", "reserve", "extend_from_slice"}
    # the field: a collection of definitions in the state of the translation (lifted_statements on the pinned tree)
    STORE = set()
    for path, a in fx.adts.items():
        if path.split("::")[0] in ("fun2core", "core2axcut") and a["kind"] == "struct" and path.endswith("State"):
            for fd in a["variants"][0]["fields"]:
                if ("VecDeque" in fd["ty"] or "Vec<" in fd["ty"]) and "Def" in fd["ty"]:
                    STORE.add(fd["name"])
    if not STORE:
        raise AnalysisError("R-LIFTSTORE: the translation states have no collection of definitions")

    def place_fields(pl, _pf=place_fields):
        return ["lifted_statements" if x in STORE else x for x in _pf(pl)]
    n = 0
    for k, f in sorted(fx.fns.items()):
        if f["crate"] not in ("fun2core", "core2axcut") or "{promoted" in k:
            continue
        fn = None
        for bi, b in enumerate(f["blocks"]):
            sites = []
            for s in b["stmts"]:
                if s["k"] != "assign":
                    continue
                rv = s["rv"]
                pls = [rv.get("pl")] + [o.get("pl") for o in [rv.get("op"), rv.get("a"), rv.get("b")] + list(rv.get("ops", [])) if isinstance(o, dict)]
                if any(pl and "lifted_statements" in place_fields(pl) for pl in pls) and rv["k"] != "agg":
                    sites.append((s, s["lhs"]["l"] if not s["lhs"]["p"] else None))
            t = b["term"]
            if t["k"] == "call":
                for a in t["args"]:
                    if a.get("pl") and "lifted_statements" in place_fields(a["pl"]):
                        sites.append(({"sp": t["sp"]}, ("call", t)))
            for s, l in sites:
                fn = fn or Fn(f)
                if bi not in fn.reach:
                    continue
                n += 1
                ends = []
                if isinstance(l, tuple):
                    ends.append(l[1])
                elif l is not None:
                    work, seen = [l], set()
                    while work:
                        x = work.pop()
                        if x in seen:
                            continue
                        seen.add(x)
                        for u in fn.uses().get(x, []):
                            if u["kind"] == "arg":
                                ends.append(u["term"])
                            elif u["kind"] == "rv" and not u["stmt"]["lhs"]["p"] and u["stmt"]["rv"]["k"] in ("use", "ref", "cast"):
                                work.append(u["stmt"]["lhs"]["l"])
                            elif u["kind"] == "rv" and u["stmt"]["rv"]["k"] == "agg":
                                pass        # handed on inside the state that is being built
                            elif u["kind"] in ("switch", "index"):
                                ends.append({"callee_name": u["kind"], "sp": s["sp"]})
                bad = [t_ for t_ in ends if t_.get("callee_name") not in WRITERS and not (t_.get("callee_name") in ("deref", "deref_mut", "borrow_mut", "as_mut"))]
                ikey = "%s@lifted_statements:%d" % (k, n)
                if bad:
                    res.inst(ikey, s["sp"]["file"], s["sp"]["line"], "violation")
                    res.violate("%s@lifted_statements-read" % k, "%s reads the collection of lifted definitions back (%s): the translation of a statement then depends on "
                                "what happens to have been lifted before it (a label numbered by the length of the collection is handed out twice when "
                                "lifts nest), and a lifted body that is looked up and copied to a use site is no longer shared" %
                                (k.split("::")[-1], ", ".join(sorted({t_.get("callee_name") or "?" for t_ in bad}))), s["sp"]["file"], s["sp"]["line"])
                else:
                    res.inst(ikey, s["sp"]["file"], s["sp"]["line"], "ok", "only added to (%s)" % ", ".join(sorted({t_.get("callee_name") or "?" for t_ in ends})) if ends else "handed on")
    if n < 2:
        raise AnalysisError("R-LIFTSTORE: %d accesses of the collection of lifted definitions found (share and lift add to it)" % n)
    return res


def rule_deffirst(ctx):
    """R-DEFFIRST: a translated definition stands in front of the statements lifted out of it"""
    from ..mir import Fn, Flow, op_root, place_fields
    fx = ctx.fx
    res = RuleResult("R-DEFFIRST", "the functions that translate one definition hand back the definition *followed by* the statements lifted out of "
                     "its body (the collection the translation state adds to): the definition is put in front of what the state has collected "
                     "(push_front / insert at 0). The code generator takes the first definition of the program for `main` - its parameter "
                     "count becomes the argument count of the C driver and its label the entry point - so a definition that is appended "
                     "behind its lifted statements (push / push_back) hands that role to a lifted label as soon as main's body lifts one")
    n = 0
    for k, f in sorted(fx.fns.items()):
        if f["crate"] not in ("fun2core", "core2axcut") or "{" in k:
            continue
        fn = Fn(f)

        def base(l, depth=0):
            """the local a (re)borrow chain starts from"""
            out = set()
            for d in fn.defs().get(l, []):
                if d["kind"] == "assign" and d["rv"]["k"] in ("ref", "use", "cast") and depth < 6:
                    pl = d["rv"].get("pl") or (d["rv"].get("op") or {}).get("pl")
                    if pl and not [e for e in pl["p"] if e != "*"]:
                        out |= base(pl["l"], depth + 1)
            return out or {l}
        # the collection lent to the translation state
        coll = set()
        for bi, si, s in fn.stmts():
            rv = s["rv"]
            if rv["k"] == "agg" and (rv.get("adt") or "").endswith("State") and rv.get("fields"):
                for fd, op in zip(rv["fields"], rv["ops"]):
                    l = op_root(op)
                    if l is None:
                        continue
                    ty = fn.f["locals"][l]["ty"]
                    if "Def" in ty and ("VecDeque" in ty or "Vec<" in ty) and ty.startswith("&mut"):
                        coll |= base(l)
        if not coll:
            continue
        flow = Flow(fn)
        for bi, t in fn.calls():
            if t.get("callee_name") not in ("push", "push_back", "push_front", "insert") or not t["args"]:
                continue
            r0 = op_root(t["args"][0])
            if r0 is None:
                continue
            tgt = base(r0)
            if not (tgt & coll):
                continue
            n += 1
            ikey = "%s@%s" % (k, t["callee_name"])
            front = t["callee_name"] == "push_front" or (t["callee_name"] == "insert" and len(t["args"]) > 2 and t["args"][1].get("k") == "const" and str(t["args"][1].get("val")) == "0")
            if front:
                res.inst(ikey, t["sp"]["file"], t["sp"]["line"], "ok", "the definition is put in front of its lifted statements")
            else:
                res.inst(ikey, t["sp"]["file"], t["sp"]["line"], "violation")
                res.violate(ikey, "%s appends the translated definition behind the statements lifted out of its body (%s): when main's body lifts a "
                            "statement the program no longer starts with main - the entry point and the argument count of the C driver are "
                            "taken from a lifted label" % (k.split("::")[-1], t["callee_name"]), t["sp"]["file"], t["sp"]["line"])
    if n < 1:
        raise AnalysisError("R-DEFFIRST: no function adds a translated definition to the collection it lends to the translation state")
    return res
