"""R-ISEL: instruction selection templates validated on a symbolic machine, for every operand placement.

For each method of the backend's `Instructions` impl (add/sub/mul/div/rem/mov/load_immediate and the twelve conditional
jumps) and each placement of its operands over registers and spill slots, the emission function's MIR is folded into the
instruction list it pushes; that list is run on a symbolic machine (analysis/isa.py) whose operand syntax comes from the
repository's own `Print for Code`; the final state must hold the specified result in the target location and leave every
other variable location, the stack pointer and memory outside the target slot / reserved scratch slot unchanged."""
import itertools

from .. import backend, isa, interp
from ..core import RuleResult
from ..facts import AnalysisError
from ..interp import Adt, Sym, Vec

OPS = {"add": "add", "sub": "sub", "mul": "mul", "div": "sdiv", "rem": "srem"}
SORTS = {"equal": "Equal", "not_equal": "NotEqual", "less": "Less", "less_or_equal": "LessOrEqual",
         "greater": "Greater", "greater_or_equal": "GreaterOrEqual"}
ZERO_SORTS = {"zero": "Equal", "not_zero": "NotEqual", "less_zero": "Less", "less_or_equal_zero": "LessOrEqual",
              "greater_zero": "Greater", "greater_or_equal_zero": "GreaterOrEqual"}


IMM_VALUES = [0, 1, -1, 42, 0xFFFF, 0x10000, -0x10000, 0x7FFFFFFF, 0x80000000, -0x80000000, -0x80000001, 0xFFFFFFFF, 0x100000000,
              0x0000FFFF00000000, 0x123456789ABCDEF0 - (1 << 64) if 0x123456789ABCDEF0 >= 1 << 63 else 0x123456789ABCDEF0,
              -0x123456789ABCDEF, 0x7FFFFFFFFFFFFFFF, -0x8000000000000000, -0x7FFFFFFFFFFFFFFF, 0x0001000000000000, -2]


class ConstMap(dict):
    """the constants of a backend's config module by name.  A constant asked for under the name it has on the pinned tree
    (audit/consts.toml, frozen by bin/gen-anchors) that is gone is found again when exactly one constant of the module has its type
    and value and a name the pinned module did not have: a renamed constant keeps its role"""

    def __init__(self, crate, items):
        super().__init__(items)
        self.crate = crate

    def _pinned(self):
        import os
        import tomllib
        from ..facts import VERIF
        with open(os.path.join(VERIF, "audit", "consts.toml"), "rb") as fh:
            rows = tomllib.load(fh).get("const", [])
        return {r["name"]: r for r in rows if r["crate"] == self.crate}

    def __missing__(self, name):
        pinned = self._pinned()
        row = pinned.get(name)
        if row:
            cands = [k for k, v in self.items() if k not in pinned and v.get("ty") == row["ty"] and
                     str(v.get("val", v.get("repr", v.get("str")))) == row["value"]]
            if len(cands) == 1:
                return dict.__getitem__(self, cands[0])
        raise AnalysisError("the constant %s of %s::config is gone and no single new constant of the module has its type and value" % (name, self.crate))

    def get(self, name, default=None):
        try:
            return self[name]
        except AnalysisError:
            return default


class Target:
    """per-backend construction of temporaries and knowledge of scratch locations (taken from the repo's consts)"""

    def __init__(self, ctx, b):
        self.ctx = ctx
        self.b = b
        self.crate = backend.BACKENDS[b]["crate"]
        fx = ctx.fx
        self.names = backend.register_names(ctx, b) if b != "rv64" else {}
        self.consts = ConstMap(self.crate, {k.split("::")[-1]: v for k, v in fx.consts.items() if k.startswith(self.crate + "::config::")})
        self.reserved = self.consts["RESERVED"]["val"]
        self.instr_prefix = "<%s::Backend as axcut2backend::code::Instructions<" % self.crate

    def method(self, name):
        ks = [k for k in self.ctx.fx.fns if k.startswith(self.instr_prefix) and k.endswith(">::" + name)]
        if len(ks) != 1:
            raise AnalysisError("R-ISEL: method %s of %s not found (%d)" % (name, self.b, len(ks)))
        return ks[0]

    def reg_val(self, n):
        R = self.crate + "::config::Register"
        if self.b == "x86_64":
            return Adt(R, "Register", {"0": n})
        if self.b == "aarch64":
            return Adt(R, "X", {"0": n})
        return Adt(R, "Register", {"0": n}) if self.ctx.fx.adts[R]["kind"] == "struct" else Adt(R, "X", {"0": n})

    def reg(self, n):
        if self.b == "rv64":
            return self.reg_val(n)
        return Adt(self.crate + "::config::Temporary", "Register", {"0": self.reg_val(n)})

    def spill(self, k):
        return Adt(self.crate + "::config::Temporary", "Spill", {"0": Adt(self.crate + "::config::Spill", "Spill", {"0": k})})

    def const_reg_name(self, cname):
        c = self.consts.get(cname)
        if not c or "repr" not in c:
            return None
        v = interp.parse_repr(c["repr"], c["ty"], self.ctx.fx, crate=self.crate)
        return self.names.get(repr(v))

    def scratch_regs(self):
        if self.b == "rv64":
            c = self.consts.get("TEMP")
            v = interp.parse_repr(c["repr"], c["ty"], self.ctx.fx, crate=self.crate)
            return {"X%d" % v.fields["0"]}
        return {n for n in (self.const_reg_name("TEMP"), self.const_reg_name("TEMP2")) if n}

    def loc_of(self, t):
        """('reg', name) or ('mem', ('sp0', off))"""
        if self.b == "rv64":
            return ("reg", "zero" if t.fields["0"] == 0 else "X%d" % t.fields["0"])
        if t.variant == "Register" and self.b != "rv64":
            return ("reg", self.names[repr(t.fields["0"])])
        if t.variant == "Spill":
            k = t.fields["0"].fields["0"]
            _, outs = backend.fold(self.ctx, self.crate + "::config::stack_offset", [t.fields["0"]])
            off = interp.sole_int(outs[0].result)
            return ("mem", ("sp0", off))
        return ("reg", self.names.get(repr(t), repr(t)))

    def spill_temp_slot(self):
        if self.b == "rv64":
            return None
        c = self.consts.get("SPILL_TEMP")
        if not c:
            return None
        v = interp.parse_repr(c["repr"], c["ty"], self.ctx.fx, crate=self.crate)
        _, outs = backend.fold(self.ctx, self.crate + "::config::stack_offset", [v])
        return ("sp0", interp.sole_int(outs[0].result))


def _read_loc(m, loc):
    if loc[0] == "reg":
        return m.r(loc[1])
    a = loc[1]
    if a not in m.mem:
        m.mem[a] = isa.var("mem:%s%+d" % a)
    return m.mem[a]


def _init_machine(arch, locs):
    m = isa.Machine(arch)
    init = {}
    for loc in locs:
        v = isa.var("v:%s" % (loc[1] if loc[0] == "reg" else "slot%+d" % loc[1][1]))
        init[loc] = v
        if loc[0] == "reg":
            m.regs[loc[1]] = v
        else:
            m.mem[loc[1]] = v
    return m, init


def check_effect(tg, m, init, target_loc, expect, allow_flags=True):
    """generic frame condition: only target, scratch registers and the reserved scratch slot may differ from the initial state"""
    problems = list(m.errors)
    scratch = tg.scratch_regs()
    sp = isa.SP[tg.b]
    if m.r(sp) != ("addr", "sp0", 0):
        problems.append("stack pointer changed: %s" % isa.show(m.r(sp)))
    if target_loc is not None:
        got = _read_loc(m, target_loc)
        if got != isa.norm(expect):
            problems.append("target %s holds %s, expected %s" % (target_loc[1], isa.show(got), isa.show(isa.norm(expect))))
    for r in set(m.written_regs):
        if r == sp or (target_loc and target_loc == ("reg", r)) or r in scratch:
            continue
        before = init.get(("reg", r), isa.var("init:" + r))
        if m.r(r) != before:
            problems.append("register %s clobbered (now %s)" % (r, isa.show(m.r(r))))
    sts = tg.spill_temp_slot()
    for a in set(m.written_mem):
        if target_loc and target_loc == ("mem", a):
            continue
        if a == sts:
            continue
        before = init.get(("mem", a))
        if before is None or m.mem[a] != before:
            problems.append("memory %s%+d overwritten" % a if isinstance(a[1], int) else "memory %s overwritten" % (a,))
    return problems


def temporary_at(tg, position):
    """the temporary the backend assigns to an environment position (folded from temporary_from_position)"""
    if tg.b == "rv64":
        return tg.reg_val(position + tg.reserved)
    key = tg.crate + "::utils::temporary_from_position"
    _, outs = backend.fold(tg.ctx, key, [position])
    outs = [o for o in outs if isinstance(o.result, Adt)]
    if len(outs) != 1:
        raise AnalysisError("R-ISEL: temporary_from_position(%d) could not be folded for %s" % (position, tg.b))
    return outs[0].result


def int_positions(tg):
    """environment positions (variable index p -> Snd temporary at 2p+1) straddling the register/spill boundary"""
    reg_num = tg.consts["REGISTER_NUM"]["val"]
    nreg_vars = (reg_num - tg.reserved) // 2
    ps = sorted({0, 1, 2, nreg_vars - 2, nreg_vars - 1, nreg_vars, nreg_vars + 1, nreg_vars + 2})
    if tg.ctx.tier == "thorough":
        ps = list(range(0, nreg_vars + 4))      # every position up to three beyond the register file
    if tg.b == "rv64":
        ps = [p for p in ps if p < nreg_vars] + [3, 4, 5]      # no spills: the capacity assertion fires beyond the register file
    return sorted({p for p in ps if p >= 0})


def placements(tg):
    return [temporary_at(tg, 2 * p + 1) for p in int_positions(tg)]


def rule_isel(b):
    def rule(ctx):
        res = RuleResult("R-ISEL/" + b, "instruction-selection templates of the %s backend validated for every operand placement "
                         "(registers incl. the special ones, spill slots, coinciding operands): the emission function is folded "
                         "from MIR into its instruction list, the list is run on a symbolic machine whose operand syntax is the "
                         "repo's own `Print for Code`, and the final state must be `target = op(src1, src2)` (signed ops), "
                         "`flags = cmp(fst, snd)` with the jump condition of the sort, resp. `target = source/immediate`, with every "
                         "other variable register, the stack pointer and memory outside the target slot unchanged" % b)
        tg = Target(ctx, b)
        P = placements(tg)
        arch = b
        n_bad = 0

        def fold_list(key, args, vec_index):
            v = Vec()
            a = list(args)
            a.insert(vec_index, v)
            _, outs = backend.fold(ctx, key, a)
            msg = backend.fold_verdict(outs, "R-ISEL: %s" % key.split(">::")[-1])
            if msg:
                return None         # the emission function panics on this placement
            outs = [o for o in outs if not getattr(o, "diverged", None)]
            return outs[0].final.locals[vec_index + 1].items

        # arithmetic
        for name, sem in OPS.items():
            key = tg.method(name)
            f = ctx.fx.fns[key]
            bad = []
            n = 0
            for (it, t), (i1, s1), (i2, s2) in itertools.product(enumerate(P), enumerate(P), enumerate(P)):
                if not (i1 < it and i2 < it):
                    # Op binds a new variable at the end of the environment: the target position lies behind both sources
                    continue
                codes = fold_list(key, [t, s1, s2], 3)
                n += 1
                if codes is None:
                    bad.append(("fold", t, s1, s2, ["the emission function panics on this input"]))
                    continue
                locs = {tg.loc_of(x) for x in (t, s1, s2)} | {tg.loc_of(x) for x in P}
                m, init = _init_machine(arch, locs)
                isa.run(ctx, arch, codes, m)
                expect = (sem, init[tg.loc_of(s1)], init[tg.loc_of(s2)])
                pr = check_effect(tg, m, init, tg.loc_of(t), expect)
                if pr:
                    bad.append((name, t, s1, s2, pr, codes))
            ikey = "%s:%s" % (b, name)
            if bad:
                nm, t, s1, s2, pr = bad[0][:5]
                res.inst(ikey, f["sp"]["file"], f["sp"]["line"], "violation", "%d of %d placements wrong" % (len(bad), n))
                res.violate(ikey, "%s(%s <- %s, %s): %s  [%d of %d placements wrong; emitted: %s]" %
                            (name, _p(tg, t), _p(tg, s1), _p(tg, s2), "; ".join(pr[:3]), len(bad), n,
                             " | ".join(repr(c) for c in (bad[0][5] if len(bad[0]) > 5 else []))[:300]), f["sp"]["file"], f["sp"]["line"])
            else:
                res.inst(ikey, f["sp"]["file"], f["sp"]["line"], "ok", "%d placements" % n)
        # add(temp, temp, tag): the dispatch of Switch (target coincides with the first source, both the scratch temporary)
        cfg_prefix = "<%s::Backend as axcut2backend::config::Config<" % tg.crate
        tk = [k for k in ctx.fx.fns if k.startswith(cfg_prefix) and k.endswith(">::temp")]
        rk = [k for k in ctx.fx.fns if k.startswith(cfg_prefix) and k.endswith(">::return1")]
        if len(tk) != 1 or len(rk) != 1:
            raise AnalysisError("R-ISEL: Config::temp/return1 of %s not found" % b)
        temp_t = backend.fold(ctx, tk[0], [])[1][0].result
        ret1_t = backend.fold(ctx, rk[0], [])[1][0].result
        key = tg.method("add")
        f = ctx.fx.fns[key]
        bad = []
        for s2 in P:
            codes = fold_list(key, [temp_t, temp_t, s2], 3)
            if codes is None:
                bad.append((s2, ["the emission function panics on this input"]))
                continue
            m, init = _init_machine(arch, {tg.loc_of(x) for x in P} | {tg.loc_of(temp_t)})
            isa.run(ctx, arch, codes, m)
            pr = list(m.errors)
            got = _read_loc(m, tg.loc_of(temp_t))
            if got != isa.norm(("add", init[tg.loc_of(temp_t)], init[tg.loc_of(s2)])):
                pr.append("scratch holds %s, expected table address + tag" % isa.show(got))
            for loc in {tg.loc_of(x) for x in P}:
                if _read_loc(m, loc) != init[loc]:
                    pr.append("%s clobbered" % (loc[1],))
            if pr:
                bad.append((s2, pr))
        if bad:
            res.inst(b + ":add(temp,temp,tag)", f["sp"]["file"], f["sp"]["line"], "violation")
            res.violate(b + ":add(temp,temp,tag)", "add(TEMP <- TEMP, %s) as used by Switch: %s" % (_p(tg, bad[0][0]), "; ".join(bad[0][1][:3])), f["sp"]["file"], f["sp"]["line"])
        else:
            res.inst(b + ":add(temp,temp,tag)", f["sp"]["file"], f["sp"]["line"], "ok", "%d placements of the tag" % len(P))
        # control transfers: jump(t), add_and_jump(t, imm), load_label(t, L), jump_label(L), jump_label_fixed(L)
        IMMT = tg.crate + "::config::Immediate" if b != "rv64" else None
        for name in ("jump", "add_and_jump", "load_label"):
            key = tg.method(name)
            f = ctx.fx.fns[key]
            bad = []
            for t in P + [temp_t]:
                for imm in ((0, 5, 40, 320) if name == "add_and_jump" else (None,)):  # jump_length(n) for up to 64 xtors (capacity note beyond)
                    args = [t] + ([Adt(IMMT, "Immediate", {"val": imm}) if IMMT else imm] if imm is not None else []) + (["L"] if name == "load_label" else [])
                    codes = fold_list(key, args, len(args))
                    if codes is None:
                        bad.append((t, ["the emission function panics on this input"]))
                        continue
                    locs = {tg.loc_of(x) for x in P} | {tg.loc_of(temp_t)}
                    m, init = _init_machine(arch, locs)
                    isa.run(ctx, arch, codes, m)
                    pr = list(m.errors)
                    if name == "load_label":
                        got = _read_loc(m, tg.loc_of(t))
                        if got[0] != "var" or not got[1].startswith("label:") or "L" not in got[1]:
                            pr.append("target holds %s, expected the address of the label" % isa.show(got))
                        pr += [x for x in check_effect(tg, m, init, None, None) if "clobbered" in x and tg.loc_of(t)[1] not in x]
                    else:
                        j = [e for e in m.events if e[0] == "jmp"]
                        want = init[tg.loc_of(t)] if name == "jump" else isa.norm(("add", init[tg.loc_of(t)], isa.const(imm)))
                        if len(j) != 1 or j[0][2] != want:
                            pr.append("jumps to %s, expected %s" % (isa.show(j[0][2]) if j and j[0][2] else "?", isa.show(want)))
                        for loc in locs - {tg.loc_of(t)}:
                            if loc[1] in tg.scratch_regs():
                                continue
                            if _read_loc(m, loc) != init[loc]:
                                pr.append("%s clobbered" % (loc[1],))
                    if pr:
                        bad.append((t, pr))
            ikey = "%s:%s" % (b, name)
            if bad:
                res.inst(ikey, f["sp"]["file"], f["sp"]["line"], "violation")
                res.violate(ikey, "%s(%s): %s [%d cases wrong]" % (name, _p(tg, bad[0][0]), "; ".join(bad[0][1][:3]), len(bad)), f["sp"]["file"], f["sp"]["line"])
            else:
                res.inst(ikey, f["sp"]["file"], f["sp"]["line"], "ok")
        # mov(return1, x): Exit
        key = tg.method("mov")
        f = ctx.fx.fns[key]
        bad = []
        for s in P:
            codes = fold_list(key, [ret1_t, s], 2)
            if codes is None:
                bad.append((s, ["the emission function panics on this input"]))
                continue
            m, init = _init_machine(arch, {tg.loc_of(x) for x in P})
            isa.run(ctx, arch, codes, m)
            pr = list(m.errors)
            if _read_loc(m, tg.loc_of(ret1_t)) != init[tg.loc_of(s)]:
                pr.append("return register holds %s" % isa.show(_read_loc(m, tg.loc_of(ret1_t))))
            if pr:
                bad.append((s, pr))
        if bad:
            res.inst(b + ":mov(return1,x)", f["sp"]["file"], f["sp"]["line"], "violation")
            res.violate(b + ":mov(return1,x)", "mov(RETURN1 <- %s) as used by Exit: %s" % (_p(tg, bad[0][0]), "; ".join(bad[0][1][:3])), f["sp"]["file"], f["sp"]["line"])
        else:
            res.inst(b + ":mov(return1,x)", f["sp"]["file"], f["sp"]["line"], "ok", "%d placements" % len(P))
        # mov
        key = tg.method("mov")
        f = ctx.fx.fns[key]
        bad = []
        n = 0
        for t, s in itertools.product(P, P):
            codes = fold_list(key, [t, s], 2)
            n += 1
            if codes is None:
                bad.append((t, s, ["the emission function panics on this input"], []))
                continue
            m, init = _init_machine(arch, {tg.loc_of(x) for x in P})
            isa.run(ctx, arch, codes, m)
            pr = check_effect(tg, m, init, tg.loc_of(t), init[tg.loc_of(s)])
            if pr:
                bad.append((t, s, pr, codes))
        if bad:
            t, s, pr, codes = bad[0]
            res.inst(b + ":mov", f["sp"]["file"], f["sp"]["line"], "violation")
            res.violate(b + ":mov", "mov(%s <- %s): %s [%d of %d placements wrong; emitted %s]" % (_p(tg, t), _p(tg, s), "; ".join(pr[:3]), len(bad), n, " | ".join(map(repr, codes))[:300]),
                        f["sp"]["file"], f["sp"]["line"])
        else:
            res.inst(b + ":mov", f["sp"]["file"], f["sp"]["line"], "ok", "%d placements" % n)
        # load_immediate: boundary values of every magnitude in every placement
        key = tg.method("load_immediate")
        f = ctx.fx.fns[key]
        IMM = tg.crate + "::config::Immediate" if b != "rv64" else None
        bad = []
        n = 0
        imm_values = list(IMM_VALUES)
        if ctx.tier == "thorough":
            import random, os
            rnd = random.Random(int(os.environ.get("VERIF_SEED", "0") or 0))
            for sh in range(0, 64):
                imm_values += [1 << sh if sh < 63 else -(1 << 63), (1 << sh) - 1, -(1 << sh)]
            for hw in range(4):
                imm_values += [0xFFFF << (16 * hw) if hw < 3 else -(1 << 48), 0x1234 << (16 * hw) if hw < 3 else 0x1234 << 47]
            imm_values += [rnd.randrange(-(1 << 63), 1 << 63) for _ in range(64)]
            imm_values = sorted({v for v in imm_values if -(1 << 63) <= v < (1 << 63)})
        # the literal reaches load_immediate through Config::i64_to_immediate (Literal::code_statement): fold that conversion too
        ck = [k for k in ctx.fx.fns if k.startswith(cfg_prefix) and k.endswith(">::i64_to_immediate")]
        if len(ck) != 1:
            raise AnalysisError("R-ISEL: Config::i64_to_immediate of %s not found" % b)
        conv = {}
        conv_bad = []
        for val in imm_values:
            outs = backend.fold(ctx, ck[0], [val])[1]
            r = outs[0].result if len(outs) == 1 else None
            got = interp.sole_int(r)
            conv[val] = r
            if not isinstance(got, int) or isinstance(got, bool) or got != val:
                conv_bad.append((val, got))
        fc = ctx.fx.fns[ck[0]]
        if conv_bad:
            res.inst(b + ":i64_to_immediate", fc["sp"]["file"], fc["sp"]["line"], "violation")
            res.violate(b + ":i64_to_immediate", "i64_to_immediate(%d) yields %r: the literal of the program is not the value loaded [%d of %d boundary values wrong]"
                        % (conv_bad[0][0], conv_bad[0][1], len(conv_bad), len(imm_values)), fc["sp"]["file"], fc["sp"]["line"])
        else:
            res.inst(b + ":i64_to_immediate", fc["sp"]["file"], fc["sp"]["line"], "ok", "%d boundary values" % len(imm_values))
        for t in P:
            for val in imm_values:
                imm = conv[val] if conv.get(val) is not None else (Adt(IMM, "Immediate", {"val": val}) if IMM else val)
                codes = fold_list(key, [t, imm], 2)
                n += 1
                if codes is None:
                    bad.append((t, val, ["the emission function panics on this input"], []))
                    continue
                m, init = _init_machine(arch, {tg.loc_of(x) for x in P})
                isa.run(ctx, arch, codes, m)
                pr = check_effect(tg, m, init, tg.loc_of(t), isa.const(val))
                if pr:
                    bad.append((t, val, pr, codes))
        ikey = b + ":load_immediate"
        if bad:
            groups = {}
            for t, val, pr, codes in bad:
                groups.setdefault((t.variant, pr[0].split(":")[0]), []).append((t, val, pr, codes))
            for (tv, _), lst in sorted(groups.items()):
                t, val, pr, codes = lst[0]
                res.inst(ikey + ":" + tv, f["sp"]["file"], f["sp"]["line"], "violation")
                res.violate(ikey + ":" + tv, "load_immediate(%s <- %d): %s [%d of %d (placement, value) pairs wrong; emitted %s]" %
                            (_p(tg, t), val, "; ".join(pr[:2]), len(bad), n, " | ".join(map(repr, codes))[:200]), f["sp"]["file"], f["sp"]["line"])
        else:
            res.inst(ikey, f["sp"]["file"], f["sp"]["line"], "ok", "%d (placement, value) pairs" % n)
        # conditional jumps
        for table, two in ((SORTS, True), (ZERO_SORTS, False)):
            for suffix, sort in table.items():
                name = "jump_label_if_" + suffix
                key = tg.method(name)
                f = ctx.fx.fns[key]
                bad = []
                n = 0
                combos = itertools.product(P, P) if two else ((x,) for x in P)
                for ops in combos:
                    args = list(ops) + ["L"]
                    codes = fold_list(key, args, len(args))
                    n += 1
                    if codes is None:
                        bad.append((ops, ["the emission function panics on this input"], []))
                        continue
                    m, init = _init_machine(arch, {tg.loc_of(x) for x in P})
                    isa.run(ctx, arch, codes, m)
                    pr = check_effect(tg, m, init, None, None)
                    a = init[tg.loc_of(ops[0])]
                    bb = init[tg.loc_of(ops[1])] if two else isa.const(0)
                    jcc = [e for e in m.events if e[0] == "jcc"]
                    if len(jcc) != 1:
                        pr.append("%d conditional jumps emitted" % len(jcc))
                    else:
                        _, cc, flags, label = jcc[0]
                        if flags != isa.norm(("cmp", a, bb)):
                            pr.append("flags at the jump are %s, expected cmp(%s, %s)" % (isa.show(flags), isa.show(a), isa.show(bb)))
                        if cc != sort:
                            pr.append("jump condition %s, expected %s" % (cc, sort))
                        if label != "L":
                            pr.append("jump target %r is not the given label" % (label,))
                    if [e for e in m.events if e[0] in ("call", "ret", "jmp")]:
                        pr.append("unexpected control transfer")
                    if pr:
                        bad.append((ops, pr, codes))
                ikey = "%s:%s" % (b, name)
                if bad:
                    ops, pr, codes = bad[0]
                    res.inst(ikey, f["sp"]["file"], f["sp"]["line"], "violation")
                    res.violate(ikey, "%s(%s): %s [%d of %d placements wrong; emitted %s]" % (name, ", ".join(_p(tg, o) for o in ops), "; ".join(pr[:3]), len(bad), n,
                                                                                             " | ".join(map(repr, codes))[:300]), f["sp"]["file"], f["sp"]["line"])
                else:
                    res.inst(ikey, f["sp"]["file"], f["sp"]["line"], "ok", "%d placements" % n)
        res.require_floor(19)
        return res
    rule.__name__ = "rule_isel_" + b
    return rule


def _p(tg, t):
    loc = tg.loc_of(t)
    return loc[1] if loc[0] == "reg" else "[sp%+d]" % loc[1][1]


def rule_isel_mov_only(ctx):
    """the `mov` rows of R-ISEL for the three backends (used by C11)"""
    out = []
    for b in ("x86_64", "aarch64", "rv64"):
        r = rule_isel(b)(ctx)
        r.instances = [i for i in r.instances if i["key"].endswith(":mov")]
        r.violations = [v for v in r.violations if v.key.endswith(":mov")]
        r.nontrivial = {i["key"] for i in r.instances}
        r.obligations = len(r.instances)
        r.discharged = len([i for i in r.instances if i["verdict"] == "ok"])
        out.append(r)
    return out


def rule_regfile(ctx):
    """R-REGFILE: the map from environment positions to temporaries"""
    res = RuleResult("R-REGFILE", "the function that assigns a temporary to an environment position (temporary_from_position of the x86-64 and "
                     "AArch64 backends), folded for every position from 0 to well beyond the register file: every register it hands out "
                     "exists on the target and is none of the reserved ones (stack, heap, free, scratch), every spill slot lies inside the "
                     "spill area and is not the scratch slot, and no two positions share a location. A position mapped to a register the "
                     "printer has a name for but the machine does not (`X31`) assembles to nothing")
    for b in ("x86_64", "aarch64"):
        tg = Target(ctx, b)
        reg_num = tg.consts["REGISTER_NUM"]["val"]
        last = reg_num - tg.reserved + 12
        reserved = {n for n in (tg.const_reg_name(c_) for c_ in ("STACK", "HEAP", "FREE", "TEMP", "TEMP2", "RETURN2")) if n} - {None}
        # RETURN1/RETURN2 are ordinary variable registers on some targets: only what the generator keeps for itself is excluded
        reserved = {n for n in (tg.const_reg_name(c_) for c_ in ("STACK", "HEAP", "FREE", "TEMP", "TEMP2")) if n} | {isa.SP[b]}
        scratch = tg.spill_temp_slot()
        space = tg.consts.get("SPILL_SPACE", {}).get("val")
        seen = {}
        bad = []
        n = 0
        f = ctx.fx.fn(tg.crate + "::utils::temporary_from_position")
        for p in range(0, last + 1):
            t = temporary_at(tg, p)
            loc = tg.loc_of(t)
            n += 1
            if loc[0] == "reg":
                if loc[1] not in isa.VALID_REGS[b]:
                    bad.append("position %d is given the register `%s`, which does not exist on %s" % (p, loc[1], b))
                elif loc[1] in reserved:
                    bad.append("position %d is given the reserved register %s" % (p, loc[1]))
            else:
                off = loc[1][1]
                if scratch and loc[1] == scratch:
                    bad.append("position %d is given the scratch slot [sp%+d]" % (p, off))
                if isinstance(space, int) and not (0 <= off < space):
                    bad.append("position %d is given the slot [sp%+d] outside the spill area of %d bytes" % (p, off, space))
            if loc in seen:
                bad.append("positions %d and %d share the location %s" % (seen[loc], p, loc[1] if loc[0] == "reg" else "[sp%+d]" % loc[1][1]))
            seen.setdefault(loc, p)
        ikey = "%s:positions" % b
        if bad:
            res.inst(ikey, f["sp"]["file"], f["sp"]["line"], "violation", "%d problems" % len(bad))
            res.violate(ikey, "%s: %s" % (b, "; ".join(bad[:3])), f["sp"]["file"], f["sp"]["line"])
        else:
            res.inst(ikey, f["sp"]["file"], f["sp"]["line"], "ok", "%d positions: registers exist and are not reserved, slots inside the spill area, all locations distinct" % n)
    return res
