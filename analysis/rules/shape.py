"""R-SHAPE: which shapes reach a panicking wildcard arm (decision-region path enumeration, no solver)."""
from itertools import product

from ..core import RuleResult
from ..facts import AnalysisError
from ..mir import Fn
from .panics import panic_sites


def place_key(pl):
    s = "_%d" % pl["l"]
    for e in pl["p"]:
        if e == "*":
            s = "*" + s
        elif isinstance(e, dict) and "f" in e:
            s += "." + e["n"]
        elif isinstance(e, dict) and "dc" in e:
            s += "@" + e["dc"]
        else:
            s += ".?"
    return s


def place_adt(fn, pl):
    for e in reversed(pl["p"]):
        if isinstance(e, dict) and "f" in e:
            return e.get("adt")
        if isinstance(e, dict) and "dc" in e:
            continue
        if e == "*":
            continue
    return fn.local_core(pl["l"]) or fn.local_adt(pl["l"])


def discr_switches(fn):
    """block -> (place, adt) for blocks that switch on `discriminant(place)`"""
    out = {}
    for bi in fn.reach:
        b = fn.blocks[bi]
        t = b["term"]
        if t["k"] != "switch" or t["discr"].get("k") not in ("copy", "move"):
            continue
        l = t["discr"]["pl"]["l"]
        for s in reversed(b["stmts"]):
            if s["k"] == "assign" and s["lhs"]["l"] == l and not s["lhs"]["p"]:
                if s["rv"]["k"] == "discr":
                    out[bi] = (s["rv"]["pl"], place_adt(fn, s["rv"]["pl"]))
                break
    return out


def shapes_reaching(fx, fn, target, max_paths=20000):
    """Enumerate acyclic paths entry->target; returns list of dict(placekey -> frozenset(variant names)) and the
    place order.  Constraints come only from discriminant switches."""
    sw = discr_switches(fn)
    can = set()
    work = [target]
    while work:
        b = work.pop()
        if b in can:
            continue
        can.add(b)
        work.extend(p for p in fn.pred[b] if p in fn.reach)
    if 0 not in can:
        return [], []
    results = []
    order = []
    count = [0]

    def variants(adt):
        a = fx.adts.get(adt)
        return [v["name"] for v in a["variants"]] if a else None

    def rec(b, cons, onpath):
        if count[0] > max_paths:
            raise AnalysisError("R-SHAPE: path explosion in %s" % fn.key)
        if b == target:
            count[0] += 1
            results.append(dict(cons))
            return
        t = fn.blocks[b]["term"]
        if b in sw and sw[b][1] and variants(sw[b][1]):
            pl, adt = sw[b]
            pk = place_key(pl)
            vs = variants(adt)
            if pk not in order:
                order.append(pk)
            cur = cons.get(pk, frozenset(vs))
            explicit = {}
            for val, tb in t["targets"]:
                if val < len(vs):
                    explicit.setdefault(tb, set()).add(vs[val])
            named = set().union(*explicit.values()) if explicit else set()
            edges = list(explicit.items()) + [(t["otherwise"], set(vs) - named)]
            for tb, allowed in edges:
                nxt = cur & frozenset(allowed)
                if not nxt or tb not in can or tb in onpath:
                    continue
                c2 = dict(cons)
                c2[pk] = nxt
                rec(tb, c2, onpath | {tb})
        else:
            for tb in fn.succ[b]:
                if tb in can and tb not in onpath:
                    rec(tb, cons, onpath | {tb})

    rec(0, {}, {0})
    return results, order


def tuples_of(results, places, universe):
    out = set()
    for r in results:
        doms = [sorted(r.get(p, universe[p])) for p in places]
        out |= set(product(*doms))
    return out


FS_TERM = "scc_core_lang::syntax::terms::FsTerm"
TERM = "scc_core_lang::syntax::terms::Term"

SPECS = [
    {
        "key": "<scc_core_lang::syntax::statements::cut::Cut<FsTerm,FsTerm> as core2axcut::shrinking::Shrinking>::shrink",
        "what": "FsCut::shrink: every well-typed (producer, consumer) pair is handled before the `cannot happen` wildcard",
        "adts": [FS_TERM, FS_TERM],
        # well-typed pairs: producers x consumers minus the ill-typed combinations
        "welltyped": lambda p, c: p in ("XVar", "Literal", "Op", "Mu", "Xtor", "XCase") and c in ("XVar", "Mu", "Xtor", "XCase") and not (
            (p in ("Literal", "Op") and c in ("Xtor", "XCase")) or (p == "Xtor" and c == "Xtor") or (p == "XCase" and c == "XCase")),
        "floor": 18,
    },
]
for _m in ("scc_core_lang::traits::focus::Focusing>::focus", "scc_core_lang::traits::focus::Bind>::bind",
           "scc_core_lang::traits::substitution::Subst>::subst_sim"):
    SPECS.append({
        "key": "<scc_core_lang::syntax::terms::Term<Cns> as " + _m,
        "what": "Term<Cns>: only the producer-only shapes Literal/Op may reach the `cannot happen` wildcard",
        "adts": [TERM],
        "welltyped": lambda v: v in ("XVar", "Mu", "Xtor", "XCase"),
        "floor": 4,
    })
SPECS.append({
    "key": "<axcut::syntax::statements::Statement as axcut::traits::linearize::Linearizing>::linearize",
    "what": "Statement::linearize: only an explicit Substitute may reach the panic",
    "adts": ["axcut::syntax::statements::Statement"],
    "welltyped": lambda v: v != "Substitute",
    "floor": 9,
})


def rule_shape(ctx):
    fx = ctx.fx
    res = RuleResult("R-SHAPE", "wildcard reachability: for each `match` whose fallback arm panics, enumerate the acyclic paths of the "
                     "MIR discriminant-switch region from the function entry to the panicking block; the set of variant tuples that "
                     "can reach it must contain no well-typed shape (FsCut::shrink: 18 producer/consumer pairs; Term<Cns>::{focus,"
                     "bind,subst_sim}: XVar/Mu/Xtor/XCase; Statement::linearize: everything but Substitute)")
    for spec in SPECS:
        f = fx.fn(spec["key"])
        fn = Fn(f)
        pans = [(kind, det, sp, bi) for kind, det, sp, bi in panic_sites(f) if kind == "panic" and bi in fn.reach]
        # the wildcard arm may call a helper of the workspace that never returns (`-> !`: the call has no return block)
        for bi, t in fn.calls():
            if t.get("target") is None and bi in fn.reach and (t.get("callee") or "").split("::")[0] in fx.crates:
                pans.append(("panic", "diverging helper %s" % t.get("callee_name"), t["sp"], bi))
        if not pans:
            # no panicking arm any more: nothing can reach it
            res.inst(spec["key"] + ":no-panic-arm", fn.file, fn.line, "ok", "no panicking wildcard left")
            continue
        allv = []
        for adt in spec["adts"]:
            a = fx.adts.get(adt)
            if not a:
                raise AnalysisError("R-SHAPE: ADT %s missing" % adt)
            allv.append([v["name"] for v in a["variants"]])
        bad_total = set()
        for kind, det, sp, bi in pans:
            results, order = shapes_reaching(fx, fn, bi)
            # scrutinee places of interest: the first len(adts) places switched on whose ADT matches, in order of appearance
            sw = discr_switches(fn)
            places = []
            for pk in order:
                adt = [a for b, (pl, a) in sw.items() if place_key(pl) == pk]
                if adt and adt[0] in spec["adts"] and pk not in places:
                    places.append(pk)
            places = places[:len(spec["adts"])]
            if len(places) != len(spec["adts"]):
                raise AnalysisError("R-SHAPE: %s: expected %d scrutinee places, found %s" % (spec["key"], len(spec["adts"]), places))
            universe = {p: frozenset(allv[i]) for i, p in enumerate(places)}
            reach = tuples_of(results, places, universe)
            bad = {t for t in reach if spec["welltyped"](*t)}
            bad_total |= bad
        wt = [t for t in product(*allv) if spec["welltyped"](*t)]
        if len(wt) < spec["floor"]:
            raise AnalysisError("R-SHAPE: well-typed shape count %d below floor %d" % (len(wt), spec["floor"]))
        for t in wt:
            ikey = "%s:%s" % (spec["key"], "x".join(t))
            if t in bad_total:
                res.inst(ikey, fn.file, pans[0][2]["line"], "violation")
                res.violate(ikey, "well-typed shape (%s) falls through to the panicking wildcard arm (%s): an accepted program can crash the compiler" %
                            (", ".join(t), spec["what"]), fn.file, pans[0][2]["line"])
            else:
                res.inst(ikey, fn.file, fn.line, "ok")
    res.require_floor(18 + 12 + 9)
    return res
