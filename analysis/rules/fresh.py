"""R-FRESH / R-MAXID (identifier freshness discipline), R-SHADOW (shadow filtering in binder nodes)."""
from ..core import RuleResult
from ..facts import AnalysisError
from ..mir import Fn, Flow, op_root, place_fields

ID_CRATES = {"scc_core_lang", "core2axcut", "axcut", "fun2core"}
IDENT_ADTS = ("scc_core_lang::syntax::names::Identifier", "axcut::syntax::names::Identifier")
FRESH_FNS = ("scc_core_lang::syntax::names::fresh_identifier", "axcut::syntax::names::fresh_identifier")
PROG_ADTS = {"scc_core_lang::syntax::program::Prog": "max_id", "scc_core_lang::syntax::program::FsProg": "max_id",
             "axcut::syntax::program::Prog": "max_id"}


def fresh_keys(ctx):
    """the functions that hand out fresh identifiers, found by what they do rather than by their name: they increment the counter
    behind a `&mut ID` by exactly one and build an identifier whose id is read from that counter.  Returns (keys, wrappers):
    wrappers are functions of the same crates that call one and return its identifier (fresh_var, fresh_covar)"""
    def build():
        fx = ctx.fx
        fresh_fns = set()
        for key, f in sorted(fx.fns.items()):
            if f["crate"] not in ID_CRATES or "{" in key:
                continue
            incs, idents = 0, 0
            fn0 = None
            for b in f["blocks"]:
                for s in b["stmts"]:
                    if s["k"] != "assign":
                        continue
                    if s["lhs"]["p"] == ["*"] and f["locals"][s["lhs"]["l"]]["ty"] == "&mut usize":
                        fn0 = fn0 or Fn(f)
                        incs += 1 if _is_increment(fn0, s) else -100
                    rv = s["rv"]
                    if rv["k"] == "agg" and rv.get("agg") == "adt" and rv["adt"] in IDENT_ADTS:
                        fn0 = fn0 or Fn(f)
                        if _id_class(fn0, rv["ops"][rv["fields"].index("id")]) <= {"COUNTER", "OTHER"}:
                            idents += 1
            if incs >= 1 and idents >= 1:
                fresh_fns.add(key)
        wrappers = set()
        for key, f in sorted(fx.fns.items()):
            if f["crate"] not in ID_CRATES or "{" in key or key in fresh_fns:
                continue
            if not any(f["locals"][0]["ty"].endswith(a.split("::")[-1]) for a in IDENT_ADTS):
                continue
            if any(b["term"]["k"] == "call" and (b["term"].get("resolved_key") or b["term"].get("callee_key")) in fresh_fns for b in f["blocks"]):
                wrappers.add(key)
        return fresh_fns, wrappers
    return ctx.memo("fresh_keys", build)


def is_fresh_call(ctx, t, wrappers=True):
    keys, wr = fresh_keys(ctx)
    k = t.get("resolved_key") or t.get("callee_key")
    return k in keys or (wrappers and k in wr)


def rule_fresh(ctx):
    fx = ctx.fx
    res = RuleResult("R-FRESH", "identifier freshness: (i) the only stores through a `&mut ID` counter in core_lang/core2axcut/axcut are "
                     "the `+= 1` of fresh_identifier; (ii) every Identifier{name, id} aggregate takes its id from `const 0` (only in "
                     "Identifier::new), from the counter just incremented (only in fresh_identifier) or from the id of an existing "
                     "identifier; so generated ids are strictly above every existing id and never reused")
    n_store = 0
    fresh_fns, _wr = fresh_keys(ctx)
    if not fresh_fns:
        raise AnalysisError("R-FRESH: no function increments an identifier counter by one and builds an identifier from it")
    FRESH_FNS = tuple(sorted(fresh_fns))
    for key, f in sorted(fx.fns.items()):
        if f["crate"] not in ID_CRATES or "{promoted" in key:
            continue
        fn = None
        for bi, b in enumerate(f["blocks"]):
            for si, s in enumerate(b["stmts"]):
                if s["k"] != "assign":
                    continue
                lhs = s["lhs"]
                # (i) store through a &mut usize local, or into a `max_id` field
                lty = f["locals"][lhs["l"]]["ty"]
                is_ctr_store = (lhs["p"] == ["*"] and lty == "&mut usize")
                fld = [e["n"] for e in lhs["p"] if isinstance(e, dict) and "f" in e]
                is_maxid_field = bool(fld) and fld[-1] == "max_id"
                if is_ctr_store or is_maxid_field:
                    fn = fn or Fn(f)
                    if bi not in fn.reach:
                        continue
                    n_store += 1
                    ikey = "%s@counter-store" % key
                    base = key.split("::{")[0]
                    if base in FRESH_FNS and is_ctr_store:
                        # must be an increment by exactly one: value = (*ctr) + 1 (checked add)
                        ok = _is_increment(fn, s)
                        if ok:
                            res.inst(ikey, s["sp"]["file"], s["sp"]["line"], "ok", "+= 1")
                        else:
                            res.inst(ikey, s["sp"]["file"], s["sp"]["line"], "violation")
                            res.violate(ikey, "fresh_identifier no longer increments the counter by exactly one before use", s["sp"]["file"], s["sp"]["line"])
                    elif is_maxid_field and _maxid_field_store_ok(fn, s):
                        res.inst(ikey + ":field", s["sp"]["file"], s["sp"]["line"], "ok", "max_id field updated from the threaded counter")
                    else:
                        res.inst(ikey, s["sp"]["file"], s["sp"]["line"], "violation")
                        res.violate(ikey, "the identifier counter is written outside fresh_identifier (%s): ids can be reused or fall "
                                    "below existing ones" % ("store through &mut ID" if is_ctr_store else "assignment to .max_id"), s["sp"]["file"], s["sp"]["line"])
                # (ii) Identifier aggregates
                rv = s["rv"]
                if rv["k"] == "agg" and rv.get("agg") == "adt" and rv["adt"] in IDENT_ADTS:
                    fn = fn or Fn(f)
                    if bi not in fn.reach:
                        continue
                    idop = rv["ops"][rv["fields"].index("id")]
                    base = key.split("::{")[0]
                    ikey = "%s@Identifier" % key
                    cls = _id_class(fn, idop)
                    allowed = {"EXISTING"}
                    if (f.get("impl_self_adt") in IDENT_ADTS and not f.get("impl_trait")) and base not in FRESH_FNS:
                        allowed = {"ZERO", "EXISTING"}      # the constructors of the identifier type itself
                    elif base in FRESH_FNS:
                        allowed = {"COUNTER", "OTHER"}      # the counter after its own increment (shape checked at the store)
                    if cls <= allowed and cls:
                        res.inst(ikey, s["sp"]["file"], s["sp"]["line"], "ok", "/".join(sorted(cls)))
                    else:
                        res.inst(ikey, s["sp"]["file"], s["sp"]["line"], "violation")
                        res.violate(ikey, "Identifier built with an id of provenance %s (allowed here: %s): freshness/uniqueness of "
                                    "identifiers is no longer guaranteed" % (sorted(cls), sorted(allowed)), s["sp"]["file"], s["sp"]["line"])
    if n_store < 2:
        raise AnalysisError("R-FRESH: counter stores not found (%d)" % n_store)
    res.require_floor(6)
    return res


def _is_increment(fn, s):
    rv = s["rv"]
    # (*_1) = move (_x.0) where _x = AddWithOverflow(copy (*_1), const 1)   or   = Add(copy (*_1), const 1)
    l = op_root(rv["op"]) if rv["k"] == "use" else None
    cands = []
    if rv["k"] == "binop":
        cands.append(rv)
    elif l is not None:
        for d in fn.defs().get(l, []):
            if d["kind"] == "assign" and d["rv"]["k"] == "binop":
                cands.append(d["rv"])
    for b in cands:
        if b["op"].startswith("Add"):
            consts = [o for o in (b["a"], b["b"]) if o.get("k") == "const"]
            derefs = [o for o in (b["a"], b["b"]) if o.get("k") in ("copy", "move") and o["pl"]["p"] == ["*"] and o["pl"]["l"] == s["lhs"]["l"]]
            if len(consts) == 1 and consts[0].get("val") == 1 and len(derefs) == 1:
                return True
    return False


def _maxid_field_store_ok(fn, s):
    """`self.max_id = <local that was lent as &mut to fresh-name consumers>` is not used in the repo today; accept only
    copies of another max_id field or of the threaded counter local"""
    rv = s["rv"]
    if rv["k"] != "use":
        return False
    o = rv["op"]
    if o.get("k") == "const":
        return False
    flds = place_fields(o["pl"])
    return bool(flds) and flds[-1] == "max_id"


def _id_class(fn, op):
    if op.get("k") == "const":
        return {"ZERO"} if op.get("val") == 0 else {"CONST:%s" % op.get("val")}
    flow = Flow(fn)
    r = op_root(op)
    out = set()
    for o in flow.origins(r, tuple(place_fields(op["pl"]))):
        if o[0] == "arg":
            if o[2] and o[2][-1] == "id":
                out.add("EXISTING")
            elif fn.local_ty(o[1]) == "&mut usize":
                out.add("COUNTER")
            elif fn.local_ty(o[1]) in ("usize", "&usize") and not o[2]:
                out.add("EXISTING")     # an id passed by value (ID parameter)
            else:
                out.add("ARG:%s" % fn.local_ty(o[1]))
        elif o[0] == "const":
            out.add("ZERO" if o[1] == "0" else "CONST:" + o[1])
        elif o[0] == "call":
            t = fn.term(o[1])
            if o[2] and o[2][-1] == "id":
                out.add("EXISTING")
            else:
                out.add("CALL:%s" % t.get("callee_name"))
        else:
            out.add("OTHER")
    return out


def rule_maxid(ctx):
    fx = ctx.fx
    res = RuleResult("R-MAXID", "max_id threading: every Prog/FsProg/axcut Prog aggregate takes max_id from `const 0` (only in "
                     "compile_prog, where every identifier is built by Identifier::new) or from a local initialised from the input "
                     "program's max_id and afterwards only lent as &mut to callees (so it is the counter after all fresh ids were drawn)")
    n = 0
    for key, f in sorted(fx.fns.items()):
        if f["crate"] not in ID_CRATES | {"driver"} or "{promoted" in key:
            continue
        fn = None
        for bi, si, s in ((bi, si, s) for bi, b in enumerate(f["blocks"]) for si, s in enumerate(b["stmts"])):
            rv = s.get("rv")
            if s["k"] != "assign" or rv["k"] != "agg" or rv.get("agg") != "adt" or rv["adt"] not in PROG_ADTS:
                continue
            fn = fn or Fn(f)
            if bi not in fn.reach:
                continue
            n += 1
            op = rv["ops"][rv["fields"].index("max_id")]
            ikey = "%s@%s" % (key, rv["adt"].split("::")[-1])
            if op.get("k") == "const":
                if op.get("val") == 0 and key == "fun2core::program::compile_prog":
                    res.inst(ikey, s["sp"]["file"], s["sp"]["line"], "ok", "0: all identifiers of the translation output have id 0")
                else:
                    res.inst(ikey, s["sp"]["file"], s["sp"]["line"], "violation")
                    res.violate(ikey, "program built with constant max_id = %s although identifiers with generated ids may exist: later fresh ids collide" % op.get("val"),
                                s["sp"]["file"], s["sp"]["line"])
                continue
            ok, why = _threaded_from_input(fn, op)
            if ok:
                res.inst(ikey, s["sp"]["file"], s["sp"]["line"], "ok", why)
            else:
                res.inst(ikey, s["sp"]["file"], s["sp"]["line"], "violation")
                res.violate(ikey, "max_id of the resulting program is not the counter threaded from the input program (%s): ids generated "
                            "by this stage can be reused by the next" % why, s["sp"]["file"], s["sp"]["line"])
    res.require_floor(3)
    return res


def _threaded_from_input(fn, op):
    r = op_root(op)
    flow = Flow(fn)
    org = flow.origins(r, tuple(place_fields(op["pl"])))
    kinds = set()
    for o in org:
        if o[0] in ("arg", "call") and o[2] and o[2][-1] == "max_id":
            kinds.add("input.max_id")
        elif o[0] == "arg" and fn.local_ty(o[1]) == "&mut usize":
            kinds.add("counter-param")
        else:
            kinds.add("%s" % (o[0],))
    if kinds and kinds <= {"input.max_id", "counter-param"}:
        # every other definition of the local must be the initial copy; writes happen only through &mut lending
        defs = [d for d in fn.defs().get(r, []) if not d["proj"]]
        if len(defs) <= 1:
            return True, "/".join(sorted(kinds))
        return False, "local redefined %d times" % len(defs)
    return False, "/".join(sorted(kinds))


def rule_shadow(ctx):
    fx = ctx.fx
    res = RuleResult("R-SHADOW", "shadow-aware substitution: in `Subst::subst_sim` of the binder nodes Mu and Clause the substitution "
                     "lists handed to the recursive call are not the parameters themselves but lists filtered against the node's own "
                     "binder(s); `Uniquify` for Mu/Clause/Def renames a binder (fresh_identifier) and substitutes it in the body "
                     "before recursing")
    # Subst for Mu / Clause (generic struct forms)
    for k in sorted(fx.fns):
        f = fx.fns[k]
        if f.get("impl_trait") != "scc_core_lang::traits::substitution::Subst" or f.get("name") != "subst_sim" or "{promoted" in k:
            continue
        core = f.get("impl_self_adt") or ""
        if core not in ("scc_core_lang::syntax::terms::mu::Mu", "scc_core_lang::syntax::terms::clause::Clause"):
            continue
        fn = Fn(f)
        flow = Flow(fn)
        rec = [(bi, t) for bi, t in fn.calls() if t.get("callee_name") == "subst_sim" and (t.get("callee_trait") or "").endswith("::Subst")]
        ikey = "%s:filtered-lists" % k
        if not rec:
            raise AnalysisError("R-SHADOW: %s has no recursive subst_sim call" % k)
        bad = []
        for bi, t in rec:
            for ai in (1, 2):
                if ai >= len(t["args"]):
                    continue
                a = t["args"][ai]
                r = op_root(a)
                if r is None:
                    continue
                org = flow.origins(r, ())
                if any(o[0] == "arg" and o[1] in (2, 3) and not o[2] for o in org):
                    bad.append((t["sp"]["line"], ai))
        # the binder comparison must exist: a call to `ne`/`eq`/`contains` involving the binder field
        if bad:
            res.inst(ikey, fn.file, fn.line, "violation")
            res.violate(ikey, "%s passes a substitution parameter unfiltered to the recursive call under its own binder (lines %s): "
                        "a substitution for an outer variable rewrites occurrences bound by this node" %
                        (k.split(" as ")[0].lstrip("<"), sorted({b[0] for b in bad})), fn.file, bad[0][0])
        else:
            res.inst(ikey, fn.file, fn.line, "ok", "%d recursive calls, all with filtered lists" % len(rec))
    # Uniquify for Mu / Clause / Def
    for k in sorted(fx.fns):
        f = fx.fns[k]
        if "{promoted" in k or f.get("name") != "uniquify":
            continue
        is_def = k.startswith("scc_core_lang::syntax::def::Def") and k.endswith("::uniquify")
        if f.get("impl_trait") != "scc_core_lang::traits::uniquify::Uniquify" and not is_def:
            continue
        core = f.get("impl_self_adt") or ""
        if core.split("::")[-1] not in ("Mu", "Clause", "Def"):
            continue
        fn = Fn(f)

        def names_of(k0, depth, seen):
            """names of the calls made by k0, by its closures and by the workspace helpers it calls (two levels)"""
            out = set()
            bodies = [k0] + [ck for ck, g in fx.fns.items() if (g.get("parent") or "").startswith(k0)]
            for b in bodies:
                for _, t in Fn(fx.fns[b]).calls():
                    out.add(t.get("callee_name"))
                    k2 = t.get("resolved_key") or (t.get("callee_key") if not t.get("callee_trait") else None)
                    if depth < 2 and k2 in fx.fns and fx.fns[k2]["crate"] == "scc_core_lang" and k2 not in seen and "{closure" not in k2 \
                            and t.get("callee_name") not in ("uniquify", "subst_sim", "subst_var", "subst_covar", "focus", "bind", "bind_many"):
                        out |= names_of(k2, depth + 1, seen | {k2})
            return out
        _fresh_names = {x.split("::")[-1] for ks in fresh_keys(ctx) for x in ks}
        sub = names_of(k, 0, frozenset([k]))
        ikey = "%s:rename-binder" % k
        need_fresh = bool(sub & _fresh_names)
        need_subst = any(n in sub for n in ("subst_sim", "subst_var", "subst_covar"))
        if need_fresh and need_subst and "uniquify" in sub:
            res.inst(ikey, fn.file, fn.line, "ok")
        else:
            res.inst(ikey, fn.file, fn.line, "violation")
            res.violate(ikey, "Uniquify for %s no longer renames its binder with a fresh identifier and substitutes it in the body before "
                        "recursing (fresh: %s, subst: %s)" % (core.split("::")[-1], need_fresh, need_subst), fn.file, fn.line)
    res.require_floor(5)
    return res


def rule_substscope(ctx):
    """R-SUBSTSCOPE: substitution under a binder drops exactly the shadowed entries"""
    import itertools
    from .. import interp as _interp
    from ..interp import Adt as _Adt, Sym as _Sym, Vec as _Vec
    fx = ctx.fx
    res = RuleResult("R-SUBSTSCOPE", "capture/shadowing discipline of Core substitution, decided by folding `Subst::subst_sim` of the binder-carrying "
                     "nodes (mu / mu-tilde abstractions, clauses) over every substitution list of up to three entries drawn from the bound "
                     "name and two other names, in every order: the substitution handed on to the body keeps every entry for another "
                     "name, in order, and contains no entry for the bound (co)variable - wherever that entry stands in the list")
    CL = "scc_core_lang::syntax::"

    def ident(nm, i=0):
        return _Adt(CL + "names::Identifier", "Identifier", {"name": nm, "id": i})

    def run(key, node, prod, cons):
        got = {}

        def hook(I, p, fr, t, args):
            if t.get("callee_name") == "subst_sim" and (t.get("callee_trait") or "").endswith("substitution::Subst") and isinstance(I.deref(args[0]), _Sym):
                def names(v):
                    v = I.deref(v)
                    if not isinstance(v, _Vec):
                        return None
                    out = []
                    for e in v.items:
                        k0 = e.fields.get("0") if isinstance(e, _Adt) else None
                        k0 = I.deref(k0) if k0 is not None else None
                        out.append(k0.fields.get("name") if isinstance(k0, _Adt) else None)
                    return out
                got["prod"], got["cons"] = names(args[1]), names(args[2])
                return args[0]
            return NotImplemented
        I = _interp.Interp(fx, hooks=[hook], max_depth=8, max_paths=64, max_steps=100000)
        mk = lambda lst: _Vec([_Adt(None, None, {"0": ident(nm), "1": _Sym("t_" + nm)}) for nm in lst])
        outs = I.run(fx.fn(key), [node, mk(prod), mk(cons)])
        from ..backend import fold_verdict
        msg = fold_verdict(outs, "R-SUBSTSCOPE: %s" % key)
        if msg:
            return {"panic": msg}
        if not got:
            raise AnalysisError("R-SUBSTSCOPE: %s never substitutes into its body" % key)
        return got

    pool = ("b", "y", "z", "w") if ctx.tier == "thorough" else ("b", "y", "z")
    lists = [()] + [p for k in range(1, len(pool) + 1) for p in itertools.permutations(pool, k)]
    cases = [
        ("mu (binds a covariable)", "<%sterms::mu::Mu<Statement> as scc_core_lang::traits::substitution::Subst>::subst_sim" % CL,
         lambda: _Adt(CL + "terms::mu::Mu", "Mu", {"prdcns": _Adt(CL + "terms::Prd", "Prd", {}), "variable": ident("b"), "statement": _Sym("body"), "ty": _Sym("ty")}), "cons"),
        ("mu-tilde (binds a variable)", "<%sterms::mu::Mu<Statement> as scc_core_lang::traits::substitution::Subst>::subst_sim" % CL,
         lambda: _Adt(CL + "terms::mu::Mu", "Mu", {"prdcns": _Adt(CL + "terms::Cns", "Cns", {}), "variable": ident("b"), "statement": _Sym("body"), "ty": _Sym("ty")}), "prod"),
        ("clause (binds its pattern variables)", "<%sterms::clause::Clause<Statement> as scc_core_lang::traits::substitution::Subst>::subst_sim" % CL,
         lambda: _Adt(CL + "terms::clause::Clause", "Clause", {"prdcns": _Adt(CL + "terms::Prd", "Prd", {}), "xtor": ident("K"),
                                                                "context": _Adt(CL + "context::TypingContext", "TypingContext", {"bindings": _Vec([
                                                                    _Adt(CL + "context::ContextBinding", "ContextBinding", {"var": ident("b"), "chi": _Adt(CL + "context::Chirality", "Prd", {}), "ty": _Sym("ty")}),
                                                                    _Adt(CL + "context::ContextBinding", "ContextBinding", {"var": ident("c"), "chi": _Adt(CL + "context::Chirality", "Cns", {}), "ty": _Sym("ty")})])}),
                                                                "body": _Sym("body")}), "prod"),
    ]
    for label, key, mknode, side in cases:
        if key not in fx.fns:
            raise AnalysisError("R-SUBSTSCOPE: %s not found" % key)
        f = fx.fns[key]
        bad = []
        n = 0
        for lst in lists:
            n += 1
            prod, cons = (lst, ("y",)) if side == "prod" else (("y",), lst)
            got = run(key, mknode(), prod, cons)
            if got.get("panic"):
                bad.append((lst, got["panic"]))
                continue
            if got.get(side) is None:
                raise AnalysisError("R-SUBSTSCOPE: the substitution handed to the body of %s is not a concrete list" % label)
            want = [x for x in lst if x != "b"]
            if got[side] != want:
                bad.append((lst, "the body is substituted with entries for %s, expected %s (the bound name `b` shadowed, all others kept in order)" % (got[side], want)))
            other = "cons" if side == "prod" else "prod"
            if "y" not in (got.get(other) or []):
                bad.append((lst, "the entry for `y` in the other substitution list is lost"))
        ikey = label.split(" ")[0]
        if bad:
            res.inst(ikey, f["sp"]["file"], f["sp"]["line"], "violation", "%d of %d lists" % (len(bad), n))
            res.violate(ikey, "%s with substitution list [%s]: %s [%d of %d lists wrong]" % (label, ", ".join(bad[0][0]), bad[0][1], len(bad), n), f["sp"]["file"], f["sp"]["line"])
        else:
            res.inst(ikey, f["sp"]["file"], f["sp"]["line"], "ok", "%d substitution lists" % n)
    res.require_floor(3)
    return res


def rule_counter(ctx):
    """R-COUNTER: a copy of the identifier counter that is lent to a callee is joined again"""
    fx = ctx.fx
    res = RuleResult("R-COUNTER", "the identifier counter is one cell: wherever a function of core_lang / core2axcut / axcut lends a `&mut ID` to "
                     "a callee that is not its own `&mut ID` parameter (or a field reached through a `&mut` parameter) but a local copy, the "
                     "copy is read again afterwards - stored as the max_id of the result, written back, or compared - so the ids the callee "
                     "drew are not forgotten. A copy that is only lent and then dropped lets two parts of the program draw the same ids: "
                     "binders are no longer unique on a path")
    n = 0
    for key, f in sorted(fx.fns.items()):
        if f["crate"] not in ID_CRATES | {"fun2core", "driver"} or "{promoted" in key:
            continue
        fn = None
        for bi, b in enumerate(f["blocks"]):
            for si, s in enumerate(b["stmts"]):
                if s["k"] != "assign" or s["rv"]["k"] != "ref" or not s["rv"].get("mut"):
                    continue
                pl = s["rv"]["pl"]
                if pl["p"] or f["locals"][pl["l"]]["ty"] != "usize" or pl["l"] <= f["argc"]:
                    continue
                fn = fn or Fn(f)
                if bi not in fn.reach:
                    continue
                L = pl["l"]
                # is the borrow handed to a call?
                lent = []
                work, seen = [s["lhs"]["l"]], set()
                while work:
                    r = work.pop()
                    if r in seen:
                        continue
                    seen.add(r)
                    for u in fn.uses().get(r, []):
                        if u["kind"] == "arg":
                            lent.append(u["term"])
                        elif u["kind"] == "rv" and u["stmt"]["rv"]["k"] in ("use", "ref", "cast") and not u["stmt"]["lhs"]["p"]:
                            work.append(u["stmt"]["lhs"]["l"])
                if not lent:
                    continue
                n += 1
                ikey = "%s@counter-copy:%d" % (key, sum(1 for b2 in f["blocks"][:bi + 1] for s2 in b2["stmts"] if s2["k"] == "assign" and s2["rv"]["k"] == "ref" and s2["rv"].get("mut")
                                                       and not s2["rv"]["pl"]["p"] and s2["rv"]["pl"]["l"] == L))
                # a read of the copy after (one of) the calls
                call_blocks = {bj for bj, blk in enumerate(f["blocks"]) if any(blk["term"] is t_ for t_ in lent)}
                after = set()
                for cb in call_blocks:
                    after |= set(fn.reach_from(cb)) - {cb} | ({cb} if cb in fn.reach_from(cb) and False else set())
                read = False
                for bj in after:
                    blk = f["blocks"][bj]
                    for s2 in blk["stmts"]:
                        if s2["k"] != "assign":
                            continue
                        rv2 = s2["rv"]
                        ops = [rv2.get("op"), rv2.get("a"), rv2.get("b")] + list(rv2.get("ops", []))
                        if any(isinstance(o, dict) and o.get("pl") and o["pl"]["l"] == L and not o["pl"]["p"] for o in ops):
                            read = True
                    t2 = blk["term"]
                    if t2["k"] == "call" and any(a.get("pl") and a["pl"]["l"] == L and not a["pl"]["p"] for a in t2["args"]):
                        read = True
                if read:
                    res.inst(ikey, s["sp"]["file"], s["sp"]["line"], "ok", "the copy is read again after it was lent")
                else:
                    res.inst(ikey, s["sp"]["file"], s["sp"]["line"], "violation")
                    res.violate(ikey, "%s lends a local copy of the identifier counter to %s and never reads the copy again: the ids drawn there are "
                                "forgotten, and what is numbered next draws the same ids again" %
                                (key.split(" as ")[0].lstrip("<").split("::")[-1] if " as " in key else key.split("::")[-1], "/".join(sorted({t_.get("callee_name") or "?" for t_ in lent}))),
                                s["sp"]["file"], s["sp"]["line"])
    # no floor: a tree on which the counter is only ever lent from `&mut` parameters and fields has nothing to join (Prog::focus is
    # the one place that lends a copy on the pinned tree; seeded/C03-g keeps the rule alive in bin/selftest)
    res.inst("counter copies lent: %d" % n, None, None, "ok", nontrivial=False)
    return res


def rule_eta(ctx):
    """R-ETA: a binder is dropped only after asking whether what remains mentions it"""
    fx = ctx.fx
    res = RuleResult("R-ETA", "a function of fun2core / core_lang / core2axcut that is handed a mu- or mu~-abstraction (or a term that may be one) and "
                     "returns a part of the abstraction's body - the producer of `mu a.<p | a>`, say - has dropped the binder; that is an "
                     "eta-contraction, valid only if the bound (co)variable does not occur in the part that is kept. Such a function must ask "
                     "for the free variables of what it keeps (typed_free_vars / free_vars); without the test the variable survives unbound "
                     "in every later stage")
    MU = "scc_core_lang::syntax::terms::mu::Mu"
    TERMS = {MU, "scc_core_lang::syntax::terms::Term", "scc_core_lang::syntax::terms::FsTerm"}
    PASS = {"clone", "deref", "as_ref", "borrow", "unwrap_or_clone", "into", "from", "to_owned"}
    n = 0
    for k, f in sorted(fx.fns.items()):
        if f["crate"] not in ("scc_core_lang", "core2axcut", "fun2core") or "{promoted" in k:
            continue
        ps = [i for i in range(1, f["argc"] + 1) if (f["locals"][i].get("adt") in TERMS or f["locals"][i].get("core") in TERMS)]
        if not ps:
            continue
        n += 1
        fn = Fn(f)
        flow = Flow(fn, extra_pass=lambda t: t.get("callee_name") in PASS)
        hits = set()
        for path in ((), ("0",), ("1",)):
            for o in flow.origins(0, path):
                if o[0] == "arg" and o[1] in ps and "statement" in o[2] and o[2].index("statement") < len(o[2]) - 1:
                    hits.add((o[1], tuple(o[2])))
        if not hits:
            continue
        bodies = [f] + [g for gk, g in fx.fns.items() if (g.get("parent") or "").startswith(k) and "{promoted" not in gk]
        asks = any(b["term"]["k"] == "call" and b["term"].get("callee_name") in ("typed_free_vars", "free_vars") for g in bodies for b in g["blocks"])
        ikey = "%s:binder-dropped" % k
        if asks:
            res.inst(ikey, fn.file, fn.line, "ok", "asks for the free variables of what it keeps")
        else:
            p_, path_ = sorted(hits)[0]
            res.inst(ikey, fn.file, fn.line, "violation")
            res.violate(ikey, "%s returns the part `%s` of the body of an abstraction it was given and drops the abstraction's binder without asking "
                        "whether that part mentions the bound (co)variable: when it does, the variable is unbound from here on" %
                        (k.split("::")[-1], ".".join(path_)), fn.file, fn.line)
    res.inst("functions handed an abstraction or a term: %d" % n, None, None, "ok", nontrivial=False)
    if n < 20:
        raise AnalysisError("R-ETA: only %d functions with a term parameter found" % n)
    return res
