"""R-MEM: the backends' memory-management sequences (`Memory::{store, load, share_block_n, erase_block}`) validated against
a reference semantics of the lazy reference-counting scheme, statically.

For every backend, every class of (length of the context kept, number and chirality of the values stored/loaded), the
emission function is folded from its MIR into the instruction list it pushes (the list has local labels and zero tests).
Every path through the list is followed on the symbolic machine; the zero tests it takes become the path's facts.  The
reference semantics below (written from the module documentation of `axcut2backend::memory` and the backend `memory`
modules: block layout, two free lists, lazy erasure, linked blocks) is then run on a copy of the initial state *using the
same facts*, and the two final states must agree on the heap and free pointers, on every memory cell either of them
wrote, on every variable location the operation defines, and on every location of the context kept (frame).  A zero test
the reference needs but the path never made is reported as such.

Assumption (stated in the evidence): distinct symbolic pointers denote distinct blocks (no aliasing between a block and its
children), both in the reference and in the implementation."""
import itertools

from .. import backend, isa, interp
from ..core import RuleResult
from ..facts import AnalysisError
from ..interp import Adt, Vec
from .abi import binding
from .codegen import Target, temporary_at

AX = "axcut::syntax::"
TN = "axcut2backend::config::TemporaryNumber"


def tctx(bs):
    return Adt(AX + "context::TypingContext", "TypingContext", {"bindings": Vec(list(bs))})


class Layout:
    def __init__(self, tg):
        ctx, crate = tg.ctx, tg.crate
        self.F = tg.consts["FIELDS_PER_BLOCK"]["val"]
        self.rc = _imm_const(tg, "REFERENCE_COUNT_OFFSET")
        self.nxt = _imm_const(tg, "NEXT_ELEMENT_OFFSET")

        def fo(num, i):
            outs = interp.run_fn(ctx.fx, crate + "::config::field_offset", [Adt(TN, num, {}), i])[1]
            if len(outs) != 1:
                raise AnalysisError("R-MEM: field_offset(%s, %d) of %s could not be folded" % (num, i, tg.b))
            r = outs[0].result
            return interp.sole_int(r)
        self.fst = [fo("Fst", i) for i in range(self.F + 1)]
        self.snd = [fo("Snd", i) for i in range(self.F)]
        self.block = self.fst[self.F]

    def problems(self):
        out = []
        slots = [("refcount", self.rc), ("next", self.nxt)] + [("fst%d" % i, o) for i, o in enumerate(self.fst[:self.F])] + \
                [("snd%d" % i, o) for i, o in enumerate(self.snd)]
        for n, o in slots:
            if not isinstance(o, int) or o % 8 or not (0 <= o < self.block):
                out.append("slot %s at offset %r lies outside the block of %r bytes or is misaligned" % (n, o, self.block))
        seen = {}
        for n, o in slots:
            if n in ("refcount", "next"):
                continue
            if o in seen or o in (self.rc, self.nxt):
                out.append("slot %s at offset %d overlaps %s" % (n, o, seen.get(o, "the header")))
            seen[o] = n
        return out


def _imm_const(tg, name):
    c = tg.consts.get(name)
    if c is None:
        raise AnalysisError("R-MEM: const %s missing in %s" % (name, tg.crate))
    if "val" in c:
        return c["val"]
    v = interp.parse_repr(c["repr"], c["ty"], tg.ctx.fx, crate=tg.crate)
    return interp.sole_int(v)


def _reg_const(tg, name):
    c = tg.consts.get(name)
    if c is None:
        return None
    v = interp.parse_repr(c["repr"], c["ty"], tg.ctx.fx, crate=tg.crate)
    if tg.b == "rv64":
        return tg.loc_of(v)[1]
    return tg.names.get(repr(v))


def loc(tg, num, i):
    """location of the Fst/Snd temporary of the variable at environment index i"""
    return tg.loc_of(temporary_at(tg, 2 * i + (0 if num == "Fst" else 1)))


def rd(m, l):
    if l[0] == "reg":
        return m.r(l[1])
    return m.cell(l[1])


def wr(m, l, e):
    if l[0] == "reg":
        m.w(l[1], e)
    else:
        m.mem[l[1]] = isa.norm(e)
        m.written_mem.append(l[1])


class Ref:
    """reference semantics; every decision is taken from the facts of the implementation path under comparison"""

    def __init__(self, tg, lay, m, facts):
        self.tg, self.L, self.m, self.facts = tg, lay, m, facts
        self.heap = _reg_const(tg, "HEAP")
        self.free = _reg_const(tg, "FREE")

    def zero(self, e):
        z = isa.is_zero(self.facts, e)
        if z is None:
            raise isa.SpecNeeds(e)
        return z

    # -- primitive operations of the scheme --
    def share(self, v, n):
        if self.zero(v):
            return
        m, L = self.m, self.L
        m.store_at(v, L.rc, ("add", m.load_at(v, L.rc), isa.const(n)))

    def erase(self, v):
        if self.zero(v):
            return
        m, L = self.m, self.L
        if self.zero(m.load_at(v, L.rc)):
            # last reference: onto the lazy free list, children untouched
            m.store_at(v, L.nxt, m.r(self.free))
            m.w(self.free, v)
        else:
            m.store_at(v, L.rc, ("add", m.load_at(v, L.rc), isa.const(-1)))

    def acquire(self):
        """take the block in HEAP and re-establish `HEAP points to a directly usable block`"""
        m, L = self.m, self.L
        blk = m.r(self.heap)
        nxt = m.load_at(blk, L.nxt)
        if not self.zero(nxt):
            # (1) linear free list not empty
            m.w(self.heap, nxt)
            m.store_at(blk, L.rc, isa.const(0))
            return blk
        old_free = m.r(self.free)
        m.w(self.heap, old_free)
        fnext = m.load_at(old_free, L.nxt)
        m.w(self.free, fnext)
        if self.zero(fnext):
            # (3) bump allocation
            m.w(self.free, ("add", old_free, isa.const(L.block)))
        else:
            # (2) head of the lazy list becomes directly usable: end of the linear list, children erased
            m.store_at(old_free, L.nxt, isa.const(0))
            for i in range(L.F):
                self.erase(m.load_at(old_free, L.fst[i]))
        return blk

    def release(self, blk):
        m, L = self.m, self.L
        m.store_at(blk, L.nxt, m.r(self.heap))
        m.w(self.heap, blk)

    # -- chunking of n values over linked blocks: from the right, F in the last block, F-1 in the others --
    def chunks(self, n):
        out, rest, last = [], n, True
        while rest > 0:
            cap = self.L.F if last else self.L.F - 1
            k = min(cap, rest)
            out.append((rest - k, rest, last))
            rest -= k
            last = False
        return out

    def store(self, chis, r, init):
        """values of the variables at indices r.. (read from the initial state) go to fresh blocks; pointer in Fst(r)"""
        m, L, tg = self.m, self.L, self.tg
        n = len(chis)
        if n == 0:
            wr(m, loc(tg, "Fst", r), isa.const(0))
            return
        link = None
        for lo, hi, last in self.chunks(n):
            blk = m.r(self.heap)
            cap = L.F if last else L.F - 1
            if not last:
                m.store_at(blk, L.fst[L.F - 1], link)
            used = hi - lo
            for j in range(used):
                idx = hi - 1 - j
                fld = cap - 1 - j
                m.store_at(blk, L.snd[fld], init[loc(tg, "Snd", r + idx)])
                if chis[idx] == "Ext":
                    m.store_at(blk, L.fst[fld], isa.const(0))
                else:
                    m.store_at(blk, L.fst[fld], init[loc(tg, "Fst", r + idx)])
            for fld in range(cap - used):
                m.store_at(blk, L.fst[fld], isa.const(0))
            link = self.acquire()
        wr(m, loc(tg, "Fst", r), link)

    def load(self, chis, r, init):
        m, L, tg = self.m, self.L, self.tg
        n = len(chis)
        if n == 0:
            return
        p = init[loc(tg, "Fst", r)]
        if self.zero(m.load_at(p, L.rc)):
            share = False
        else:
            m.store_at(p, L.rc, ("add", m.load_at(p, L.rc), isa.const(-1)))
            share = True
        blk = p
        for lo, hi, last in reversed(self.chunks(n)):
            cap = L.F if last else L.F - 1
            nxt = None
            if not share:
                self.release(blk)
            if not last:
                nxt = m.load_at(blk, L.fst[L.F - 1])
            used = hi - lo
            for j in range(used):
                idx = hi - 1 - j
                fld = cap - 1 - j
                wr(m, loc(tg, "Snd", r + idx), m.load_at(blk, L.snd[fld]))
                if chis[idx] != "Ext":
                    v = m.load_at(blk, L.fst[fld])
                    wr(m, loc(tg, "Fst", r + idx), v)
                    if share:
                        self.share(v, 1)
            blk = nxt


def _mem_key(tg, name):
    ks = [k for k in tg.ctx.fx.fns if k.startswith("<%s::Backend as axcut2backend::memory::Memory<" % tg.crate) and k.endswith(">::" + name)]
    if len(ks) != 1:
        raise AnalysisError("R-MEM: Memory::%s of %s not found (%d)" % (name, tg.b, len(ks)))
    return ks[0]


def _emit(ctx, key, args, vec_index):
    v = Vec()
    a = list(args)
    a.insert(vec_index, v)
    _, outs = backend.fold(ctx, key, a, max_steps=200000)
    msg = backend.fold_verdict(outs, "R-MEM: %s" % key.split(">::")[-1])
    if msg:
        return msg
    outs = [o for o in outs if not getattr(o, "diverged", None)]
    return outs[0].final.locals[vec_index + 1].items


def _init(tg, nvars):
    """initial machine: a named value in every variable location of indices < nvars and in the heap/free registers"""
    m = isa.Machine(tg.b)
    init = {}
    for i in range(nvars):
        for num in ("Fst", "Snd"):
            l = loc(tg, num, i)
            v = isa.var("%s%d" % ("p" if num == "Fst" else "v", i))
            init[l] = v
            if l[0] == "reg":
                m.regs[l[1]] = v
            else:
                m.mem[l[1]] = v
    for nm in ("HEAP", "FREE"):
        r = _reg_const(tg, nm)
        init[("reg", r)] = isa.var(nm.lower())
        m.regs[r] = init[("reg", r)]
    return m, init


def _compare(tg, impl, ref, init, defined, dont_care, scratch_slots):
    """final states must agree: defined locations, frame, heap/free, all written memory"""
    pr = list(impl.errors)
    sp = isa.SP[tg.b]
    if impl.r(sp) != ("addr", "sp0", 0):
        pr.append("stack pointer changed: %s" % isa.show(impl.r(sp)))
    for l in defined:
        a, b = rd(impl, l), rd(ref, l)
        if a != b:
            pr.append("%s holds %s, expected %s" % (_l(l), isa.show(a), isa.show(b)))
    for l in init:
        if l in defined or l in dont_care:
            continue
        a, b = rd(impl, l), rd(ref, l)
        if a != b:
            pr.append("%s holds %s, expected %s%s" % (_l(l), isa.show(a), isa.show(b), " (unchanged)" if b == init[l] else ""))
    scratch = tg.scratch_regs()
    skip_regs = {l[1] for l in list(defined) + list(dont_care) + list(init) if l[0] == "reg"} | scratch | {sp}
    for r in set(impl.written_regs):
        if r in skip_regs:
            continue
        if impl.r(r) != ref.r(r):
            pr.append("register %s clobbered (now %s)" % (r, isa.show(impl.r(r))))
    skip_mem = {l[1] for l in list(defined) + list(dont_care) + list(init) if l[0] == "mem"} | set(scratch_slots)
    for a in sorted(set(impl.written_mem) | set(ref.written_mem), key=repr):
        if a in skip_mem:
            continue
        x, y = impl.cell(a), ref.cell(a)
        if x != y:
            pr.append("memory [%s] holds %s, expected %s" % (_a(a), isa.show(x), isa.show(y)))
    if [e for e in impl.events if e[0] in ("call", "ret", "jmp")]:
        pr.append("unexpected control transfer")
    return pr


def _l(l):
    return l[1] if l[0] == "reg" else "[%s]" % _a(l[1])


def _a(a):
    return "%s%+d" % a if isinstance(a[1], int) else "%s+%s" % a


def _facts_str(facts):
    out = []
    for k, v in facts.items():
        out.append("%s %s 0" % (k if isinstance(k, str) else k, "==" if v else "!="))
    return ", ".join(out)[:300]


def _chi_patterns(n, full):
    if n == 0:
        return [()]
    if full or n <= 2:
        return list(itertools.product(("Ext", "Prd"), repeat=n))
    pats = {("Ext",) * n, ("Prd",) * n, tuple("Ext" if i % 2 else "Cns" for i in range(n)), tuple("Prd" if i % 2 else "Ext" for i in range(n))}
    return sorted(pats)


def rule_mem(b, only_refcount=False):
    def rule(ctx):
        res = RuleResult(("R-MEM/" if not only_refcount else "R-MEMRC/") + b, "memory-management sequences of the %s backend (Memory::store, load, share_block_n, erase_block incl. "
                         "the private acquire/release/erase-children code they expand to) validated on every path of the emitted list "
                         "against a reference semantics of the lazy reference-counting scheme (block layout folded from config; two "
                         "free lists; lazy erasure; linked blocks with F values in the last and F-1 in the other blocks): for each "
                         "(kept-context length, value count, chirality pattern) class spanning registers and spill slots the final "
                         "heap/free pointers, every written memory cell, every loaded/stored variable location and the whole kept "
                         "context must agree with the reference; a zero test the scheme needs but the code omits is reported. "
                         "Assumes distinct symbolic pointers do not alias" % b)
        tg = Target(ctx, b)
        lay = Layout(tg)
        arch = b
        thorough = ctx.tier == "thorough"
        reg_num = tg.consts["REGISTER_NUM"]["val"]
        nreg = (reg_num - tg.reserved) // 2
        spill_slot = tg.spill_temp_slot()
        scratch_slots = [spill_slot] if spill_slot else []
        f0 = ctx.fx.fns[_mem_key(tg, "store")]
        # layout sanity
        lp = lay.problems()
        res.inst(b + ":layout", f0["sp"]["file"], f0["sp"]["line"], "violation" if lp else "ok",
                 "F=%d block=%d refcount@%d next@%d fst=%r snd=%r" % (lay.F, lay.block, lay.rc, lay.nxt, lay.fst[:lay.F], lay.snd))
        if lp:
            res.violate(b + ":layout", "; ".join(lp[:3]), f0["sp"]["file"], f0["sp"]["line"])
        max_paths = 30000 if thorough else 1500
        multi_cap = None if thorough else 120
        stats = {"cases": 0, "paths": 0, "truncated": 0}

        def run_case(op, key, args, vec_index, nvars, spec, defined, dont_care, cap):
            codes = _emit(ctx, key, args, vec_index)
            stats["cases"] += 1
            if isinstance(codes, str):
                return [codes], None
            m0, init = _init(tg, nvars)
            paths = isa.explore(ctx, arch, codes, m0.clone(), max_paths=cap or max_paths)
            if isa.explore.truncated:
                stats["truncated"] += 1
            stats["paths"] += len(paths)
            for m, facts, ex in paths:
                if ex != "end":
                    return ["path leaves the sequence: %r" % (ex,)], facts
                ref_m = m0.clone()
                R = Ref(tg, lay, ref_m, facts)
                try:
                    spec(R, init)
                except isa.SpecNeeds as e:
                    return ["the scheme requires a zero test of %s here, which this path of the emitted code never makes" % e], facts
                pr = _compare(tg, m, ref_m, init, defined, dont_care, scratch_slots)
                if pr:
                    return pr, facts
            return [], None

        def report(ikey, f, bad, n):
            if bad:
                label, pr, facts = bad[0]
                res.inst(ikey, f["sp"]["file"], f["sp"]["line"], "violation", "%d of %d classes wrong" % (len(bad), n))
                res.violate(ikey, "%s: %s  [path: %s; %d of %d classes wrong]" % (label, "; ".join(pr[:3]), _facts_str(facts or {}) or "straight", len(bad), n),
                            f["sp"]["file"], f["sp"]["line"])
            else:
                res.inst(ikey, f["sp"]["file"], f["sp"]["line"], "ok", "%d classes" % n)

        # kept-context lengths straddling the register/spill boundary
        if b == "rv64":
            rs_all = sorted({0, 1, 2, nreg - 8, nreg - 4})
        else:
            rs_all = sorted({0, 1, nreg - 3, nreg - 2, nreg - 1, nreg, nreg + 1})
        rs_all = [r for r in rs_all if r >= 0]
        max_n = 2 * lay.F + 1       # up to 3 linked blocks (the quick tier follows a spread sample of the paths of multi-block classes)

        # ---- share_block_n / erase_block ----
        for name in ("share_block_n", "erase_block"):
            key = _mem_key(tg, name)
            f = ctx.fx.fns[key]
            bad = []
            n_cls = 0
            idxs = sorted({0, 1, nreg - 1, nreg, nreg + 1}) if b != "rv64" else [0, 1, nreg - 1]
            for i in idxs:
                t = temporary_at(tg, 2 * i)
                for n in ((1, 2, 7) if name == "share_block_n" else (None,)):
                    n_cls += 1
                    args = [t] + ([n] if n is not None else [])

                    def spec(R, init, i=i, n=n):
                        v = init[loc(tg, "Fst", i)]
                        if n is None:
                            R.erase(v)
                        else:
                            R.share(v, n)
                    pr, facts = run_case(name, key, args, len(args), i + 1, spec, [], [], None)
                    if pr:
                        bad.append(("%s(%s%s)" % (name, _l(tg.loc_of(t)), "" if n is None else ", %d" % n), pr, facts))
            report("%s:%s" % (b, name), f, bad, n_cls)

        if only_refcount:
            # the part a substitution relies on: share_block_n / erase_block of every temporary, registers and spill slots alike
            res.inst(b + ":coverage", f0["sp"]["file"], f0["sp"]["line"], "ok", "%d classes, %d paths followed" % (stats["cases"], stats["paths"]))
            res.require_floor(3)
            return res
        # ---- store ----
        key = _mem_key(tg, "store")
        f = ctx.fx.fns[key]
        bad = []
        n_cls = 0
        for r in rs_all:
            for n in range(0, max_n + 1):
                if b == "rv64" and r + n > nreg:
                    continue
                for chis in _chi_patterns(n, thorough and n <= lay.F + 1):
                    n_cls += 1
                    kept = tctx([binding(i, "Prd" if i % 2 else "Ext") for i in range(r)])
                    to_store = tctx([binding(r + i, c) for i, c in enumerate(chis)])
                    defined = [loc(tg, "Fst", r)]
                    dont_care = [loc(tg, num, r + i) for i in range(n) for num in ("Fst", "Snd")] + [loc(tg, "Snd", r)]
                    dont_care = [l for l in dont_care if l not in defined]

                    def spec(R, init, chis=chis, r=r):
                        R.store(chis, r, init)
                    # several blocks: the paths multiply (29 per acquired block); the single-block classes cover every path
                    # of the acquire code, so the quick tier follows a spread sample of the product here
                    cap = multi_cap if n > lay.F else None
                    pr, facts = run_case("store", key, [to_store, kept], 2, r + max(n, 1), spec, defined, dont_care, cap)
                    if pr:
                        bad.append(("store(%s after %d kept)" % ("".join(c[0] for c in chis) or "nothing", r), pr, facts))
        report("%s:store" % b, f, bad, n_cls)

        # ---- load ----
        key = _mem_key(tg, "load")
        f = ctx.fx.fns[key]
        bad = []
        n_cls = 0
        for r in rs_all:
            for n in range(0, max_n + 1):
                if b == "rv64" and r + n > nreg:
                    continue
                for chis in _chi_patterns(n, thorough and n <= lay.F + 1):
                    n_cls += 1
                    kept = tctx([binding(i, "Prd" if i % 2 else "Ext") for i in range(r)])
                    to_load = tctx([binding(r + i, c) for i, c in enumerate(chis)])
                    defined = [loc(tg, "Snd", r + i) for i in range(n)] + [loc(tg, "Fst", r + i) for i in range(n) if chis[i] != "Ext"]
                    dont_care = [loc(tg, "Fst", r + i) for i in range(n) if chis[i] == "Ext"]
                    if n == 0:
                        dont_care = [loc(tg, "Fst", r), loc(tg, "Snd", r)]

                    def spec(R, init, chis=chis, r=r):
                        R.load(chis, r, init)
                    pr, facts = run_case("load", key, [to_load, kept], 2, r + max(n, 1), spec, defined, dont_care, None)
                    if pr:
                        bad.append(("load(%s after %d kept)" % ("".join(c[0] for c in chis) or "nothing", r), pr, facts))
        report("%s:load" % b, f, bad, n_cls)
        res.inst(b + ":coverage", f0["sp"]["file"], f0["sp"]["line"], "ok",
                 "%d classes, %d paths followed, %d classes cut at the path cap of %d" % (stats["cases"], stats["paths"], stats["truncated"], max_paths))
        res.require_floor(6)
        return res
    rule.__name__ = "rule_mem_" + b
    return rule
