"""C15: rejection discipline of the type checker (R-ZIP, R-DUP, R-NODUP, R-RESULT, R-LOOKUP, clause-matching exits)."""
from ..core import RuleResult
from ..facts import AnalysisError
from ..mir import Fn, Flow, op_root, place_fields

ERR = "fun::typing::errors::Error"


def zone_fns(fx):
    out = []
    for k, f in sorted(fx.fns.items()):
        if f["crate"] != "fun" or "{promoted" in k or k.startswith(("fun::parser::", "<fun::parser::")):
            continue
        if f.get("impl_trait") in ("core::clone::Clone", "core::fmt::Debug", "core::cmp::PartialEq", "scc_printer::types::Print",
                                   "core::fmt::Display", "miette::protocol::Diagnostic", "core::error::Error", "core::hash::Hash", "core::default::Default"):
            continue
        if "test_common" in k:
            continue
        out.append((k, f))
    return out


def _builds_err(fn, bi):
    """does straight-line code from block bi build an Err(..) result and return?"""
    seen = set()
    b = bi
    for _ in range(12):
        if b in seen:
            return False
        seen.add(b)
        blk = fn.blocks[b]
        for s in blk["stmts"]:
            rv = s.get("rv", {})
            if s["k"] == "assign" and rv.get("k") == "agg" and rv.get("variant") == "Err" and s["lhs"]["l"] == 0:
                return True
        t = blk["term"]
        if t["k"] in ("goto", "drop"):
            b = t["target"]
        elif t["k"] == "call" and t["target"] is not None:
            if t.get("callee_name") == "from_residual":
                return True
            b = t["target"]
        else:
            return False
    return False


def _len_guards(fn):
    """blocks that branch on a comparison of two len() results where the mismatch branch returns Err"""
    flow = Flow(fn)
    out = []
    for bi in sorted(fn.reach):
        t = fn.blocks[bi]["term"]
        if t["k"] != "switch" or t["discr"].get("k") not in ("copy", "move"):
            continue
        l = t["discr"]["pl"]["l"]
        for d in fn.defs().get(l, []):
            if d["kind"] == "assign" and d["rv"]["k"] == "binop" and d["rv"]["op"] in ("Ne", "Eq"):
                srcs = []
                for o in (d["rv"]["a"], d["rv"]["b"]):
                    r = op_root(o)
                    if r is None:
                        continue
                    for org in flow.origins(r, ()):
                        if org[0] == "call" and fn.term(org[1]).get("callee_name") == "len":
                            lt = fn.term(org[1])
                            srcs.append(frozenset(str(x) for x in flow.origins(op_root(lt["args"][0]), tuple(place_fields(lt["args"][0]["pl"])))))
                if len(srcs) == 2:
                    succs = [b for _, b in t["targets"]] + [t["otherwise"]]
                    if any(_builds_err(fn, s) for s in succs):
                        out.append((bi, srcs))
    return out


def rule_zip(ctx):
    fx = ctx.fx
    res = RuleResult("R-ZIP", "every Iterator::zip in the checker (zip silently truncates to the shorter side) is guarded: a comparison of "
                     "the two lengths whose mismatch branch returns Err dominates it, or a dominating `?`-call to is_instance (which "
                     "compares the lengths) precedes it, or both sides derive from the same collection")
    n = 0
    for k, f in zone_fns(fx):
        fn = Fn(f)
        zips = [(bi, t) for bi, t in fn.calls() if t.get("callee_name") == "zip" and (t.get("callee") or "").startswith("core::iter::")]
        if not zips:
            continue
        guards = _len_guards(fn)
        flow = Flow(fn, extra_pass=lambda t: t.get("callee_name") in ("iter", "into_iter", "cloned", "clone", "map", "into", "deref", "as_slice")
                    and (t.get("callee") or "").startswith(("core::", "alloc::")))
        for i, (bi, t) in enumerate(zips):
            n += 1
            ikey = "%s@zip#%d" % (k, i)
            a = flow.origins(op_root(t["args"][0]), tuple(place_fields(t["args"][0]["pl"])) if t["args"][0].get("pl") else ())
            b = flow.origins(op_root(t["args"][1]), tuple(place_fields(t["args"][1]["pl"])) if t["args"][1].get("pl") else ())
            same = bool(a) and a == b
            guarded = any(fn.dominates(g, bi) and g != bi for g, _ in guards)
            # a preceding call of a front-end function that itself compares two lengths and rejects a mismatch (is_instance on the pinned tree)
            def _guarding_callee(gt):
                kk = gt.get("resolved_key") or (gt.get("callee_key") if not gt.get("callee_trait") else None)
                if gt.get("callee_name") == "is_instance":
                    return True
                if kk in fx.fns and fx.fns[kk]["crate"] == "fun" and "{closure" not in kk and kk != k:
                    return bool(_len_guards(Fn(fx.fns[kk])))
                return False
            inst = [gb for gb, gt in fn.calls() if fn.dominates(gb, bi) and gb != bi and _guarding_callee(gt)]
            # is_instance's result must be propagated with `?` (its Err aborts before the zip)
            inst_q = False
            for gb in inst:
                d = fn.term(gb)["dest"]["l"]
                for u in fn.uses().get(d, []):
                    if u["kind"] == "arg" and u["term"].get("callee_name") == "branch":
                        inst_q = True
            caller_guard = False
            if not (guarded or same or inst_q) and "{closure" not in k:
                # a helper that pairs up two lists its callers have compared: every call of it is preceded by the comparison
                sites = []
                for k2, f2 in zone_fns(fx):
                    fn2 = None
                    for b2, t2 in Fn(f2).calls():
                        if k in (t2.get("resolved_key"), t2.get("callee_key")):
                            fn2 = fn2 or Fn(f2)
                            g2 = _len_guards(fn2)
                            ok2 = any(fn2.dominates(g, b2) and g != b2 for g, _ in g2)
                            for gb, gt in fn2.calls():
                                kk_ = gt.get("resolved_key") or (gt.get("callee_key") if not gt.get("callee_trait") else None)
                                if fn2.dominates(gb, b2) and gb != b2 and (
                                        (gt.get("callee_name") in ("is_instance", "check_template", "check") and "types::" in (gt.get("callee_key") or "")) or
                                        (kk_ in fx.fns and fx.fns[kk_]["crate"] == "fun" and "{closure" not in kk_ and bool(_len_guards(Fn(fx.fns[kk_]))))):
                                    ok2 = True
                            sites.append(ok2)
                caller_guard = bool(sites) and all(sites)
            if guarded or same or inst_q or caller_guard:
                res.inst(ikey, t["sp"]["file"], t["sp"]["line"], "ok", "length guard" if guarded else ("same source" if same else ("is_instance(..)? precedes" if inst_q else "every caller compares the lengths first")))
            else:
                res.inst(ikey, t["sp"]["file"], t["sp"]["line"], "violation")
                res.violate(ikey, "zip of two sequences whose lengths are not compared first: a wrong number of arguments/binders/type "
                            "arguments is silently truncated instead of rejected", t["sp"]["file"], t["sp"]["line"])
    # the universe of this rule is "every zip in the checker": fewer zips than today is not a loss of anchors, no zip at all
    # leaves nothing to truncate.  The extractor's liveness for this crate is established by the other rules of C15.
    res.notes.append("zips examined: %d (4 on the pinned tree)" % n)
    # is_instance itself must compare lengths
    fi = Fn(fx.fn("fun::syntax::types::TypeArgs::is_instance"))
    if _len_guards(fi):
        res.inst("fun::syntax::types::TypeArgs::is_instance:len-guard", fi.file, fi.line, "ok")
    else:
        res.inst("fun::syntax::types::TypeArgs::is_instance:len-guard", fi.file, fi.line, "violation")
        res.violate("fun::syntax::types::TypeArgs::is_instance:len-guard", "is_instance no longer rejects a wrong number of type arguments", fi.file, fi.line)
    return res


def rule_dup(ctx):
    fx = ctx.fx
    res = RuleResult("R-DUP", "check-then-insert: every insertion of a declaration into the symbol table (BuildSymbolTable::build) is "
                     "dominated by contains_key on the same map with the same key whose true branch returns Err(DefinedMultipleTimes)")
    n = 0
    # the functions that build the symbol table: everything reachable from build_symbol_table inside the front end
    from .. import callgraph
    cg = callgraph.get(ctx)
    entry = "fun::typing::symbol_table::build_symbol_table"
    fx.fn(entry)
    zone = set(cg.reachable([fx.fn(entry)["key"]], crates={"fun"}))
    for k in sorted(zone):
        f = fx.fns[k]
        if "{promoted" in k:
            continue
        fn = Fn(f)
        flow = Flow(fn)
        ins = [(bi, t) for bi, t in fn.calls() if t.get("callee_name") == "insert" and "HashMap" in (t.get("callee_self") or "")]
        cks = [(bi, t) for bi, t in fn.calls() if t.get("callee_name") == "contains_key" and "HashMap" in (t.get("callee_self") or "")]
        for i, (bi, t) in enumerate(ins):
            n += 1
            ikey = "%s@insert#%d" % (k, i)
            mfield = _field_of(fn, flow, t["args"][0])
            ok = False
            for cb, ct in cks:
                if mfield is not None and _field_of(fn, flow, ct["args"][0]) == mfield and fn.dominates(cb, bi) and cb != bi:
                    # the result of contains_key is branched on and the true branch returns Err
                    d = ct["dest"]["l"]
                    for u in fn.uses().get(d, []):
                        if u["kind"] == "switch":
                            sw = u["term"]
                            succs = [b for _, b in sw["targets"]] + [sw["otherwise"]]
                            if any(_builds_err(fn, s) for s in succs):
                                ok = True
            if ok:
                res.inst(ikey, t["sp"]["file"], t["sp"]["line"], "ok", "guarded insert into %s" % (mfield,))
            else:
                res.inst(ikey, t["sp"]["file"], t["sp"]["line"], "violation")
                res.violate(ikey, "insert into the symbol table (%s) without a preceding contains_key check on the same map that returns Err: a duplicate "
                            "declaration silently replaces the first one" % (mfield,), t["sp"]["file"], t["sp"]["line"])
    if n < 1:
        raise AnalysisError("R-DUP: no insertion into a map found in the functions reachable from build_symbol_table")
    res.notes.append("insertions examined: %d (5 on the pinned tree); functions reachable from build_symbol_table: %d" % (n, len(zone)))
    return res


def _builds_err_reach(fn, b, depth=0):
    return _builds_err(fn, b)


def _field_of(fn, flow, operand):
    r = op_root(operand)
    if r is None:
        return None
    outs = set()
    for o in flow.origins(r, tuple(place_fields(operand["pl"]))):
        if o[0] == "arg" and o[2]:
            outs.add(o[2][-1])
        elif o[0] == "arg":
            outs.add("<parameter %d>" % o[1])       # a helper that receives the map itself
    return "/".join(sorted(outs)) or None


def rule_nodup(ctx):
    fx = ctx.fx
    res = RuleResult("R-NODUP", "binder lists are checked for duplicates before they are used: Def::check calls context.no_dups, "
                     "Case::check and New::check call context_names.no_dups before add_types, build_symbol_table calls "
                     "check_type_params (which calls no_dups per template); each result is propagated with `?`")
    specs = [
        ("fun::syntax::declarations::def::Def::check", "no_dups"),
        ("<fun::syntax::terms::case::Case as fun::typing::check::Check>::check", "no_dups"),
        ("<fun::syntax::terms::new::New as fun::typing::check::Check>::check", "no_dups"),
        ("fun::typing::symbol_table::build_symbol_table", "no_dups"),       # through check_type_params on the pinned tree
    ]
    fns = {}

    def fn_of(key):
        if key not in fns:
            fns[key] = Fn(fx.fns[key])
        return fns[key]

    def propagated(fn, t):
        return any(u["kind"] == "arg" and u["term"].get("callee_name") == "branch" for u in fn.uses().get(t["dest"]["l"], []))

    def calls_propagated(key, must, depth, seen):
        """`key` calls `must` and propagates its error with `?` - directly, or through a helper (or closure) whose own result it propagates"""
        fn = fn_of(key)
        for bi, t in fn.calls():
            if t.get("callee_name") == must and propagated(fn, t):
                return True
        for k2 in fx.fns:
            if k2.startswith(key + "::{closure") and k2 not in seen and calls_propagated(k2, must, depth, seen | {k2}):
                return True
        if depth > 0:
            for bi, t in fn.calls():
                k2 = t.get("resolved_key") or (t.get("callee_key") if not t.get("callee_trait") else None)
                if k2 in fx.fns and fx.fns[k2]["crate"] == "fun" and k2 not in seen and fx.fns[k2].get("impl_trait") != "fun::typing::check::Check" \
                        and propagated(fn, t) and calls_propagated(k2, must, depth - 1, seen | {k2}):
                    return True
        return False
    for key, must in specs:
        fn = fn_of(fx.fn(key)["key"])
        ikey = "%s:%s" % (key, must)
        if calls_propagated(key, must, 2, frozenset([key])):
            res.inst(ikey, fn.file, fn.line, "ok")
        else:
            res.inst(ikey, fn.file, fn.line, "violation")
            res.violate(ikey, "%s no longer calls %s (and propagates its error with `?`), neither itself nor through a helper: duplicate "
                        "binders/parameters are accepted" % (key.split(" as ")[0].lstrip("<"), must), fn.file, fn.line)
    # wherever binder names are given their types (add_types), the duplicate check on the same names comes first
    n_add = 0
    for k, f in zone_fns(fx):
        fn = fn_of(k)
        adds = [(bi, t) for bi, t in fn.calls() if t.get("callee_name") == "add_types" and (t.get("callee_key") or "").startswith("fun::")]
        if not adds:
            continue
        nd = [(bi, t) for bi, t in fn.calls() if t.get("callee_name") == "no_dups" and propagated(fn, t)]
        for i, (bi, t) in enumerate(adds):
            n_add += 1
            ikey = "%s@add_types#%d" % (k, i)
            if any(fn.dominates(mb, bi) and mb != bi for mb, _ in nd):
                res.inst(ikey, t["sp"]["file"], t["sp"]["line"], "ok", "dominated by no_dups(..)?")
            else:
                res.inst(ikey, t["sp"]["file"], t["sp"]["line"], "violation")
                res.violate(ikey, "binder names are given their types (add_types) without a preceding, propagated duplicate check (no_dups) in %s: "
                            "duplicate binders are accepted" % k.split(" as ")[0].lstrip("<"), t["sp"]["file"], t["sp"]["line"])
    if n_add < 1:
        raise AnalysisError("R-NODUP: no call to add_types found in the checker")
    res.require_floor(5)
    return res


FORBIDDEN_ON_RESULT = {"ok", "is_ok", "is_err", "unwrap_or", "unwrap_or_default", "unwrap_or_else", "map_or", "err", "unwrap_or_else"}


def rule_result(ctx):
    fx = ctx.fx
    res = RuleResult("R-RESULT", "error discipline of the checker: no value of type Result<_, typing::Error> is dropped, ignored (`let _ =`) "
                     "or defused (.ok(), .is_ok(), unwrap_or*): every such call result is propagated with `?`, returned or matched; "
                     "look-ups (HashMap::get / lookup_*) are never defaulted (unwrap_or*, .ok())")
    n = 0
    for k, f in zone_fns(fx):
        fn = Fn(f)
        for bi, t in fn.calls():
            dl = t["dest"]["l"]
            dty = fn.local_ty(dl)
            is_res = dty.startswith("std::result::Result<") and "typing::errors::Error" in dty
            name = t.get("callee_name")
            if (t.get("callee_self_adt") or "").endswith("result::Result") and name in FORBIDDEN_ON_RESULT:
                aty = fn.local_ty(op_root(t["args"][0])) if op_root(t["args"][0]) is not None else ""
                kept = False
                if name == "err" and not t["dest"]["p"]:
                    # .err() keeps the error and drops only the Ok value: the error is not defused as long as the Option it yields
                    # is handed on (mapped into an Err, returned, matched) rather than dropped or merely tested
                    for u in fn.uses().get(t["dest"]["l"], []):
                        if u["kind"] == "rv" or (u["kind"] == "arg" and u["term"].get("callee_name") not in ("is_some", "is_none", "drop", "is_some_and")):
                            kept = True
                if "typing::errors::Error" in aty and kept:
                    n += 1
                    res.inst("%s@%s" % (k, name), t["sp"]["file"], t["sp"]["line"], "ok", ".err() handed on: the error is kept")
                elif "typing::errors::Error" in aty:
                    n += 1
                    ikey = "%s@%s" % (k, name)
                    res.inst(ikey, t["sp"]["file"], t["sp"]["line"], "violation")
                    res.violate(ikey, "a typing error is defused with .%s(): an ill-typed program can be accepted" % name, t["sp"]["file"], t["sp"]["line"])
            if (t.get("callee_self_adt") or "").endswith("option::Option") and name in ("unwrap_or", "unwrap_or_default", "map_or"):
                # defaulted look-up?
                flow = Flow(fn)
                r = op_root(t["args"][0])
                org = flow.origins(r, ()) if r is not None else set()
                if any(o[0] == "call" and (fn.term(o[1]).get("callee_name") or "").startswith(("get", "lookup")) for o in org):
                    n += 1
                    ikey = "%s@lookup-%s" % (k, name)
                    res.inst(ikey, t["sp"]["file"], t["sp"]["line"], "violation")
                    res.violate(ikey, "a failed look-up is replaced by a default (.%s): an unbound name can be accepted" % name, t["sp"]["file"], t["sp"]["line"])
            if not is_res or t["dest"]["p"]:
                continue
            n += 1
            uses = [u for u in fn.uses().get(dl, []) if u["kind"] != "drop"]
            ikey = "%s@%s#%d" % (k, name, sum(1 for i in res.instances if i["key"].startswith("%s@%s#" % (k, name))))
            consumed = False
            for u in uses:
                if u["kind"] == "arg" and u["term"].get("callee_name") in ("branch", "map_err", "map", "and_then", "collect", "from_residual", "into"):
                    consumed = True
                elif u["kind"] == "rv":
                    consumed = True     # moved on (returned, stored, matched through a discriminant read)
                elif u["kind"] == "arg":
                    consumed = True     # handed to another function
            if dl == 0:
                consumed = True
            if consumed:
                res.inst(ikey, t["sp"]["file"], t["sp"]["line"], "ok")
            else:
                res.inst(ikey, t["sp"]["file"], t["sp"]["line"], "violation")
                res.violate(ikey, "the Result of %s is dropped: a typing error is ignored" % (t.get("callee_key") or name), t["sp"]["file"], t["sp"]["line"])
    res.require_floor(60)
    return res


def rule_clause_exits(ctx):
    fx = ctx.fx
    res = RuleResult("R-EXITS", "completeness of clause matching and arity checks: Case::check and New::check can each return the three "
                     "diagnostics for a missing clause, leftover clauses and an empty match; check_args returns WrongNumberOfArguments; "
                     "add_types returns WrongNumberOfBinders (an Err exit exists on a reachable path)")
    specs = [
        ("<fun::syntax::terms::case::Case as fun::typing::check::Check>::check", ["MissingCtorInCase", "UnexpectedCtorsInCase", "EmptyMatch"]),
        ("<fun::syntax::terms::new::New as fun::typing::check::Check>::check", ["MissingDtorInNew", "UnexpectedDtorsInNew"]),
        ("fun::typing::check::check_args", ["WrongNumberOfArguments", "ExpectedCovariableGotTerm"]),
        ("fun::syntax::context::NameContext::add_types", ["WrongNumberOfBinders"]),
        ("fun::typing::check::check_equality", ["Mismatch"]),
    ]
    variants = {v["name"] for v in fx.adts.get(ERR, {"variants": []})["variants"]}
    for key, wants in specs:
        fn = Fn(fx.fn(key))
        built = set()
        # the function, its closures, and the helpers of the front end it calls (two levels; diagnostics may be built by
        # constructor helpers of the error type or in an extracted part of the check)
        keys, todo = [], [(key, 0)]
        while todo:
            k0, dpt = todo.pop()
            if k0 in keys:
                continue
            keys.append(k0)
            for k2, g in fx.fns.items():
                if (g.get("parent") or "").startswith(k0) and k2 not in keys:
                    todo.append((k2, dpt))
            if dpt < 2:
                for _, t in Fn(fx.fns[k0]).calls():
                    k2 = t.get("resolved_key") or (t.get("callee_key") if not t.get("callee_trait") else None)
                    if k2 in fx.fns and fx.fns[k2]["crate"] == "fun" and k2 not in keys and (fx.fns[k2].get("impl_trait") or "") != "fun::typing::check::Check" \
                            and "{promoted" not in k2:
                        todo.append((k2, dpt + 1))
        for kk in keys:
            ff = Fn(fx.fns[kk])
            for bi, si, s in ff.stmts():
                rv = s["rv"]
                if rv["k"] == "agg" and rv.get("adt") == ERR:
                    built.add(rv["variant"])
        for w in wants:
            if w not in variants:
                # renamed diagnostic: look for the closest by prefix instead of failing
                cand = [v for v in variants if v.lower().startswith(w.lower()[:10])]
                if not cand:
                    raise AnalysisError("R-EXITS: diagnostic %s does not exist in typing::errors::Error" % w)
                w = cand[0]
            ikey = "%s:%s" % (key, w)
            if w in built:
                res.inst(ikey, fn.file, fn.line, "ok")
            else:
                res.inst(ikey, fn.file, fn.line, "violation")
                res.violate(ikey, "%s can no longer report %s: the corresponding ill-typed programs are accepted (or rejected with a crash)" %
                            (key.split(" as ")[0].lstrip("<"), w), fn.file, fn.line)
    res.require_floor(8)
    return res


def rule_lookup(ctx):
    """R-LOOKUP: shadowing table of the context lookups, by abstract interpretation of their MIR"""
    import itertools
    from .. import backend
    from ..interp import Adt, Vec, Sym
    fx = ctx.fx
    res = RuleResult("R-LOOKUP", "variable and covariable lookup of the Fun type checker folded (abstract interpretation of the MIR) on every "
                     "typing context of up to 3 bindings over two names and both chiralities: the innermost binding of the searched name "
                     "alone decides - its type is returned when its chirality is the requested one, an error otherwise (a producer used "
                     "as a consumer or vice versa is rejected even if an outer binding of the same name has the other chirality), and an "
                     "unbound name is an error")
    F = "fun::syntax::"

    def ty(i):
        return Adt(F + "types::Ty", "Decl", {"span": Adt("core::option::Option", "None", {}), "name": "T%d" % i,
                                             "type_args": Adt(F + "types::TypeArgs", "TypeArgs", {"span": Adt("core::option::Option", "None", {}), "args": Vec([])})})

    def binding(i, name, chi):
        return Adt(F + "context::ContextBinding", "ContextBinding", {"var": name, "chi": Adt(F + "context::Chirality", chi, {}), "ty": ty(i)})

    for fname, want in (("lookup_var", "Prd"), ("lookup_covar", "Cns")):
        key = F + "context::TypingContext::" + fname
        f = fx.fn(key)
        bad = []
        n = 0
        names = ("k", "j", "i") if ctx.tier == "thorough" else ("k", "j")
        for ln in range(0, 5 if ctx.tier == "thorough" else 4):
            for combo in itertools.product(itertools.product(names, ("Prd", "Cns")), repeat=ln):
                n += 1
                bs = [binding(i, nm, chi) for i, (nm, chi) in enumerate(combo)]
                tc = Adt(F + "context::TypingContext", "TypingContext", {"span": Sym("ctxspan"), "bindings": Vec(bs)})
                _, outs = backend.fold(ctx, key, [tc, "k", Sym("span")])
                outs = [o for o in outs if not getattr(o, "diverged", None)]
                if len(outs) != 1 or not isinstance(outs[0].result, Adt):
                    raise AnalysisError("R-LOOKUP: %s could not be folded on %r" % (fname, combo))
                r = outs[0].result
                inner = [i for i, (nm, _) in enumerate(combo) if nm == "k"]
                desc = "[%s]" % ", ".join("%s:%s" % (nm, chi.lower()) for nm, chi in combo)
                if not inner:
                    if r.variant != "Err":
                        bad.append((desc, "the name is unbound but the lookup returns %r" % (r,)))
                    continue
                i = inner[-1]
                if combo[i][1] == want:
                    got = r.fields.get("0") if r.variant == "Ok" else None
                    if r.variant != "Ok" or not isinstance(got, Adt) or got.fields.get("name") != "T%d" % i:
                        bad.append((desc, "the innermost binding of k is binding %d with the requested chirality, but the lookup returns %s" % (i, _short(r))))
                elif r.variant != "Err":
                    bad.append((desc, "the innermost binding of k is a %s, but the lookup accepts it as a %s (returns %s)"
                                % ("covariable" if want == "Prd" else "variable", "variable" if want == "Prd" else "covariable", _short(r))))
        if bad:
            res.inst(key, f["sp"]["file"], f["sp"]["line"], "violation", "%d of %d contexts wrong" % (len(bad), n))
            res.violate(key, "%s in context %s (innermost last): %s  [%d of %d contexts wrong]" % (fname, bad[0][0], bad[0][1], len(bad), n), f["sp"]["file"], f["sp"]["line"])
        else:
            res.inst(key, f["sp"]["file"], f["sp"]["line"], "ok", "%d contexts" % n)
    res.require_floor(2)
    return res


def _short(r):
    s = repr(r)
    return s if len(s) < 90 else s[:87] + "..."


def rule_checkall(ctx):
    """R-CHECKALL: on every path on which a checker function accepts, every part of the construct has been examined"""
    fx = ctx.fx
    res = RuleResult("R-CHECKALL", "path-sensitive completeness of the type checker: in every `check` / `check_template` function of the Fun crate, on "
                     "every path that ends in building `Ok(..)`, each field of the checked construct that carries a term, a type, type "
                     "arguments, arguments, clauses or a context has been read (handed to a call, compared, matched) or written (an "
                     "annotation filled in) - per variant for enums. An accepting path that never looks at such a field accepts the "
                     "construct whatever that part is (a fast path that skips, e.g., the type arguments)")
    TREE = ("::terms::Term", "::types::Ty", "::types::TypeArgs", "::arguments::Arguments", "::clause::Clause", "::context::TypingContext",
            "::context::NameContext", "::context::TypeContext", "::declarations::", "::def::Def")
    n = 0

    def tree_field(fd):
        c = fd.get("core") or fd.get("adt") or ""
        return c.startswith("fun::") and any(x in c for x in TREE)

    for k, f in sorted(fx.fns.items()):
        if f["crate"] != "fun" or "{closure" in k or "{promoted" in k:
            continue
        nm = k.split("::")[-1]
        if nm not in ("check", "check_template"):
            continue
        adt = f.get("impl_self_adt")
        A = fx.adts.get(adt or "")
        if not A:
            continue
        fn = Fn(f)
        # aliases of self (moves / borrows / derefs without field projection)
        alias = {1}
        changed = True
        while changed:
            changed = False
            for b in f["blocks"]:
                for s in b["stmts"]:
                    if s["k"] != "assign" or s["lhs"]["p"]:
                        continue
                    rv = s["rv"]
                    o = rv.get("op")
                    pl = rv.get("pl") or (o.get("pl") if isinstance(o, dict) else None)
                    if rv["k"] in ("use", "ref", "cast") and pl and pl["l"] in alias and not any(isinstance(x, dict) and "n" in x for x in pl["p"]) \
                            and s["lhs"]["l"] not in alias:
                        alias.add(s["lhs"]["l"])
                        changed = True

        def first_field(pl):
            if pl and pl["l"] in alias:
                fs = [x["n"] for x in pl["p"] if isinstance(x, dict) and "n" in x and not str(x.get("of", "")).startswith(("core::", "alloc::"))]
                if fs:
                    return fs[0]
            return None
        # locals that merely hold (a borrow / copy of) a field: binding a field in a pattern is not yet looking at it
        falias = {}
        changed = True
        while changed:
            changed = False
            for b in f["blocks"]:
                for s in b["stmts"]:
                    if s["k"] != "assign" or s["lhs"]["p"] or s["lhs"]["l"] in falias or s["lhs"]["l"] in alias:
                        continue
                    rv = s["rv"]
                    o = rv.get("op")
                    pl = rv.get("pl") or (o.get("pl") if isinstance(o, dict) else None)
                    if rv["k"] not in ("use", "ref", "cast") or not pl:
                        continue
                    x = first_field(pl)
                    if x is None and pl["l"] in falias:
                        x = falias[pl["l"]]
                    if x:
                        falias[s["lhs"]["l"]] = x
                        changed = True

        def looked_at(pl):
            if not pl:
                return None
            x = first_field(pl)
            if x:
                return x
            return falias.get(pl["l"])
        uses = {}
        for bi, b in enumerate(f["blocks"]):
            u = set()
            for s in b["stmts"]:
                if s["k"] != "assign":
                    continue
                x = first_field(s["lhs"]) if s["lhs"]["p"] else None
                if x:
                    u.add(x)            # an annotation written into the construct
                rv = s["rv"]
                if rv["k"] in ("use", "ref", "cast", "rawptr"):
                    continue            # plain binding: see falias
                for o in [rv.get("op"), rv.get("a"), rv.get("b")] + list(rv.get("ops", [])):
                    if isinstance(o, dict) and o.get("pl"):
                        x = looked_at(o["pl"])
                        if x:
                            u.add(x)
                if rv.get("pl"):
                    x = looked_at(rv["pl"])
                    if x:
                        u.add(x)
            t = b["term"]
            if t["k"] == "call" and t.get("callee_name") not in ("drop", "drop_in_place"):
                for a in t["args"]:
                    if a.get("pl"):
                        x = looked_at(a["pl"])
                        if x:
                            u.add(x)
            uses[bi] = u
        # a loop that examines a field does so for every element; a path that runs it zero times has nothing left to examine:
        # credit the uses inside a natural loop to its header
        from .termination import _natural_loops
        for h, body in _natural_loops(fn, f).items():
            for b_ in body:
                uses[h] = uses[h] | uses[b_]
        # discriminant switches on self: block -> {variant index: successor}
        defs = fn.defs()
        self_switch = {}
        for bi, b in enumerate(f["blocks"]):
            t = b["term"]
            if t["k"] != "switch":
                continue
            d = t.get("discr") or t.get("op") or {}
            pl = d.get("pl") if isinstance(d, dict) else None
            if not pl:
                continue
            for dd in defs.get(pl["l"], []):
                rv = dd.get("rv") or {}
                if rv.get("k") == "discr" and rv.get("pl") and rv["pl"]["l"] in alias and not any(isinstance(x, dict) for x in rv["pl"]["p"]):
                    self_switch[bi] = t
        variants = A["variants"] if A["kind"] == "enum" else [A["variants"][0]]
        for vi, var in enumerate(variants):
            required = sorted(fd["name"] for fd in var["fields"] if tree_field(fd))
            if not required:
                continue
            # forward must-use dataflow on the CFG restricted to this variant at switches on self
            nb = len(f["blocks"])

            def succs(b):
                if A["kind"] == "enum" and b in self_switch:
                    t = self_switch[b]
                    targets = t.get("targets") or []
                    chosen = [tg for val, tg in targets if val == vi]
                    if chosen:
                        return chosen
                    other = t.get("otherwise")
                    return [other] if other is not None else fn.succ[b]
                return fn.succ[b]
            IN = {0: set()}
            work = [0]
            while work:
                b = work.pop()
                out = IN[b] | uses[b]
                for s_ in succs(b):
                    if s_ not in fn.reach:
                        continue
                    new = out if s_ not in IN else IN[s_] & out
                    if s_ not in IN or new != IN[s_]:
                        IN[s_] = new
                        work.append(s_)
            for bi, b in enumerate(f["blocks"]):
                if bi not in IN:
                    continue
                for s in b["stmts"]:
                    rv = s.get("rv") or {}
                    if s["k"] == "assign" and s["lhs"]["l"] == 0 and not s["lhs"]["p"] and rv.get("k") == "agg" and rv.get("variant") == "Ok":
                        n += 1
                        have = IN[bi] | uses[bi]
                        missing = [x for x in required if x not in have]
                        ikey = "%s%s@Ok" % (k, "::" + var["name"] if A["kind"] == "enum" else "")
                        if missing:
                            res.inst(ikey, s["sp"]["file"], s["sp"]["line"], "violation")
                            res.violate(ikey, "%s accepts %s%s on a path (Ok at line %d) that never looks at its %s: the construct is accepted whatever "
                                        "that part is" % (k, adt.split("::")[-1], "::" + var["name"] if A["kind"] == "enum" else "", s["sp"]["line"], ", ".join(missing)),
                                        s["sp"]["file"], s["sp"]["line"])
                        else:
                            res.inst(ikey, s["sp"]["file"], s["sp"]["line"], "ok", "examines " + ", ".join(required), nontrivial=True)
    res.require_floor(15)
    return res


def rule_instance(ctx):
    """R-INSTANCE: instance tables are consulted only after the instance has been created (or found)"""
    fx = ctx.fx
    res = RuleResult("R-INSTANCE", "monomorphic instances of declared types are created on demand (Ty::check -> create_instance); the checker's "
                     "instance tables (`types`, `ctors`, `dtors` of the symbol table, and lookup_ty_for_ctor/dtor over them) are therefore "
                     "consulted only where the instance is known to exist: every path to such an access passes an instantiation "
                     "(Ty::check, check_equality, check_args, lookup_ty_template_for_*), or the successful arm of an earlier access, or the "
                     "access is the first half of the lookup-or-instantiate idiom (its failure arm instantiates from the template). An "
                     "access without that rejects a well-typed program whose type simply has not been used yet")
    INST = {"lookup_ty_template_for_ctor", "lookup_ty_template_for_dtor", "check_equality", "check_args", "create_instance", "is_instance"}
    ACCESS = {"lookup_ty_for_ctor", "lookup_ty_for_dtor"}
    TABLES = {"types", "ctors", "dtors"}
    ELSE = {"or_else", "unwrap_or_else", "or_insert_with", "map_or_else"}
    n = 0
    memo = {}

    # functions that create instances, by what they do: they insert into the `types` table of the symbol table, or call such a
    # function (three levels) - the names above are what they are called on the pinned tree
    creators = set()
    for k0, f0 in fx.fns.items():
        if f0["crate"] != "fun" or "{promoted" in k0:
            continue
        fn0 = None
        for b0 in f0["blocks"]:
            t0 = b0["term"]
            if t0["k"] == "call" and t0.get("callee_name") == "insert" and (t0.get("callee_self_adt") or "").endswith("HashMap") and t0["args"]:
                fn0 = fn0 or Fn(f0)
                r0 = op_root(t0["args"][0])
                if r0 is not None and any(o[0] == "arg" and "types" in o[2] for o in Flow(fn0).origins(r0, ())):
                    creators.add(k0.split("::{closure")[0])
    for _ in range(3):
        more = set()
        for k0, f0 in fx.fns.items():
            if f0["crate"] != "fun" or "{promoted" in k0 or k0.split("::{closure")[0] in creators:
                continue
            if (f0.get("impl_trait") or "").endswith("typing::check::Check") or k0.endswith(("::build", "::combine")) or "build_symbol_table" in k0:
                continue
            for b0 in f0["blocks"]:
                t0 = b0["term"]
                if t0["k"] == "call" and (t0.get("resolved_key") or t0.get("callee_key")) in creators:
                    more.add(k0.split("::{closure")[0])
        creators |= more

    def is_inst_call(t):
        nm = t.get("callee_name")
        ck = t.get("callee_key") or ""
        if (t.get("resolved_key") or ck) in creators:
            return True
        return (nm in INST and ck.startswith("fun::")) or (nm == "check" and "types::Ty::check" in ck)

    def closure_instantiates(fn, local, depth=0):
        """the closure held in `local` calls an instantiating function (the failure half of lookup-or-instantiate)"""
        for d in fn.defs().get(local, []):
            rv = d.get("rv") or {}
            if rv.get("k") == "agg" and rv.get("closure"):
                for b in fx.by_path.get(rv["closure"], []):
                    if "{promoted" in b["key"]:
                        continue
                    for blk in b["blocks"]:
                        tt = blk["term"]
                        if tt["k"] == "call" and (is_inst_call(tt) or (helper_key(tt) and analyse(helper_key(tt), 1)[1])):
                            return True
            if rv.get("k") in ("use", "cast", "ref") and depth < 4:
                pl = rv.get("pl") or (rv.get("op") or {}).get("pl")
                if pl and not pl["p"] and closure_instantiates(fn, pl["l"], depth + 1):
                    return True
        return False

    def helper_key(t):
        k2 = t.get("resolved_key") or (t.get("callee_key") if not t.get("callee_trait") else None)
        if k2 in fx.fns and fx.fns[k2]["crate"] == "fun" and not (fx.fns[k2].get("impl_trait") or "").endswith("typing::check::Check") \
                and t.get("callee_name") not in INST | ACCESS and "{closure" not in k2:
            return k2
        return None

    def analyse(k, depth):
        """(sites with verdicts, establishes): `establishes` - every path from the entry of `k` to its return passes a block after which
        the instance is known to exist"""
        if k in memo:
            return memo[k]
        memo[k] = ([], False)       # recursion guard
        f = fx.fns[k]
        fn = Fn(f)
        flow = Flow(fn)
        defs = fn.defs()
        sites = []      # (block, description, result local, term)
        establishing = set()
        idiom = set()
        for bi, t in fn.calls():
            nm = t.get("callee_name")
            if is_inst_call(t):
                establishing.add(bi)
                continue
            hk = helper_key(t)
            if hk and depth < 2 and any(kw in hk for kw in ("symbol_table", "typing", "syntax")):
                sub_sites, est = analyse(hk, depth + 1)
                if est:
                    establishing.add(bi)
                    continue
            desc = None
            if nm in ("get", "contains_key", "index", "get_mut") and t["args"] and (t.get("callee_self_adt") or "").endswith("HashMap"):
                r = op_root(t["args"][0])
                flds = set()
                for o in (flow.origins(r, ()) if r is not None else ()):
                    if o[0] == "arg":
                        flds |= set(o[2])
                if flds & TABLES:
                    desc = "symbol_table.%s.%s" % (sorted(flds & TABLES)[0], nm)
            elif nm in ACCESS:
                desc = nm
            if desc:
                sites.append((bi, desc, t["dest"]["l"] if t.get("dest") and not t["dest"]["p"] else None, t))
        # success arms of accesses establish existence; failure arm that instantiates = the idiom
        for bi, desc, res_l, t in sites:
            if res_l is None:
                continue
            # combinator form of the idiom: access.or_else(|_| instantiate)
            for u in fn.uses().get(res_l, []):
                if u["kind"] == "arg" and u["ai"] == 0 and u["term"].get("callee_name") in ELSE and len(u["term"]["args"]) > 1:
                    cl = op_root(u["term"]["args"][1])
                    if cl is not None and closure_instantiates(fn, cl):
                        idiom.add(bi)
                        for b2, blk in enumerate(f["blocks"]):
                            if blk["term"] is u["term"]:
                                establishing.add(b2)
            for b2, blk in enumerate(f["blocks"]):
                tt = blk["term"]
                if tt["k"] != "switch":
                    continue
                d = tt.get("discr") or {}
                pl = d.get("pl") if isinstance(d, dict) else None
                if not pl:
                    continue
                hit = False
                for dd in defs.get(pl["l"], []):
                    rv = dd.get("rv") or {}
                    if rv.get("k") == "discr" and rv.get("pl") and rv["pl"]["l"] == res_l:
                        hit = True
                if not hit:
                    continue
                is_lookup = desc.startswith("lookup_ty_for")
                # Result: Ok = 0, Err = 1; Option: None = 0, Some = 1
                ok_val = 0 if is_lookup else 1
                for val, tg in tt.get("targets") or []:
                    if val == ok_val:
                        establishing.add(tg)
                    else:
                        # failure arm: does it instantiate before anything else?
                        seen, work = set(), [tg]
                        while work:
                            x = work.pop()
                            if x in seen:
                                continue
                            seen.add(x)
                            tx = f["blocks"][x]["term"]
                            if tx["k"] == "call" and (tx.get("callee_name") in ("lookup_ty_template_for_ctor", "lookup_ty_template_for_dtor")
                                                      or ((tx.get("resolved_key") or tx.get("callee_key")) in creators
                                                          and tx.get("callee_name") not in ("check_equality", "check_args", "check"))):
                                idiom.add(bi)
                                break
                            if tx["k"] in ("return",) or len(seen) > 6:
                                continue
                            work.extend(fn.succ[x])
                oth = tt.get("otherwise")
                if oth is not None and ok_val not in [v for v, _ in (tt.get("targets") or [])]:
                    establishing.add(oth)

        def avoids(target_blocks):
            """can one of the blocks be reached from the entry without passing an establishing block?"""
            seen, work = set(), [0]
            while work:
                x = work.pop()
                if x in seen or x not in fn.reach:
                    continue
                if x in target_blocks:
                    return True
                if x in establishing:
                    continue
                seen.add(x)
                work.extend(fn.succ[x])
            return False
        out = []
        for bi, desc, res_l, t in sites:
            ikey = "%s@%s:%d" % (k, desc, sum(1 for s_ in sites if s_[0] < bi and s_[1] == desc))
            if bi in idiom:
                out.append((ikey, t, desc, "idiom"))
            elif avoids({bi}):
                out.append((ikey, t, desc, "violation"))
            else:
                out.append((ikey, t, desc, "ok"))
        rets = {b for b in fn.reach if f["blocks"][b]["term"]["k"] == "return"}
        est = bool(rets) and not avoids(rets) and bool(establishing)
        memo[k] = (out, est)
        return memo[k]

    roots = [k for k, f in sorted(fx.fns.items()) if f["crate"] == "fun" and "{promoted" not in k and "{closure" not in k
             and k.split("::")[-1] == "check" and (f.get("impl_trait") or "").endswith("typing::check::Check")]
    for k in roots:
        analyse(k, 0)
    for k in sorted(memo):
        # the functions that implement the tables themselves are not clients of them
        if k.split("::")[-1] in INST | ACCESS | {"build", "combine"} or k in creators:
            continue
        for ikey, t, desc, verdict in memo[k][0]:
            n += 1
            if verdict == "idiom":
                res.inst(ikey, t["sp"]["file"], t["sp"]["line"], "ok", "lookup-or-instantiate idiom")
            elif verdict == "violation":
                res.inst(ikey, t["sp"]["file"], t["sp"]["line"], "violation")
                res.violate(ikey, "%s consults %s (line %d) on a path on which nothing has created or found the instance of the type: a "
                            "well-typed program whose type has not been instantiated yet is rejected as `undefined`" % (k.split(" as ")[0].lstrip("<").split("::")[-1], desc, t["sp"]["line"]),
                            t["sp"]["file"], t["sp"]["line"])
            else:
                res.inst(ikey, t["sp"]["file"], t["sp"]["line"], "ok", "instance established on every path")
    res.require_floor(3)
    return res


def rule_tyrule(ctx):
    """R-TYRULE: the typing rule of every simple term form, read off the folded `Check::check`"""
    from .. import backend
    from ..interp import Adt, Vec, Sym, Interp, MapVal
    fx = ctx.fx
    res = RuleResult("R-TYRULE", "the typing rule each simple term form implements, read off its `Check::check` by abstract interpretation (symbolic "
                     "subterms; the recursive `check` calls, `check_equality`, `Ty::check` and `check_args` are recorded with the context and "
                     "the type they receive) and compared with the rule of the language: literals and arithmetic are integers with integer "
                     "operands; both branches of a conditional have the expected type and its operands are integers; `let` checks the bound "
                     "term at the annotated type and the body at the expected type with the variable added as a producer of that type; "
                     "`label` adds its covariable at the expected type; `goto` checks its term at the type of the target covariable; `exit` "
                     "and `print` take integers; a variable has the type of its innermost binding; a call has the callee's return type and "
                     "its arguments are checked against the callee's parameters")
    F = "fun::syntax::"
    NONE = Adt("core::option::Option", "None", {})

    def some(v):
        return Adt("core::option::Option", "Some", {"0": v})

    def decl(name):
        return Adt(F + "types::Ty", "Decl", {"span": NONE, "name": name, "type_args": Adt(F + "types::TypeArgs", "TypeArgs", {"span": NONE, "args": Vec([])})})

    def binding(name, chi, ty):
        return Adt(F + "context::ContextBinding", "ContextBinding", {"var": name, "chi": Adt(F + "context::Chirality", chi, {}), "ty": ty})

    def tyname(I, v):
        v = I.deref(v)
        if isinstance(v, Adt) and v.path == F + "types::Ty":
            return "i64" if v.variant == "I64" else "decl:%s" % (I.deref(v.fields.get("name")),)
        if isinstance(v, Sym):
            return "$" + v.name
        return "?%r" % (v,)

    def ctxsnap(I, v):
        v = I.deref(v)
        if isinstance(v, Adt) and isinstance(I.deref(v.fields.get("bindings")), Vec):
            out = []
            for b in I.deref(v.fields["bindings"]).items:
                b = I.deref(b)
                chi = I.deref(b.fields.get("chi"))
                out.append((I.deref(b.fields.get("var")), chi.variant if isinstance(chi, Adt) else "?", tyname(I, b.fields.get("ty"))))
            return tuple(out)
        return ("?",)

    BASE = (("x", "Prd", "decl:TX"), ("a", "Cns", "decl:TA"))

    def base_ctx():
        return Adt(F + "context::TypingContext", "TypingContext", {"span": Sym("ctxspan"), "bindings": Vec([binding("x", "Prd", decl("TX")), binding("a", "Cns", decl("TA"))])})

    def run(form, fields, several=False):
        adt = F + "terms::" + form
        key = "<%s as fun::typing::check::Check>::check" % adt
        f = fx.fn(key)
        events = []

        def hook(I, p, fr, t, args):
            n = t.get("callee_name")
            ck = t.get("callee_key") or ""
            def symbolic_term(v_):
                v_ = I.deref(v_)
                if isinstance(v_, Adt) and v_.path == "core::option::Option" and v_.variant == "Some":
                    v_ = I.deref(v_.fields["0"])
                return isinstance(v_, Sym)
            if n == "check" and t.get("callee_trait") == "fun::typing::check::Check" and (fr.f["key"] == key or (args and symbolic_term(args[0]) and len(args) >= 4)):
                v = I.deref(args[0])
                if isinstance(v, Adt) and v.path == "core::option::Option":
                    if v.variant == "None":
                        return Adt("core::result::Result", "Ok", {"0": v})
                    v = I.deref(v.fields["0"])
                name = v.name if isinstance(v, Sym) else repr(v)
                p.events.append(("check", name, ctxsnap(I, args[2]), tyname(I, args[3])))
                return Adt("core::result::Result", "Ok", {"0": args[0]})
            if n == "check_equality" and ck.startswith("fun::typing::check"):
                p.events.append(("eq", frozenset([tyname(I, args[2]), tyname(I, args[3])])))
                return Adt("core::result::Result", "Ok", {"0": Adt(None, None, {})})
            if n == "check" and "types::Ty::check" in ck:
                p.events.append(("tycheck", tyname(I, args[0])))
                return Adt("core::result::Result", "Ok", {"0": Adt(None, None, {})})
            if n == "check_args" and ck.startswith("fun::typing::check"):
                p.events.append(("args", ctxsnap(I, args[2]), ctxsnap(I, args[4])))
                return Adt("core::result::Result", "Ok", {"0": args[3]})
            if n == "print_to_string":
                v = I.deref(args[0])
                if isinstance(v, Adt) and v.path == F + "types::TypeArgs" and isinstance(I.deref(v.fields.get("args")), Vec) and not I.deref(v.fields["args"]).items:
                    return ""       # no type arguments: the instance is named like the template
            if n in ("lookup_ty_for_ctor", "lookup_ty_for_dtor") and "symbol_table" in ck:
                # which declared type the (co)constructor of that name belongs to
                p.events.append(("owner-of", I.deref(args[2])))
                own = decl("OWNER")
                okv = Adt(None, None, {"0": own, "1": Vec(list(fields.get("__declared__", [])))}) if fr.f["locals"][t["dest"]["l"]]["ty"].count("(") and "Vec" in fr.f["locals"][t["dest"]["l"]]["ty"] else own
                return Adt("core::result::Result", "Ok", {"0": okv})
            return NotImplemented
        A = fx.adts[adt]
        vals = {}
        for fd in A["variants"][0]["fields"]:
            vals[fd["name"]] = fields.get(fd["name"], Sym("self." + fd["name"]))
        st_fields = {fd["name"]: MapVal() for fd in fx.adts["fun::typing::symbol_table::SymbolTable"]["variants"][0]["fields"]}
        for tn, tv in fields.get("__table__", {}).items():
            st_fields[tn] = tv
        st = Adt("fun::typing::symbol_table::SymbolTable", "SymbolTable", st_fields)
        I = Interp(fx, hooks=[hook], max_depth=8, max_paths=64)
        outs = I.run(f, [Adt(adt, A["variants"][0]["name"], vals), st, base_ctx(), fields.get("__expected__", decl("EXP"))])
        normal = [o for o in outs if not getattr(o, "diverged", None)]
        msg = None if (several and normal) else backend.fold_verdict(outs, "R-TYRULE: %s" % form)
        outs = normal
        return f, outs, msg

    def judge(form, fields, want, label="", want_err=False):
        nonlocal_n[0] += 1
        f, outs, msg = run(form, fields, several=True)
        ikey = "%s%s" % (form.split("::")[-1], label)
        if msg:
            res.inst(ikey, f["sp"]["file"], f["sp"]["line"], "violation")
            res.violate(ikey, msg, f["sp"]["file"], f["sp"]["line"])
            return
        oks = [o for o in outs if isinstance(o.result, Adt) and o.result.variant == "Ok"]
        errs = [o for o in outs if isinstance(o.result, Adt) and o.result.variant == "Err"]
        if len(oks) + len(errs) != len(outs):
            raise AnalysisError("R-TYRULE: %s%s does not fold to Ok/Err results" % (form, label))
        if want_err:
            if oks:
                res.inst(ikey, f["sp"]["file"], f["sp"]["line"], "violation")
                res.violate(ikey, "%s: the checker accepts this form although the rule rejects it (%s)" % (form.split("::")[-1], label.strip(":")), f["sp"]["file"], f["sp"]["line"])
            else:
                res.inst(ikey, f["sp"]["file"], f["sp"]["line"], "ok", "rejected")
            return
        if not oks:
            raise AnalysisError("R-TYRULE: %s%s has no accepting path when every premise holds" % (form, label))
        if len(oks) > 1 and any(str(c_[0]).startswith("switch@") for o_ in oks for c_ in o_.conds):
            raise AnalysisError("R-TYRULE: %s%s has %d accepting paths that differ by a value the analysis cannot follow" % (form, label, len(oks)))
        # several accepting paths differ by a property of the (symbolic) term - an empty argument list, say: the rule has the same
        # premises for all of them
        wantset = set(want)
        worst = None
        for o_ in oks:
            got = set(o_.events)
            if got != wantset:
                worst = (got, [str(c_[0]) for c_ in o_.conds][-2:])
        if worst is None:
            res.inst(ikey, f["sp"]["file"], f["sp"]["line"], "ok", "%d premises%s" % (len(want), "" if len(oks) == 1 else " on each of %d paths" % len(oks)))
            return
        got, conds_ = worst
        if len(oks) > 1:
            label = label + " when " + " and ".join(conds_)
        missing = sorted(map(str, wantset - got))
        extra = sorted(map(str, got - wantset))
        res.inst(ikey, f["sp"]["file"], f["sp"]["line"], "violation")
        res.violate(ikey, "the typing rule implemented for %s%s differs from the rule of the language: premises missing %s; premises not in the rule %s "
                    "(a premise is the term checked, the context it is checked in, and the type it is checked against)" %
                    (form.split("::")[-1], (" (" + label.strip(":") + ")") if label else "", missing or "none", extra or "none"), f["sp"]["file"], f["sp"]["line"])

    nonlocal_n = [0]
    EXP = "decl:EXP"

    def chk(field, ctx_, ty):
        return ("check", "self." + field, ctx_, ty)

    def eq(a, b):
        return ("eq", frozenset([a, b]))
    judge("literal::Lit", {}, [eq(EXP, "i64")])
    judge("op::Op", {}, [eq(EXP, "i64"), chk("fst", BASE, "i64"), chk("snd", BASE, "i64")])
    judge("ifc::IfC", {"snd": some(Sym("self.snd"))}, [chk("fst", BASE, "i64"), chk("snd", BASE, "i64"), chk("thenc", BASE, EXP), chk("elsec", BASE, EXP)], ":two-operands")
    judge("ifc::IfC", {"snd": NONE}, [chk("fst", BASE, "i64"), chk("thenc", BASE, EXP), chk("elsec", BASE, EXP)], ":zero-form")
    judge("print::PrintI64", {}, [chk("arg", BASE, "i64"), chk("next", BASE, EXP)])
    judge("let::Let", {"variable": "v", "var_ty": decl("TV")},
          [("tycheck", "decl:TV"), chk("bound_term", BASE, "decl:TV"), chk("in_term", BASE + (("v", "Prd", "decl:TV"),), EXP)])
    judge("let::Let", {"variable": "x", "var_ty": decl("TV")},
          [("tycheck", "decl:TV"), chk("bound_term", BASE, "decl:TV"), chk("in_term", BASE + (("x", "Prd", "decl:TV"),), EXP)], ":shadowing")
    judge("label::Label", {"label": "k"}, [chk("term", BASE + (("k", "Cns", EXP),), EXP)])
    judge("goto::Goto", {"target": "a"}, [chk("term", BASE, "decl:TA")])
    judge("goto::Goto", {"target": "zz"}, [], ":unbound-target", want_err=True)
    judge("goto::Goto", {"target": "x"}, [], ":target-is-a-variable", want_err=True)
    judge("exit::Exit", {}, [chk("arg", BASE, "i64")])
    judge("paren::Paren", {}, [chk("inner", BASE, EXP)])
    judge("var::XVar", {"var": "x", "ty": NONE, "chi": NONE}, [eq(EXP, "decl:TX")])
    judge("var::XVar", {"var": "x", "ty": some(decl("ANN")), "chi": NONE}, [eq(EXP, "decl:TX"), eq("decl:ANN", "decl:TX")], ":annotated")
    judge("var::XVar", {"var": "x", "ty": NONE, "chi": some(Adt(F + "context::Chirality", "Cns", {}))}, [], ":marked-covariable", want_err=True)
    judge("var::XVar", {"var": "a", "ty": NONE, "chi": NONE}, [], ":name-of-a-covariable", want_err=True)
    judge("var::XVar", {"var": "zz", "ty": NONE, "chi": NONE}, [], ":unbound", want_err=True)
    sig_ctx = Adt(F + "context::TypingContext", "TypingContext", {"span": Sym("sigspan"), "bindings": Vec([binding("p", "Prd", decl("TP"))])})
    table = {"defs": MapVal([("f", Adt(None, None, {"0": sig_ctx, "1": decl("RET")}))])}

    def arglist(n_):
        return Adt(F + "arguments::Arguments", "Arguments", {"entries": Vec([Sym("arg%d" % i_) for i_ in range(n_)])})
    # the argument list is checked against the signature whatever its length - an empty list too (that is where the arity is compared)
    for n_ in (0, 1, 2):
        judge("call::Call", {"name": "f", "args": arglist(n_), "__table__": table}, [eq(EXP, "decl:RET"), ("args", BASE, (("p", "Prd", "decl:TP"),))], ":%d-arguments" % n_)
    judge("call::Call", {"name": "g", "__table__": table}, [], ":undefined", want_err=True)
    # constructors and destructors: the xtor must belong to the type it is used at, its arguments are checked against its signature
    noargs = Adt(F + "types::TypeArgs", "TypeArgs", {"span": NONE, "args": Vec([])})
    judge("constructor::Constructor", {"id": "K", "__table__": {"ctors": MapVal([("J", sig_ctx)])}}, [], ":undefined", want_err=True)
    # pattern and copattern matches: exactly one clause per xtor of the type, whatever the order they are written in; the checked
    # clause list is in declaration order; each body is checked at the right type with the clause's binders added
    POL = F + "declarations::Polarity"
    pol_path = POL if POL in fx.adts else next((a for a in fx.adts if a.startswith("fun::") and a.endswith("::Polarity")), POL)

    def clause(xtor, binders, pol, tag):
        return Adt(F + "terms::clause::Clause", "Clause", {
            "span": Sym("clspan"), "pol": Adt(pol_path, pol, {}), "xtor": xtor,
            "context_names": Adt(F + "context::NameContext", "NameContext", {"span": NONE, "bindings": Vec(list(binders))}),
            "context": Adt(F + "context::TypingContext", "TypingContext", {"span": Sym("s"), "bindings": Vec([])}),
            "body": Sym("body:%s" % tag)})
    sigA = Adt(F + "context::TypingContext", "TypingContext", {"span": Sym("sa"), "bindings": Vec([binding("q", "Prd", decl("TQ"))])})
    sigB = Adt(F + "context::TypingContext", "TypingContext", {"span": Sym("sb"), "bindings": Vec([binding("p", "Prd", decl("TP"))])})
    import itertools as _it
    shapes = [seq for n_ in range(0, 4) for seq in _it.product("ABC", repeat=n_)]

    def clause_list(seq, pol):
        # each xtor has one parameter, bound under a different name in its clause (so a binder that leaks into a sibling clause shows)
        return Vec([clause(x, ["u"] if x == "B" else (["w"] if x == "A" else []), pol, "%s%d" % (x, i)) for i, x in enumerate(seq)])
    for form, pol, table_key in (("case::Case", "Data", "ctors"), ("new::New", "Codata", "dtors")):
        n_acc = 0
        for seq in shapes:
            fields = {"clauses": clause_list(seq, pol), "__declared__": ["A", "B"]}
            if form == "case::Case":
                fields["type_args"] = noargs
                fields["__table__"] = {"ctors": MapVal([("A", sigA), ("B", sigB)])}
            else:
                fields["__expected__"] = decl("OWNER")
                fields["__table__"] = {"dtors": MapVal([("A", Adt(None, None, {"0": sigA, "1": decl("RA")})), ("B", Adt(None, None, {"0": sigB, "1": decl("RB")}))]),
                                       "types": MapVal([("OWNER", Adt(None, None, {"0": Adt(pol_path, "Codata", {}), "1": Vec([]), "2": Vec(["A", "B"])}))])}
            f, outs, msg = run(form, fields, several=True)
            nonlocal_n[0] += 1
            label = "%s{%s}" % (form.split("::")[-1], ",".join(seq))
            if msg:
                res.inst(label, f["sp"]["file"], f["sp"]["line"], "violation")
                res.violate(label, msg, f["sp"]["file"], f["sp"]["line"])
                continue
            oks = [o for o in outs if isinstance(o.result, Adt) and o.result.variant == "Ok"]
            errs = [o for o in outs if isinstance(o.result, Adt) and o.result.variant == "Err"]
            if len(oks) + len(errs) != len(outs) or not outs or (oks and len(outs) != 1):
                # several paths that all reject are a rejection (how the diagnostic is worded may depend on values the analysis cannot follow)
                raise AnalysisError("R-TYRULE: %s does not fold to one Ok result or to Err results only (%d paths, %d Ok)" % (label, len(outs), len(oks)))
            should = sorted(seq) == ["A", "B"]
            if bool(oks) != should:
                res.inst(label, f["sp"]["file"], f["sp"]["line"], "violation")
                res.violate(label, "a %s with clauses for %s over a type whose xtors are A, B is %s; the rule %s it (one clause for each xtor of the type, none "
                            "twice, none of another type)" % ("case" if pol == "Data" else "new", list(seq) or "no xtor at all", "accepted" if oks else "rejected",
                                                               "rejects" if oks else "accepts"), f["sp"]["file"], f["sp"]["line"])
                continue
            if not should:
                res.inst(label, f["sp"]["file"], f["sp"]["line"], "ok", "rejected")
                continue
            n_acc += 1
            o = oks[0]
            node = o.result.fields["0"]
            I_ = Interp(fx)
            cls = node.fields.get("clauses")
            order = [c.fields.get("xtor") for c in cls.items] if isinstance(cls, Vec) else None
            problems = []
            if order != ["A", "B"]:
                problems.append("the checked clauses are in the order %s, not in the order of the declaration (A, B) that the jump tables are built from" % (order,))
            bodies = {e[1]: e for e in o.events if e[0] == "check" and str(e[1]).startswith("body:")}
            for i, x in enumerate(seq):
                e = bodies.get("body:%s%d" % (x, i))
                want_ctx = BASE + ((("u", "Prd", "decl:TP"),) if x == "B" else ((("w", "Prd", "decl:TQ"),) if x == "A" else ()))
                want_ty = EXP if form == "case::Case" else ("decl:RA" if x == "A" else "decl:RB")
                if e is None:
                    problems.append("the body of the clause for %s is never checked" % x)
                elif e[2] != want_ctx or e[3] != want_ty:
                    problems.append("the body of the clause for %s is checked in %s at %s, the rule says in %s at %s" % (x, e[2], e[3], want_ctx, want_ty))
            if form == "case::Case" and not any(e[0] == "check" and e[1] == "self.scrutinee" and e[3] == "decl:OWNER" for e in o.events):
                problems.append("the scrutinee is not checked at the type the constructors belong to")
            if problems:
                res.inst(label, f["sp"]["file"], f["sp"]["line"], "violation")
                res.violate(label, "%s with clauses %s: %s" % (form.split("::")[-1], list(seq), "; ".join(problems[:2])), f["sp"]["file"], f["sp"]["line"])
            else:
                res.inst(label, f["sp"]["file"], f["sp"]["line"], "ok", "accepted, clauses in declaration order, bodies checked with their binders")
        if n_acc != 2:
            raise AnalysisError("R-TYRULE: %s: %d accepted clause lists folded (2 expected: A,B and B,A)" % (form, n_acc))
    for n_ in (0, 1, 2):
        judge("constructor::Constructor", {"id": "K", "args": arglist(n_), "__table__": {"ctors": MapVal([("K", sig_ctx)])}},
              [("tycheck", EXP), ("owner-of", "K"), ("args", BASE, (("p", "Prd", "decl:TP"),)), eq(EXP, "decl:OWNER")], ":%d-arguments" % n_)
        judge("destructor::Destructor", {"id": "d", "type_args": noargs, "args": arglist(n_),
                                         "__table__": {"dtors": MapVal([("d", Adt(None, None, {"0": sig_ctx, "1": decl("RET")}))])}},
              [("owner-of", "d"), chk("scrutinee", BASE, "decl:OWNER"), ("args", BASE, (("p", "Prd", "decl:TP"),)), eq(EXP, "decl:RET")], ":%d-arguments" % n_)
    res.require_floor(18)
    return res


def rule_tywf(ctx):
    """R-TYWF: a type taken from the program or from a signature is checked for well-formedness (which creates its instance) before
    a term is checked against it"""
    fx = ctx.fx
    res = RuleResult("R-TYWF", "in the Fun type checker every call `t.check(symbol_table, context, &T)` whose expected type T is not the "
                     "caller's own `expected` parameter, not i64 and not an instance just found in or created for the symbol table - "
                     "i.e. T is written in the program (a let annotation, a return type) or is the instantiated parameter type of a "
                     "signature - is dominated by a well-formedness check of the same T (Ty::check, directly or through "
                     "check_equality). Ty::check is what creates the monomorphic instance; terms such as `exit` and `goto` are typed "
                     "without looking at T, so without the check a program is accepted whose Core uses a type that is never declared")

    def establishes(t):
        ck = t.get("resolved_key") or t.get("callee_key") or ""
        nm = t.get("callee_name")
        if nm == "check" and "types::Ty" in ck and not (t.get("callee_trait") or "").endswith("typing::check::Check"):
            return [0]
        if nm == "check_equality" and ck.startswith("fun::"):
            return [len(t["args"]) - 2, len(t["args"]) - 1]
        # a helper of the checker that does one of the two on its own parameter (one level)
        g = fx.fns.get(ck)
        if g and g["crate"] == "fun" and "{" not in ck and not (g.get("impl_trait") or "").endswith("typing::check::Check"):
            gfn = Fn(g)
            gflow = Flow(gfn)
            out = []
            for _, t2 in gfn.calls():
                if t2.get("callee_name") == "check" and "types::Ty" in (t2.get("resolved_key") or t2.get("callee_key") or "") and t2["args"]:
                    r2 = op_root(t2["args"][0])
                    for o in (gflow.origins(r2, tuple(place_fields(t2["args"][0]["pl"]))) if r2 is not None else ()):
                        if o[0] == "arg" and o[1] - 1 < len(t["args"]):
                            out.append((o[1] - 1, tuple(o[2])) if o[2] else o[1] - 1)     # the parameter itself, or a field of it
            return out
        return []
    n = 0
    for k, f in sorted(fx.fns.items()):
        if f["crate"] != "fun" or "{promoted" in k:
            continue
        fn = None
        for bi, b in enumerate(f["blocks"]):
            t = b["term"]
            if not (t["k"] == "call" and t.get("callee_name") == "check" and (t.get("callee_trait") or "").endswith("typing::check::Check") and len(t["args"]) == 4):
                continue
            fn = fn or Fn(f)
            if bi not in fn.reach:
                continue
            flow = Flow(fn)
            a = t["args"][3]
            r = op_root(a)
            if r is None:
                continue
            org = flow.origins(r, tuple(place_fields(a["pl"])))
            is_impl = (f.get("impl_trait") or "").endswith("typing::check::Check")
            if "{closure" in k:
                continue        # what a closure captured (the enclosing rule's `expected`, say) is the enclosing function's business
            # the caller's own `expected` (argument 4 of Check::check), i64, or an instance out of the symbol table
            supplied = set()
            for o in org:
                if o[0] == "arg" and is_impl and o[1] == 4:
                    continue
                if o[0] == "arg":
                    supplied.add(("arg", o[1], tuple(o[2])))
                elif o[0] == "call":
                    tc = fn.term(o[1])
                    nm = tc.get("callee_name")
                    if nm == "next" and tc["args"]:
                        # an element of a sequence: of which parameter?
                        work, seen_l = [op_root(tc["args"][0])], set()
                        while work:
                            l0 = work.pop()
                            if l0 is None or l0 in seen_l:
                                continue
                            seen_l.add(l0)
                            for o2 in flow.origins(l0, ()):
                                if o2[0] == "arg":
                                    supplied.add(("elem", o2[1]))
                                elif o2[0] == "call" and fn.term(o2[1]).get("callee_name") in ("zip", "chain", "into_iter", "iter", "enumerate", "rev", "skip", "take", "cloned", "copied", "peekable", "by_ref"):
                                    work.extend(op_root(a_) for a_ in fn.term(o2[1])["args"])
                    # everything else is a value a function returned: mk_i64, a lookup in the symbol table or the context
            if not supplied:
                continue
            n += 1
            ikey = "%s@check:%d" % (k, sum(1 for b2 in f["blocks"][:bi] if b2["term"]["k"] == "call" and b2["term"].get("callee_name") == "check"))
            ok = False
            for bj, t2 in fn.calls():
                if bj == bi or not fn.dominates(bj, bi):
                    continue
                for ai in establishes(t2):
                    extra = ()
                    if isinstance(ai, tuple):
                        ai, extra = ai
                    if ai < 0 or ai >= len(t2["args"]):
                        continue
                    r2 = op_root(t2["args"][ai])
                    if r2 is None:
                        continue
                    org2 = flow.origins(r2, tuple(place_fields(t2["args"][ai]["pl"])) + tuple(extra))
                    if org2 & org:
                        ok = True
            what = ", ".join(sorted("parameter %d%s" % (s[1], "." + ".".join(s[2]) if len(s) > 2 and s[2] else "") if s[0] == "arg" else "an element of parameter %d" % s[1] for s in supplied))
            if ok:
                res.inst(ikey, t["sp"]["file"], t["sp"]["line"], "ok", "expected type from %s: well-formedness checked first" % what)
            else:
                res.inst(ikey, t["sp"]["file"], t["sp"]["line"], "violation")
                res.violate(ikey, "%s checks a term against a type taken from %s without first checking that type for well-formedness (Ty::check / "
                            "check_equality): its instance may never be created, and a term that does not inspect its expected type (exit, goto) "
                            "is accepted at a type the compiled program does not declare" % (k.split(" as ")[0].lstrip("<").split("::")[-1] if " as " in k else k.split("::")[-1], what),
                            t["sp"]["file"], t["sp"]["line"])
    if n < 2:
        raise AnalysisError("R-TYWF: only %d checks against a supplied type found (let annotation, return type, argument lists expected)" % n)
    return res


_ITER_STEPS = ("zip", "chain", "into_iter", "iter", "iter_mut", "enumerate", "rev", "skip", "take", "cloned", "copied", "peekable", "by_ref", "map",
               "filter", "filter_map", "drain", "flat_map", "flatten", "into_keys", "into_values", "keys", "values", "deref", "deref_mut", "as_slice",
               "as_mut_slice", "clone", "replace", "take_while", "skip_while", "inspect", "unwrap_or_default", "borrow", "borrow_mut", "as_ref", "as_mut")


def _sequence_sources(fn, flow, local):
    """the parameters (with field paths) a sequence or iterator held in `local` is drawn from, through the usual adaptor chain"""
    out, work, seen = set(), [local], set()
    while work:
        l0 = work.pop()
        if l0 is None or l0 in seen:
            continue
        seen.add(l0)
        for o in flow.origins(l0, ()):
            if o[0] == "arg":
                out.add((o[1], tuple(o[2])))
            elif o[0] == "call" and fn.term(o[1]).get("callee_name") in _ITER_STEPS:
                work.extend(op_root(a) for a in fn.term(o[1])["args"])
    return out


def rule_keyed(ctx):
    """R-KEYED: the typing rules never gather parts of the checked term into a keyed collection"""
    fx = ctx.fx
    res = RuleResult("R-KEYED", "no typing rule (a Check::check impl, its closures, check_args) gathers clauses, arguments or binders of the "
                     "term it checks into a HashMap/BTreeMap/HashSet/BTreeSet by collect / from_iter / extend: a keyed collection merges "
                     "entries with equal keys without a word, so a duplicated clause or binder vanishes before anything can reject it "
                     "(duplicates are rejected by no_dups and by the leftover-clauses test over the original lists). What Case and New "
                     "accept, and the order of their checked clauses, is decided by R-TYRULE; this rule is the structural backstop for "
                     "code the fold cannot follow")
    n = 0
    for k, f in sorted(fx.fns.items()):
        if f["crate"] != "fun" or "{promoted" in k:
            continue
        base = k.split("::{closure")[0]
        g = fx.fns.get(base, f)
        if not ((g.get("impl_trait") or "").endswith("typing::check::Check") and base.endswith("::check")) and not base.endswith("typing::check::check_args"):
            continue
        fn = Fn(f)
        flow = Flow(fn)
        n += 1
        bad = None
        for bi, t in fn.calls():
            nm = t.get("callee_name")
            if nm not in ("collect", "from_iter", "extend") or not t["args"]:
                continue
            dty = f["locals"][t["dest"]["l"]]["ty"] if t.get("dest") and not t["dest"]["p"] else ""
            sty = (t.get("callee_self") or "") + " " + (t.get("callee_self_adt") or "")
            keyed = any(x in dty for x in ("HashMap", "BTreeMap", "HashSet", "BTreeSet")) if nm != "extend" else any(x in sty for x in ("HashMap", "BTreeMap", "HashSet", "BTreeSet"))
            if not keyed:
                continue
            src = _sequence_sources(fn, flow, op_root(t["args"][-1] if nm == "extend" else t["args"][0]))
            # parameter 1 of check / the argument list of check_args (parameter 4): the term being checked; closures: anything captured
            hit = [s for s in src if (s[0] == 1 and ("{closure" in k or base.endswith("::check"))) or (base.endswith("check_args") and s[0] == 4)]
            if hit:
                bad = (t, hit[0])
        ikey = "%s:keyed" % k
        if bad:
            t, s = bad
            res.inst(ikey, t["sp"]["file"], t["sp"]["line"], "violation")
            res.violate(ikey, "%s gathers `%s` of the term it checks into a keyed collection (%s at line %d): entries with the same key are merged "
                        "silently, so a duplicate in the program is never seen by the checks that follow" %
                        (base.split(" as ")[0].lstrip("<").split("::")[-1], ".".join(s[1]) or "a part", t.get("callee_name"), t["sp"]["line"]), t["sp"]["file"], t["sp"]["line"])
        else:
            res.inst(ikey, fn.file, fn.line, "ok", nontrivial=False)
    if n < 15:
        raise AnalysisError("R-KEYED: only %d typing rules found (15 expected at least)" % n)
    return res


PARTIAL_STR = {"starts_with", "ends_with", "contains", "find", "rfind", "matches", "rmatches",
               "trim_start_matches", "trim_end_matches", "eq_ignore_ascii_case", "to_lowercase", "to_uppercase", "to_ascii_lowercase", "to_ascii_uppercase"}


def rule_nameeq(ctx):
    """R-NAMEEQ: names are compared whole"""
    fx = ctx.fx
    res = RuleResult("R-NAMEEQ", "the type checker identifies types, constructors, destructors, definitions and variables by their names; every "
                     "comparison of names in a function that reads a table of the symbol table is an equality of whole strings (==, a key of a map or set, Vec::contains). A look-up that "
                     "accepts a prefix, a suffix or a substring (str::starts_with / ends_with / contains / find ..), or that "
                     "folds the case, takes one name for another: `No` for `Node`, `get` for `get_all` - a constructor is then typed at the "
                     "wrong declaration, a well-typed program rejected or an ill-typed one accepted")
    n = 0
    lookup_memo = {}
    n_lookup = [0]
    from ..mir import rvalue_places
    for key, f in sorted(fx.fns.items()):
        if f["crate"] != "fun" or "{promoted" in key or "::parser::" in key or key.startswith("fun::parser"):
            continue
        if f.get("trait_impl", "").endswith("::Print") or "printer::Print" in key:
            continue
        n += 1
        # look-ups: the function (or the function a closure belongs to) reads a table of the symbol table
        owner = fx.fns.get(key.split("::{closure")[0], f)
        if key not in lookup_memo:
            lookup_memo[key] = any("symbol_table::SymbolTable" in (e.get("of") or "") for g in (f, owner) for b_ in g["blocks"] for s_ in b_["stmts"] if s_["k"] == "assign"
                                   for pl_, _r in rvalue_places(s_["rv"]) for e in pl_["p"] if isinstance(e, dict) and "f" in e)
        if not lookup_memo[key]:
            continue
        n_lookup[0] += 1
        for b in f["blocks"]:
            t = b["term"]
            if t["k"] != "call" or t.get("callee_name") not in PARTIAL_STR:
                continue
            c = t.get("callee") or ""
            if not c.startswith(("core::str", "alloc::str", "alloc::string")):
                continue
            ikey = "%s@%s" % (key.split("::{")[0], t["callee_name"])
            res.inst(ikey, t["sp"]["file"], t["sp"]["line"], "violation")
            res.violate(ikey, "%s compares a name with str::%s: a look-up that accepts a part of a name (or folds its case) takes one name for another - "
                        "the checker then types a construct at the wrong declaration" % (key.split("::{")[0].split("::")[-1], t["callee_name"]),
                        t["sp"]["file"], t["sp"]["line"])
    if n_lookup[0] < 5:
        raise AnalysisError("R-NAMEEQ: only %d functions that read a table of the symbol table were found" % n_lookup[0])
    res.inst("fun:whole-name comparisons", "lang/fun/src/typing/symbol_table.rs", 1, "ok", "%d functions (and closures) that read a table of the symbol table scanned, no partial string match" % n_lookup[0])
    return res
