"""C20: runtime contract - C print primitives (interval analysis), driver template instantiation, argument conversion,
argc guard, result register."""
import os
import re

from .. import backend, cfront, interp, isa
from ..core import RuleResult
from ..facts import AnalysisError
from ..mir import Fn, Flow, op_root

IO_C = "lang/driver/infrastructure/io.c"
TEMPLATE_C = "lang/driver/infrastructure/driver-template.c"


def rule_cint(ctx):
    from .. import cabs
    res = RuleResult("R-CINT", "abstract interpretation of print_i64/println_i64 from clang's AST with the parameter ranging over all of "
                     "int64_t (intervals with exact path splitting, loops unrolled to their exits, unsigned wrap, helper functions of the "
                     "file inlined; relations `x = +-value`, `x = (|value| div D) mod m` carried through casts, `/ c`, `x - (x / c) * c`): no "
                     "signed overflow, no division by zero, every store inside the buffer; write() gets exactly the stored bytes; and on "
                     "every path the bytes are the decimal representation of the value: a '-' first iff the value is negative, then "
                     "digits where the j-th from the right is (|value| div 10^j) mod 10, their number is the number of decimal digits "
                     "of every value taking that path, then (println only) a newline")
    path = os.path.join(ctx.root, IO_C)
    if not os.path.exists(path):
        raise AnalysisError("anchor file missing: " + IO_C)
    ast = cfront.clang_ast(path)
    fns = cfront.functions(ast)
    for name, newline in (("print_i64", False), ("println_i64", True)):
        if name not in fns:
            res.inst(name, IO_C, None, "violation")
            res.violate(name, "io.c no longer defines %s" % name, IO_C, None)
            continue
        a = cabs.analyse_function(fns[name], fns)
        groups = {}
        for kind, ok, msg, line in a.obligations:
            g = groups.setdefault(kind, [0, 0, None])
            g[0] += 1
            if not ok:
                g[1] += 1
                g[2] = g[2] or (msg, line)
        for kind, (n, bad, first) in sorted(groups.items()):
            ikey = "%s:%s" % (name, kind)
            if bad:
                res.inst(ikey, IO_C, first[1], "violation", "%d of %d" % (bad, n))
                res.violate(ikey, "%s: %s" % (name, first[0]), IO_C, first[1])
            else:
                res.inst(ikey, IO_C, None, "ok", "%d obligations on %d paths" % (n, len(a.finals)))
        writes = [e for e in a.events if e[0] == "write"]
        problems = {}       # check -> first message

        def bad(check, msg):
            problems.setdefault(check, msg)
        lengths = set()
        for _, vals, st in writes:
            p, ln = vals[1], vals[2]
            if not (isinstance(p, cabs.Ptr) and p.lo == p.hi and isinstance(ln, cabs.Num) and ln.lo == ln.hi and ln.lo >= 1):
                bad("write-exact", "write(%r, %r): start or length not exact on a path" % (p, ln))
                continue
            N = st.arrays.get(p.base)
            cells = [st.mem.get((p.base, i)) for i in range(p.lo, p.lo + ln.lo)]
            if N is None or p.lo + ln.lo > N or any(c is None for c in cells):
                bad("write-exact", "write(%r, %d) covers bytes that were never stored" % (p, ln.lo))
                continue
            stored = sorted(i for (b, i) in st.mem if b == p.base)
            if stored and stored[0] != p.lo:
                bad("write-exact", "write starts at %d but the first stored character is at %d" % (p.lo, stored[0]))
            if stored and stored[-1] != p.lo + ln.lo - 1:
                bad("write-exact", "write ends at %d but the last stored character is at %d" % (p.lo + ln.lo - 1, stored[-1]))
            lengths.add(ln.lo)
            P, Mr = st.P, st.M
            who = "values in [%d, %d]" % P
            # layout
            body = list(cells)
            if newline:
                if not (body and body[-1].lo == body[-1].hi == 10):
                    bad("layout", "%s: the last byte written is %r, not a newline" % (who, body[-1] if body else None))
                    continue
                body = body[:-1]
            neg = bool(body) and body[0].lo == body[0].hi == 45
            if neg:
                body = body[1:]
            if P[0] < 0 <= P[1]:
                raise AnalysisError("R-CINT: a path of %s does not determine the sign of the value" % name)
            if neg != (P[1] < 0):
                bad("sign", "%s: %s" % (who, "a '-' is written for a non-negative value" if neg else "no '-' is written for a negative value"))
            if not body:
                bad("layout", "%s: no digit is written" % who)
                continue
            nd = len(body)
            for j, c in enumerate(reversed(body)):
                if c.lo == c.hi and c.lo in (45, 10):
                    bad("layout", "%s: a '%s' is written among the digits" % (who, "-" if c.lo == 45 else "\\n"))
                    break
                if c.lo == c.hi and 48 <= c.lo <= 57 and not c.sym and Mr[0] // 10 ** j == Mr[1] // 10 ** j:
                    # a constant character on a path on which this digit of the value is the same for every value of the path
                    if (Mr[0] // 10 ** j) % 10 != c.lo - 48:
                        bad("digit-weights", "%s: the digit %d places from the right is written as '%s', the value has %d there" % (who, j, chr(c.lo), (Mr[0] // 10 ** j) % 10))
                        break
                    continue
                if not (c.chr and c.sym):
                    raise AnalysisError("R-CINT: %s stores a digit whose relation to the value the analysis cannot follow (%r)" % (name, c))
                if c.sym[1] != 10 or c.sym[0] != 10 ** j:
                    bad("digit-weights", "%s: the digit %d places from the right is (|value| div %d) mod %s, it must be (|value| div %d) mod 10"
                        % (who, j, c.sym[0], c.sym[1], 10 ** j))
                    break
            # count: every value on this path has exactly nd digits
            lo_ok = Mr[0] >= (10 ** (nd - 1) if nd > 1 else 0)
            hi_ok = Mr[1] <= 10 ** nd - 1
            if not (lo_ok and hi_ok):
                if Mr[0] > 10 ** nd - 1 or Mr[1] < (10 ** (nd - 1) if nd > 1 else 0):
                    bad("digit-count", "%s (|value| in [%d, %d]): %d digits are written, the value has %s" %
                        (who, Mr[0], Mr[1], nd, "more" if Mr[0] > 10 ** nd - 1 else "fewer"))
                elif "digit-weights" not in problems:
                    raise AnalysisError("R-CINT: %s: path with %d digits and |value| in [%d, %d]: the analysis is not precise enough to decide the digit count"
                                        % (name, nd, Mr[0], Mr[1]))
        if len(writes) != len(a.finals) or not writes:
            bad("write-exact", "%d write() calls on %d paths: not exactly one per path" % (len(writes), len(a.finals)))
        for check in ("write-exact", "layout", "sign", "digit-weights", "digit-count"):
            ikey = "%s:%s" % (name, check)
            if check in problems:
                res.inst(ikey, IO_C, None, "violation")
                res.violate(ikey, "%s: %s" % (name, problems[check]), IO_C, None)
            else:
                res.inst(ikey, IO_C, None, "ok", "%d paths, lengths %s" % (len(writes), sorted(lengths)[:3] + ["..."] + sorted(lengths)[-1:]))
        if len(a.finals) < 20:
            raise AnalysisError("R-CINT: only %d paths explored in %s" % (len(a.finals), name))
    res.require_floor(12)
    return res


def rule_template(ctx):
    fx = ctx.fx
    res = RuleResult("R-TEMPLATE", "driver template instantiation: every needle of generate_c_driver's .replace(..) occurs exactly once in "
                     "driver-template.c; the conversion applied to argv[i] returns a 64-bit integer type (checked against the C "
                     "declaration found through the template's own #includes); the generated prototype declares int64_t parameters; "
                     "in the template the argc guard returns before asm_main is called; main returns the value of asm_main")
    tpl = ctx.src(TEMPLATE_C)
    key = fx.fn("driver::generate_c_driver")["key"]       # the function may live in a sub-module of the driver crate
    fn = Fn(fx.fn(key))
    # the bodies that instantiate the template: generate_c_driver, its closures and the helpers of the driver crate it calls
    bodies = []
    todo = [(key, 0)]
    while todo:
        k0, dpt = todo.pop()
        if k0 in bodies:
            continue
        bodies.append(k0)
        for k2, f2 in fx.fns.items():
            if (f2.get("parent") or "").startswith(k0) and k2 not in bodies and "{promoted" not in k2:
                todo.append((k2, dpt))
        if dpt < 2:
            for _, t in Fn(fx.fns[k0]).calls():
                k2 = t.get("resolved_key") or (t.get("callee_key") if not t.get("callee_trait") else None)
                if k2 in fx.fns and fx.fns[k2]["crate"] == "driver" and k2 not in bodies:
                    todo.append((k2, dpt + 1))
    # needles: const str first arguments of str::replace
    needles = []
    for fn_b, bi, t in [(fb, bi, t) for fb in [Fn(fx.fns[b]) for b in bodies] for bi, t in fb.calls()]:
        if t.get("callee_name") == "replace" and (t.get("callee") or "").startswith(("alloc::str", "core::str", "alloc::string")):
            a = t["args"][1] if len(t["args"]) > 1 else None
            s = None
            if a and a.get("k") == "const":
                s = a.get("str")
            elif a:
                for d in fn_b.defs().get(op_root(a), []):
                    if d["kind"] == "assign" and d["rv"]["k"] == "use" and d["rv"]["op"].get("str") is not None:
                        s = d["rv"]["op"]["str"]
                    elif d["kind"] == "assign" and d["rv"]["k"] == "ref":
                        for d2 in fn_b.defs().get(d["rv"]["pl"]["l"], []):
                            if d2["kind"] == "assign" and d2["rv"]["k"] == "use" and d2["rv"]["op"].get("str") is not None:
                                s = d2["rv"]["op"]["str"]
            if s is None and a and a.get("k") == "const" and "str" in fx.consts.get(a.get("def"), {}):
                s = fx.consts[a["def"]]["str"]
            if s is None and a and op_root(a) is not None:
                # a named constant (`const TEMPLATE_CALL: &str = ..`)
                from ..mir import Flow as _Flow
                vals = set()
                for o0 in _Flow(fn_b).origins(op_root(a), ()):
                    if o0[0] == "const" and o0[1].startswith("str:"):
                        vals.add(o0[1][4:])
                    elif o0[0] == "const" and o0[1].startswith("def:") and "str" in fx.consts.get(o0[1][4:], {}):
                        vals.add(fx.consts[o0[1][4:]]["str"])
                    else:
                        vals.add(None)
                if len(vals) == 1 and None not in vals:
                    s = vals.pop()
            if s is None and a and op_root(a) is not None:
                # the needle is a parameter of a helper (`instantiate(text, placeholder, instance)`): the constant strings its callers pass
                from ..mir import Flow as _Flow
                hflow = _Flow(fn_b)
                pidx = [o[1] for o in hflow.origins(op_root(a), ()) if o[0] == "arg"]
                if pidx:
                    got = []
                    for fb2 in [Fn(fx.fns[b]) for b in bodies]:
                        for _, t2 in fb2.calls():
                            if fn_b.key in (t2.get("resolved_key"), t2.get("callee_key")) and pidx[0] - 1 < len(t2["args"]):
                                a2 = t2["args"][pidx[0] - 1]
                                s2 = a2.get("str") if a2.get("k") == "const" else None
                                if s2 is None and a2.get("k") == "const" and "str" in fx.consts.get(a2.get("def"), {}):
                                    s2 = fx.consts[a2["def"]]["str"]
                                if s2 is None and a2.get("k") in ("copy", "move"):
                                    f2flow = _Flow(fb2)
                                    for o2 in f2flow.origins(op_root(a2), ()):
                                        if o2[0] == "const" and o2[1].startswith("str:"):
                                            s2 = o2[1][4:]
                                        elif o2[0] == "const" and o2[1].startswith("def:") and "str" in fx.consts.get(o2[1][4:], {}):
                                            s2 = fx.consts[o2[1][4:]]["str"]
                                got.append((s2, t2["sp"]))
                    if got:
                        needles.extend(got)
                        continue
            needles.append((s, t["sp"]))
    if len(needles) < 4:
        raise AnalysisError("R-TEMPLATE: only %d replace() calls found in generate_c_driver" % len(needles))
    for s, sp in needles:
        ikey = "needle:%s" % s
        if s is None:
            res.inst(ikey, sp["file"], sp["line"], "violation")
            res.violate(ikey, "replace() with a non-literal needle", sp["file"], sp["line"])
            continue
        n = tpl.count(s)
        if n == 1:
            res.inst(ikey, sp["file"], sp["line"], "ok", "occurs once in the template")
        else:
            res.inst(ikey, sp["file"], sp["line"], "violation")
            res.violate(ikey, "the needle `%s` occurs %d times in driver-template.c (expected exactly once): the generated driver %s" %
                        (s, n, "is not instantiated" if n == 0 else "is instantiated in the wrong places"), sp["file"], sp["line"])
    # conversion function and prototype pieces: string constants used by the two write! loops
    strs = []
    for k2, f2 in fx.fns.items():
        if k2 in bodies:
            for b in f2["blocks"]:
                for st in b["stmts"]:
                    if st["k"] == "assign" and st["rv"]["k"] == "use" and st["rv"]["op"].get("k") == "const":
                        o = st["rv"]["op"]
                        if "str" in o:
                            strs.append(o["str"])
                        if "bytes" in o:
                            pieces = interp.decode_template(o["bytes"], ["{}"] * 8)
                            strs.append("".join(p if isinstance(p, str) else "{}" for p in pieces))
                for a in b["term"].get("args", []):
                    if a.get("k") == "const" and "str" in a:
                        strs.append(a["str"])
                    if a.get("k") == "const" and "bytes" in a:
                        pieces = interp.decode_template(a["bytes"], ["{}"] * 8)
                        strs.append("".join(p if isinstance(p, str) else "{}" for p in pieces))
    conv = None
    conv_extra = []
    proto_ty = None
    for s in strs:
        m = re.search(r"(?:^|[,(\s])([A-Za-z_][A-Za-z0-9_]*)\(argv\[\{\}\]((?:\s*,[^(){}]*)?)\)", s)
        if m:
            conv = m.group(1)
            conv_extra = [x.strip() for x in m.group(2).split(",")[1:]] if m.group(2).strip() else []
        m = re.search(r"(?:^|[,(]\s*)([A-Za-z_][A-Za-z0-9_ ]*?)\s+input\{\}", s)
        if m:
            proto_ty = m.group(1).strip()
    ikey = "argument-conversion"
    if conv is None or proto_ty is None:
        raise AnalysisError("R-TEMPLATE: could not recover the argument conversion / prototype strings of generate_c_driver (%s)" % strs[:6])
    # C declaration of the conversion function, seen through the template's includes
    ast = cfront.clang_ast(os.path.join(ctx.root, TEMPLATE_C))
    decl = None
    for n in ast.get("inner", []):
        if n.get("kind") == "FunctionDecl" and n.get("name") == conv:
            decl = n
    rty = decl["type"]["qualType"].split("(")[0].strip() if decl else None
    t = cfront.tyinfo(rty) if rty else None
    if t and t[1] >= 64 and t[0]:
        res.inst(ikey, fn.file, fn.line, "ok", "%s returns %s" % (conv, rty))
    else:
        res.inst(ikey, fn.file, fn.line, "violation")
        res.violate(ikey, ("command-line arguments are converted with %s, which returns `%s`: values outside that range do not reach main unchanged "
                    "(parameters are declared %s)" % (conv, rty, proto_ty)) if decl is not None else
                    ("command-line arguments are converted with %s, which no header included by the driver template declares: the call is "
                     "implicitly declared and returns `int`, so values outside 32 bits do not reach main unchanged (parameters are declared %s)" % (conv, proto_ty)),
                    fn.file, fn.line)
    if conv.startswith("strto"):
        # strtoll(s, end, base): only base 10 reads every decimal argument as the number it spells (base 0 reads a leading 0 as octal)
        ikey3 = "argument-conversion:base"
        base = conv_extra[-1] if len(conv_extra) == 2 else None
        if base is None:
            raise AnalysisError("R-TEMPLATE: %s is called with the arguments %s; the base could not be read off" % (conv, conv_extra))
        if re.fullmatch(r"10[uUlL]*|0[xX][aA]|012", base):
            res.inst(ikey3, fn.file, fn.line, "ok", "%s with base 10" % conv)
        elif re.fullmatch(r"[0-9]+[uUlL]*|0[xX][0-9a-fA-F]+", base):
            res.inst(ikey3, fn.file, fn.line, "violation")
            res.violate(ikey3, "command-line arguments are converted with %s(argv[i], %s, %s): with base %s a decimal argument is not read as the number it "
                        "spells (with base 0 a leading zero makes it octal, `010` reaches main as 8; another base reads the digits in that base)" %
                        (conv, conv_extra[0], base, base), fn.file, fn.line)
        else:
            raise AnalysisError("R-TEMPLATE: the base `%s` of %s is not a literal" % (base, conv))
    elif conv_extra and not (decl is not None and any(c.get("kind") == "CompoundStmt" for c in decl.get("inner", []))):
        raise AnalysisError("R-TEMPLATE: the conversion %s takes further arguments %s whose meaning is not modelled" % (conv, conv_extra))
    if decl is not None and any(c.get("kind") == "CompoundStmt" for c in decl.get("inner", [])):
        # the conversion is a helper defined in the template itself: on every path it returns the unchanged result of one call of a
        # standard conversion to a 64-bit integer, and it never ends the program (every int64 value has to reach main)
        from .. import cabs
        ikey2 = "argument-conversion:helper"
        try:
            ca = cabs.analyse_function(decl, cfront.functions(ast))
        except AnalysisError as e:
            raise AnalysisError("R-TEMPLATE: the conversion helper %s of the driver template: %s" % (conv, e))
        enders = sorted({e[0] for e in ca.events if e[0] in ("exit", "_exit", "_Exit", "abort", "quick_exit")})
        badret = []
        for st in ca.finals:
            r = st.ret
            if not (isinstance(r, cabs.Num) and r.tag and r.tag[0] == "call" and r.tag[1] in ("atoll", "strtoll", "strtoimax", "strtol", "atol")):
                badret.append(repr(r))
        if enders:
            res.inst(ikey2, TEMPLATE_C, None, "violation")
            res.violate(ikey2, "the conversion helper %s of the driver template can end the program (%s) depending on the converted value: some "
                        "64-bit argument values never reach main" % (conv, ", ".join(enders)), TEMPLATE_C, None)
        elif badret:
            res.inst(ikey2, TEMPLATE_C, None, "violation")
            res.violate(ikey2, "the conversion helper %s of the driver template returns %s on some path, not the unchanged result of a standard "
                        "conversion of the argument text" % (conv, badret[0]), TEMPLATE_C, None)
        else:
            res.inst(ikey2, TEMPLATE_C, None, "ok", "%d paths, all return the result of the standard conversion" % len(ca.finals))
    pt = cfront.tyinfo(proto_ty)
    ikey = "prototype-parameter-type"
    if pt and pt == (True, 64):
        res.inst(ikey, fn.file, fn.line, "ok", proto_ty)
    else:
        res.inst(ikey, fn.file, fn.line, "violation")
        res.violate(ikey, "generated asm_main prototype declares parameters of type `%s`, not a signed 64-bit integer" % proto_ty, fn.file, fn.line)
    # template AST: argc guard before the call; return value of main is asm_main's result
    main = cfront.functions(ast).get("main")
    if not main:
        raise AnalysisError("R-TEMPLATE: template has no main")
    # main of the template, abstractly interpreted path by path with argc ranging over all ints (its static helpers inlined; the
    # template is the instance for no arguments): on every path with argc != 1 nothing calls asm_main and the result is non-zero;
    # on every path with argc == 1 asm_main is called exactly once and its unchanged result is what main returns
    from .. import cabs
    tfns = cfront.functions(ast)
    try:
        a = cabs.analyse_function(main, tfns)
    except AnalysisError as e:
        raise AnalysisError("R-TEMPLATE: main of the driver template: %s" % e)
    guard_bad, status_bad, n_ok, n_wrong = [], [], 0, 0
    for st in a.finals:
        if st.P is None:
            raise AnalysisError("R-TEMPLATE: argc is not the first integer parameter of the template's main")
        calls = [e for e in a.events if e[0] == "asm_main" and _is_prefix_state(e[2], st)]
        wrong = st.P[1] < 1 or st.P[0] > 1
        right = st.P == (1, 1)
        r = st.ret
        if not wrong and not right:
            # one path for the expected count and for other counts alike: whatever it does is wrong for one of them
            if calls:
                n_wrong += 1
                guard_bad.append("for every argc in [%d, %d] - not only the expected 1 - asm_main is called" % st.P)
                continue
            if isinstance(r, cabs.Num) and (r.lo > 0 or r.hi < 0):
                n_ok += 1
                status_bad.append("argc in [%d, %d], which includes the expected count, is refused" % st.P)
                continue
            raise AnalysisError("R-TEMPLATE: a path of main does not decide whether argc is the expected number (%r)" % (st.P,))
        if wrong:
            n_wrong += 1
            if calls:
                guard_bad.append("argc in [%d, %d]: asm_main is called" % st.P)
            elif not (isinstance(r, cabs.Num) and (r.lo > 0 or r.hi < 0)):
                guard_bad.append("argc in [%d, %d]: main may return 0 (%r)" % (st.P[0], st.P[1], r))
        else:
            n_ok += 1
            if len(calls) != 1:
                status_bad.append("argc == 1: asm_main is called %d times" % len(calls))
            elif not (isinstance(r, cabs.Num) and r.tag and r.tag[:2] == ("call", "asm_main")):
                status_bad.append("argc == 1: main returns %r, not the unchanged result of asm_main" % (r,))
    if (not n_ok or not n_wrong) and not guard_bad and not status_bad:
        raise AnalysisError("R-TEMPLATE: main of the template has %d accepting and %d rejecting paths" % (n_ok, n_wrong))
    ikey = "template:argc-guard-before-call"
    if not guard_bad:
        res.inst(ikey, TEMPLATE_C, None, "ok", "%d paths with a wrong argument count: no call of asm_main, non-zero result" % n_wrong)
    else:
        res.inst(ikey, TEMPLATE_C, None, "violation")
        res.violate(ikey, "driver template: with a wrong number of arguments the program is not refused before asm_main runs (%s)" % guard_bad[0], TEMPLATE_C, None)
    ikey = "template:exit-status"
    if not status_bad:
        res.inst(ikey, TEMPLATE_C, None, "ok", "main returns the result of asm_main")
    else:
        res.inst(ikey, TEMPLATE_C, None, "violation")
        res.violate(ikey, "driver template: main does not return the value of asm_main (%s)" % status_bad[0], TEMPLATE_C, None)
    res.require_floor(8)
    return res


def _is_prefix_state(ev_state, final_state):
    """the event was recorded on the path that ends in final_state: the event's state is an ancestor (its P range contains the final one
    and its stores are a prefix)"""
    if ev_state.P is None or final_state.P is None:
        return True
    return ev_state.P[0] <= final_state.P[0] and final_state.P[1] <= ev_state.P[1]


def rule_ret(ctx):
    from .codegen import Target
    res = RuleResult("R-RET", "exit value: Exit::code_statement moves the result into the first return register and jumps to `cleanup`; "
                     "the epilogue (folded, run on the symbolic machine) does not overwrite that register; it is the platform's "
                     "integer return register")
    fx = ctx.fx
    key = "<axcut::syntax::statements::exit::Exit as axcut2backend::statements::code_statement::CodeStatement>::code_statement"
    fn = Fn(fx.fn(key))
    flow = Flow(fn)
    movs = [t for _, t in fn.calls() if t.get("callee_name") == "mov" and t.get("callee_trait") == "axcut2backend::code::Instructions"]
    jl = [t for _, t in fn.calls() if t.get("callee_name") == "jump_label"]
    ok = False
    if movs and jl:
        o = flow.origins(op_root(movs[0]["args"][0]), ())
        ok = any(x[0] == "call" and fn.term(x[1]).get("callee_name") == "return1" for x in o)
        lab = jl[0]["args"][0]
        s = lab.get("str")
        if s is None and lab.get("k") == "const" and "str" in fx.consts.get(lab.get("def"), {}):
            s = fx.consts[lab["def"]]["str"]
        if s is None and lab.get("k") != "const":
            for x in flow.origins(op_root(lab), ()):
                if x[0] == "const" and x[1].startswith("str:"):
                    s = x[1][4:]
                elif x[0] == "const" and x[1].startswith("def:") and "str" in fx.consts.get(x[1][4:], {}):
                    s = fx.consts[x[1][4:]]["str"]      # a named constant holding the label text
        ok = ok and s == "cleanup"
    ikey = "Exit:mov(return1)+jump(cleanup)"
    if ok:
        res.inst(ikey, fn.file, fn.line, "ok")
    else:
        res.inst(ikey, fn.file, fn.line, "violation")
        res.violate(ikey, "Exit::code_statement no longer moves the result into return1() and jumps to the label `cleanup`", fn.file, fn.line)
    for b in ("x86_64", "aarch64"):
        tg = Target(ctx, b)
        ret = tg.const_reg_name("RETURN1")
        ikey = "%s:return-register" % b
        from .abi import emission_auto
        codes = emission_auto(ctx, tg.crate + "::into_routine::cleanup", [])
        if codes is None:
            raise AnalysisError("R-RET: cleanup of %s could not be folded" % b)
        m = isa.Machine(b)
        m.regs[ret] = isa.var("result")
        isa.run(ctx, b, codes, m)
        labels = [e for e in m.events if e[0] == "label"]
        problems = list(m.errors)
        if ret != isa.RET_REG[b]:
            problems.append("RETURN1 is %s, the ABI returns integers in %s" % (ret, isa.RET_REG[b]))
        if m.r(ret) != isa.var("result"):
            problems.append("the epilogue overwrites %s" % ret)
        if not labels or labels[0][1] != "cleanup":
            problems.append("the epilogue does not start with the label `cleanup`")
        f = fx.fns[tg.crate + "::into_routine::cleanup"]
        if problems:
            res.inst(ikey, f["sp"]["file"], f["sp"]["line"], "violation")
            res.violate(ikey, "; ".join(problems), f["sp"]["file"], f["sp"]["line"])
        else:
            res.inst(ikey, f["sp"]["file"], f["sp"]["line"], "ok", ret)
    res.require_floor(3)
    return res
