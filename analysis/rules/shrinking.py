"""C04: chirality collapse table, R-SAMESRC (lifted definitions get exactly their free variables in one order),
R-DECLSRC (eta-expansion clauses enumerate the declaration)."""
import re

from .fresh import is_fresh_call
from .. import interp, prov
from ..core import RuleResult
from ..facts import AnalysisError
from ..interp import Adt, Sym
from ..mir import Fn, Flow, op_root

TY = "scc_core_lang::syntax::types::Ty"
CH = "scc_core_lang::syntax::context::Chirality"
CB = "scc_core_lang::syntax::context::ContextBinding"

# (type kind, Core chirality) -> (AxCut chirality, AxCut type kind): the collapse stated in the property:
# data producers and codata consumers -> prd, integers -> ext, integer consumers -> `_Cont` cns, the rest -> cns
CHIRALITY_TABLE = {
    ("I64", "Prd"): ("Ext", "I64"),
    ("I64", "Cns"): ("Cns", "_Cont"),
    ("data", "Prd"): ("Prd", "same"),
    ("codata", "Cns"): ("Prd", "same"),
    ("data", "Cns"): ("Cns", "same"),
    ("codata", "Prd"): ("Cns", "same"),
}


def rule_chirality(ctx):
    fx = ctx.fx
    res = RuleResult("R-CHI", "chirality collapse of shrink_binding folded as a decision table: the function's MIR is abstractly "
                     "interpreted for each of the 6 (type kind, chirality) inputs (is_codata is the only atom) and the resulting "
                     "AxCut chirality/type is compared with the table stated in the property")
    key = "core2axcut::context::shrink_binding"
    f = fx.fn(key)
    # the name of the type of integer continuations: what `cont_int()` declares (folded, not copied)
    _, couts = interp.run_fn(fx, "scc_core_lang::syntax::declaration::cont_int", [], hooks=[])
    cont_name = None
    for o in couts:
        r = o.result
        if isinstance(r, Adt) and isinstance(r.fields.get("name"), Adt) and isinstance(r.fields["name"].fields.get("name"), str):
            cont_name = r.fields["name"].fields["name"]
    if cont_name is None:
        raise AnalysisError("R-CHI: the declaration of the integer continuation type (cont_int) could not be folded")
    for (tykind, chi), (want_chi, want_ty) in sorted(CHIRALITY_TABLE.items()):
        ty = Adt(TY, "I64", {}) if tykind == "I64" else Adt(TY, "Decl", {"0": Sym("tyname")})
        b = Adt(CB, "ContextBinding", {"var": Sym("v"), "chi": Adt(CH, chi, {}), "ty": ty})

        def hook(I, p, fr, t, args, tykind=tykind):
            n = t.get("callee_name")
            if n == "is_codata":
                return tykind == "codata"
            if n == "shrink_identifier":
                return args[0]
            if n == "shrink_ty":
                return Sym("same")
            return NotImplemented
        I, outs = interp.run_fn(fx, key, [b, Sym("codata_types")], hooks=[hook])
        ikey = "%s:%s/%s" % (key, tykind, chi)
        got = set()
        for o in outs:
            r = o.result
            if isinstance(r, Adt) and isinstance(r.fields.get("chi"), Adt):
                gty = r.fields.get("ty")
                if isinstance(gty, Adt):
                    nm = I.deref(gty.fields.get("0"))
                    nm = I.deref(nm.fields.get("name")) if isinstance(nm, Adt) else nm
                    g = "I64" if gty.variant == "I64" else ("_Cont" if isinstance(nm, str) and nm == cont_name else "decl")
                else:
                    g = "same" if repr(gty) == "$same" else "?"
                got.add((r.fields["chi"].variant, g))
            else:
                got.add(("?", repr(r)))
        if got == {(want_chi, want_ty)}:
            res.inst(ikey, f["sp"]["file"], f["sp"]["line"], "ok", "-> %s %s" % (want_chi, want_ty))
        else:
            res.inst(ikey, f["sp"]["file"], f["sp"]["line"], "violation")
            res.violate(ikey, "shrink_binding maps a %s %s binding to %s, the documented collapse is (%s, %s)" %
                        (tykind, "producer" if chi == "Prd" else "consumer", sorted(got), want_chi, want_ty), f["sp"]["file"], f["sp"]["line"])
    res.require_floor(6)
    return res


ORDER_CHANGING = {"sort", "sort_by", "sort_by_key", "sort_unstable", "sort_unstable_by", "sort_unstable_by_key", "reverse", "swap",
                  "retain", "dedup", "rotate_left", "rotate_right", "swap_remove", "remove", "truncate", "pop", "insert", "drain"}


def _agg_field_roots(fn, flow, adt_suffix, field, fx=None, stop_names=()):
    """roots of one field of every aggregate of the given type built in the function (with fx: also those built by calling a
    constructor-like helper, and roots traced through helpers that return the collection)"""
    from ..mir import aggregates
    out = []
    for bi, s in aggregates(fn, fx):
        rv = s["rv"]
        if rv["k"] == "agg" and rv.get("agg") == "adt" and rv["adt"].endswith(adt_suffix) and field in rv["fields"]:
            op = rv["ops"][rv["fields"].index(field)]
            out.append((s, prov.strip_loop(prov.collection_roots(fn, flow, op, fx=fx, stop_names=stop_names))))
    return out


def _order_changers(fn):
    out = []
    for bi, t in fn.calls():
        if t.get("callee_name") in ORDER_CHANGING and (t.get("callee") or "").startswith(("alloc::", "core::", "std::")):
            out.append(t)
    return out


def rule_samesrc(ctx):
    fx = ctx.fx
    res = RuleResult("R-SAMESRC", "statements lifted to top-level definitions receive exactly their free variables: in core2axcut "
                     "`lift` and fun2core `share` the parameter list of the new definition, the argument list of the call that "
                     "replaces the statement (and in `lift` the renaming substitution) are all built from the one typed_free_vars set "
                     "of the lifted statement, by order-preserving iteration (collection provenance on MIR; no sort/reverse/filter "
                     "on the way)")
    specs = [
        ("core2axcut::statements::cut::lift", ("def::Def", "context"), ("call::Call", "args"), ("shrink_context",)),
        ("fun2core::compile::share", ("def::Def", "context"), ("call::Call", "args"), ()),
    ]
    for key, (dadt, dfld), (cadt, cfld), extra in specs:
        fn = Fn(fx.fn(key))
        flow = prov.make_flow(fn, fx, extra_names=extra)
        d = _agg_field_roots(fn, flow, dadt, dfld, fx=fx)      # helpers that hand the list on (shrink_context, ..) are followed
        c = _agg_field_roots(fn, flow, cadt, cfld, fx=fx)
        if not d or not c:
            raise AnalysisError("R-SAMESRC: %s builds no Def/Call" % key)
        # the root must be the set filled by typed_free_vars(&mut set)
        tfv = [t for bi, t in fn.calls() if t.get("callee_name") == "typed_free_vars"]
        if not tfv:
            res.inst(key + ":free-vars", fn.file, fn.line, "violation")
            res.violate(key + ":free-vars", "%s no longer computes typed_free_vars of the lifted statement" % key, fn.file, fn.line)
            continue
        set_roots = set()
        for t in tfv:
            set_roots |= prov.strip_loop(prov.collection_roots(fn, flow, t["args"][1], fx=fx))
        ok = True

        def _n(rs):
            # `unzip` hands on one component of its pairs: the collection it came from is the same
            return {(o[0], o[1]) if o[0] == "call" else o for o in rs}
        set_roots = _n(set_roots)
        for what, lst in (("parameter list", d), ("argument list", c)):
            for s, roots in lst:
                roots = _n(roots)
                ikey = "%s:%s" % (key, what.replace(" ", "-"))
                if roots == set_roots and len(roots) == 1:
                    res.inst(ikey, s["sp"]["file"], s["sp"]["line"], "ok", "built from the typed_free_vars set")
                else:
                    ok = False
                    res.inst(ikey, s["sp"]["file"], s["sp"]["line"], "violation")
                    res.violate(ikey, "%s: the %s of the lifted definition is not built (only) from the statement's typed_free_vars set "
                                "by order-preserving iteration (roots %s vs %s): lifted code can receive wrong or misordered variables" %
                                (key, what, sorted(map(str, roots)), sorted(map(str, set_roots))), s["sp"]["file"], s["sp"]["line"])
        if key.endswith("lift"):
            ss = [t for bi, t in fn.calls() if t.get("callee_name") == "subst_sim"]
            for t in ss:
                roots = _n(prov.strip_loop(prov.collection_roots(fn, flow, t["args"][1], fx=fx)))
                ikey = key + ":renaming"
                if roots == set_roots:
                    res.inst(ikey, t["sp"]["file"], t["sp"]["line"], "ok")
                else:
                    res.inst(ikey, t["sp"]["file"], t["sp"]["line"], "violation")
                    res.violate(ikey, "lift: the renaming applied to the lifted body is not built from the same free-variable set", t["sp"]["file"], t["sp"]["line"])
        oc = _order_changers(fn)
        ikey = key + ":order-preserving"
        if oc:
            res.inst(ikey, oc[0]["sp"]["file"], oc[0]["sp"]["line"], "violation")
            res.violate(ikey, "%s reorders/filters a collection (%s): parameters and arguments may no longer correspond" %
                        (key, ", ".join(sorted({t.get("callee_name") for t in oc}))), oc[0]["sp"]["file"], oc[0]["sp"]["line"])
        else:
            res.inst(ikey, fn.file, fn.line, "ok")
    res.require_floor(7)
    return res


def rule_declsrc(ctx):
    fx = ctx.fx
    res = RuleResult("R-DECLSRC", "generated (co)matches enumerate the declaration: in shrink_unknown_cuts and shrink_critical_pairs the "
                     "clause vector is an order-preserving map over lookup_type_declaration(..).xtors, each clause's tag and the tag of "
                     "the Invoke/Let in its body are the same xtor, and both use the same freshly renamed environment built from that "
                     "xtor's parameters")
    # the functions that look a declaration up, by what they return (lookup_type_declaration on the pinned tree)
    lookups = tuple(sorted({g["name"] for k_, g in fx.fns.items() if g["crate"] == "scc_core_lang" and "{" not in k_ and g.get("name") and
                            g["locals"][0]["ty"].startswith("&") and re.search(r"TypeDeclaration(<[^<>]*>)?$", g["locals"][0]["ty"])}))
    if not lookups:
        raise AnalysisError("R-DECLSRC: no function of core_lang returns a reference to a type declaration")
    # the functions that generate a (co)match from a declaration, by what they do: free functions of core2axcut that look a declaration
    # up (directly or through one helper) and build a Switch resp. a Create (shrink_unknown_cuts / shrink_critical_pairs on the pinned tree)
    def _calls_lookup(k_, depth=0):
        for b_ in fx.fns[k_]["blocks"]:
            t_ = b_["term"]
            if t_["k"] != "call":
                continue
            if t_.get("callee_name") in lookups:
                return True
            k2_ = t_.get("resolved_key") or t_.get("callee_key")
            if depth < 1 and k2_ in fx.fns and fx.fns[k2_]["crate"] == "core2axcut" and "{" not in k2_ and _calls_lookup(k2_, depth + 1):
                return True
        return False
    targets = {}
    for k_, f_ in sorted(fx.fns.items()):
        if f_["crate"] != "core2axcut" or "{" in k_ or k_.startswith("<"):
            continue
        hs = {rv_["adt"].split("::")[-1] for b_ in f_["blocks"] for s_ in b_["stmts"] for rv_ in [s_.get("rv") or {}]
              if s_["k"] == "assign" and rv_.get("k") == "agg" and (rv_.get("adt") or "").endswith(("switch::Switch", "create::Create"))}
        if len(hs) == 1 and _calls_lookup(k_):
            targets.setdefault(hs.pop(), []).append(k_)
    if sorted(targets) != ["Create", "Switch"] or any(len(v_) != 1 for v_ in targets.values()):
        # not recognisable by role (the declaration is looked up further away): the functions of the pinned tree, found by name or signature
        try:
            targets = {"Switch": [fx.fn("core2axcut::statements::cut::shrink_unknown_cuts")["key"]],
                       "Create": [fx.fn("core2axcut::statements::cut::shrink_critical_pairs")["key"]]}
        except AnalysisError:
            raise AnalysisError("R-DECLSRC: the functions that generate a match / a comatch from a declaration were not found (%s)" % {h_: len(v_) for h_, v_ in targets.items()})
    def folded():
        """the facts this rule reads off the structure of the code, read off the folded translation instead (R-CUTKIND: the clauses
        generated for <x | a> and for critical pairs enumerate the declaration in order, tag and binders agree)"""
        r2 = rule_cutkind(ctx)
        want = [i for i in r2.instances if i["key"].startswith("<x | a> at a ") or i["key"].endswith(":clauses")]
        return len(want) >= 8 and all(i["verdict"] == "ok" for i in want)

    def fold_ok():
        try:
            return ctx.memo("declsrc_by_fold", folded)
        except AnalysisError:
            return False
    for key in (targets["Switch"][0], targets["Create"][0]):
        fn = Fn(fx.fns[key])
        real_key = key
        flow = prov.make_flow(fn, fx, extra_names=())
        holder = "switch::Switch" if key == targets["Switch"][0] else "create::Create"
        lst = [(s, r) for s, r in _agg_field_roots(fn, flow, holder, "clauses", fx=fx, stop_names=lookups)]
        # keep only those built by a map over a lookup (the integer special cases build literal vec![..])
        n_ok = 0
        for s, roots in lst:
            calls = {fn.term(o[1]).get("callee_name") if o[0] == "call" else o[1] for o in roots if o[0] in ("call", "hcall")}
            if calls and calls <= set(lookups) and all(o[0] in ("call", "hcall") for o in roots):
                n_ok += 1
                res.inst(key + ":clauses-from-declaration", s["sp"]["file"], s["sp"]["line"], "ok", "map over lookup_type_declaration(..).xtors")
            elif (any(o[0] == "agg" for o in roots) and not calls) or (calls and calls <= {"box_assume_init_into_vec_unsafe", "into_vec"}):
                res.inst(key + ":clauses-literal(int)", s["sp"]["file"], s["sp"]["line"], "ok", "integer case: literal one-clause vector", nontrivial=False)
            elif fold_ok():
                n_ok += 1
                res.inst(key + ":clauses-from-declaration", s["sp"]["file"], s["sp"]["line"], "ok", "built through helpers; the folded translation enumerates the declaration in order")
            else:
                res.inst(key + ":clauses-from-declaration", s["sp"]["file"], s["sp"]["line"], "violation")
                res.violate(key + ":clauses-from-declaration", "%s: the clause vector of the generated (co)match is not an order-preserving map over the "
                            "declaration's xtors (roots: %s)" % (key, sorted(calls) or sorted(map(str, roots))), s["sp"]["file"], s["sp"]["line"])
        if n_ok == 0 and not any(i["verdict"] == "violation" for i in res.instances if i["key"].startswith(key)):
            raise AnalysisError("R-DECLSRC: no declaration-driven clause vector found in %s" % key)
        oc = _order_changers(fn)
        if oc:
            res.inst(key + ":order-preserving", oc[0]["sp"]["file"], oc[0]["sp"]["line"], "violation")
            res.violate(key + ":order-preserving", "%s reorders a collection (%s): clause order no longer equals declaration order" %
                        (key, ", ".join(sorted({t.get("callee_name") for t in oc}))), oc[0]["sp"]["file"], oc[0]["sp"]["line"])
        else:
            res.inst(key + ":order-preserving", fn.file, fn.line, "ok")
        # inside the clause-building closure: Clause.xtor and inner tag share their source; Clause.context and inner args share theirs
        found = False
        for ck, g in fx.fns.items():
            if (g.get("parent") or "").split("::{")[0] != real_key or "{promoted" in ck:
                continue
            cfn = Fn(g)
            cflow = prov.make_flow(cfn, fx, extra_names=("shrink_identifier", "shrink_context"))
            cl = [s for bi, si, s in cfn.stmts() if s["rv"]["k"] == "agg" and s["rv"].get("adt", "").endswith("statements::clause::Clause")]
            if not cl:
                continue
            inner_adt = "invoke::Invoke" if key == targets["Switch"][0] else "let::Let"
            inner = [s for bi, si, s in cfn.stmts() if s["rv"]["k"] == "agg" and s["rv"].get("adt", "").endswith(inner_adt)]
            if not inner:
                continue
            found = True
            crv, irv = cl[0]["rv"], inner[0]["rv"]

            def roots(rv, fld):
                return prov.strip_loop(prov.collection_roots(cfn, cflow, rv["ops"][rv["fields"].index(fld)]))
            tag_ok = roots(crv, "xtor") == roots(irv, "tag")
            env_ok = roots(crv, "context") == roots(irv, "args")
            def _calls_fresh(k2, depth=0):
                bodies_ = [k2] + [kc for kc, gc in fx.fns.items() if (gc.get("parent") or "").startswith(k2) and "{promoted" not in kc]
                for kb in bodies_:
                    for _, t in Fn(fx.fns[kb]).calls():
                        if is_fresh_call(ctx, t):
                            return True
                        k3 = t.get("resolved_key") or (t.get("callee_key") if not t.get("callee_trait") else None)
                        if depth < 2 and k3 in fx.fns and fx.fns[k3]["crate"] == "core2axcut" and k3 not in bodies_ and _calls_fresh(k3, depth + 1):
                            return True
                return False
            fresh = any(_calls_fresh(k2) for k2, g2 in fx.fns.items() if (g2.get("parent") or "").startswith(ck) or k2 == ck)
            for nm, okk, msg in (("tag", tag_ok, "the clause's xtor and the tag of the %s in its body come from different sources" % inner_adt.split("::")[-1]),
                                 ("env", env_ok, "the clause's binders and the arguments of the %s in its body are different lists" % inner_adt.split("::")[-1]),
                                 ("fresh", fresh, "the clause binders are no longer renamed with fresh_identifier")):
                ikey = "%s:clause-%s" % (key, nm)
                if okk:
                    res.inst(ikey, cl[0]["sp"]["file"], cl[0]["sp"]["line"], "ok")
                else:
                    res.inst(ikey, cl[0]["sp"]["file"], cl[0]["sp"]["line"], "violation")
                    res.violate(ikey, "%s: %s" % (key, msg), cl[0]["sp"]["file"], cl[0]["sp"]["line"])
        if not found:
            # the clauses are built somewhere else (a helper that takes the body of a clause as a closure, say): the same facts - tag and
            # binders of a clause are those of the statement in its body - are read off the folded translation by R-CUTKIND
            if not fold_ok():
                raise AnalysisError("R-DECLSRC: clause-building closure of %s not found" % key)
            for nm in ("tag", "env", "fresh"):
                res.inst("%s:clause-%s" % (key, nm), fn.file, fn.line, "ok", "read off the folded translation (R-CUTKIND: generated clauses)")
    res.require_floor(8)
    return res


NAME_FIELDS = {"xtor", "tag", "label", "name"}


def idcmp_sites(fx, crates):
    """comparisons of the `.id` component of identifiers that are names (xtors, tags, labels, definition/type names): these
    identifiers are created with id 0 and told apart by name only"""
    from ..mir import Fn, Flow, op_root, place_fields
    for key, f in sorted(fx.fns.items()):
        if f["crate"] not in crates or "{promoted" in key:
            continue
        if f.get("impl_trait") in ("core::cmp::PartialEq", "core::cmp::PartialOrd", "core::cmp::Ord", "core::hash::Hash", "core::clone::Clone", "core::fmt::Debug"):
            continue
        fn = None
        for bi, b in enumerate(f["blocks"]):
            for s in b["stmts"]:
                rv = s.get("rv")
                if s["k"] != "assign" or rv["k"] != "binop" or rv["op"] not in ("Eq", "Ne"):
                    continue
                fn = fn or Fn(f)
                if bi not in fn.reach:
                    continue
                flow = Flow(fn)
                for o in (rv["a"], rv["b"]):
                    r = op_root(o)
                    if r is None:
                        continue
                    paths = set()
                    for org in flow.origins(r, tuple(place_fields(o["pl"]))):
                        if org[0] in ("arg", "call") and len(org[2]) >= 1 and org[2][-1] == "id":
                            # the identifier whose id is read: field before `.id`, or the parameter itself
                            owner = org[2][-2] if len(org[2]) >= 2 else (fn.var_name(org[1]) if org[0] == "arg" else None)
                            paths.add(owner)
                    bad = [p for p in paths if p in NAME_FIELDS]
                    if bad:
                        yield key, s["sp"], bad[0]
                        break


def rule_idcmp(ctx):
    fx = ctx.fx
    res = RuleResult("R-IDCMP", "names are compared by name: xtor/tag/label/definition identifiers are built with Identifier::new (id 0) "
                     "and never uniquified, so a comparison of their `.id` components is vacuously true and selects the first "
                     "clause/declaration; no Eq/Ne on the id of such an identifier may exist in core_lang/core2axcut/axcut/"
                     "axcut2backend (expected count 0, positive control in fixtures/poscontrol)")
    crates = {"scc_core_lang", "core2axcut", "axcut", "axcut2backend", "fun2core"}
    n = 0
    for key, sp, fld in idcmp_sites(fx, crates):
        n += 1
        ikey = "%s@%s.id" % (key, fld)
        res.inst(ikey, sp["file"], sp["line"], "violation")
        res.violate(ikey, "compares the `.id` of the name identifier `%s` (always 0): the comparison holds for every %s, so the first one is selected" % (fld, fld),
                    sp["file"], sp["line"])
    nb = sum(1 for f in fx.fns.values() if f["crate"] in crates)
    res.inst("bodies-scanned=%d" % nb, None, None, "ok")
    pc = list(idcmp_sites(ctx.fixture("poscontrol"), {"poscontrol"}))
    if len(pc) < 1:
        raise AnalysisError("R-IDCMP positive control not reported")
    res.inst("poscontrol:idcmp(%d)" % len(pc), None, None, "ok", "positive control fired")
    return res


def rule_cutvar(ctx):
    """R-CUTVAR: the eta-expansion of a variable/covariable cut matches on the value and invokes the continuation"""
    from .. import interp as _interp
    from ..interp import Adt as _Adt, Sym as _Sym, Vec as _Vec, SetVal as _SetVal
    from .linear import _MutInt
    fx = ctx.fx
    res = RuleResult("R-CUTVAR", "`shrink_unknown_cuts` folded at a data type and at a codata type (two xtors each, with arguments): in the AxCut "
                     "statement produced for the cut <x | a>, `switch` scrutinises the side whose AxCut chirality is producer (x at a data "
                     "type, a at a codata type - a destructor value), every clause binds fresh variables for the xtor's arguments and "
                     "`invoke`s the same xtor with exactly those variables on the other side (the closure). Swapping the sides yields an "
                     "ill-typed AxCut program (switch on a closure)")
    key = "core2axcut::statements::cut::shrink_unknown_cuts"
    f = fx.fn(key)
    CL = "scc_core_lang::syntax::"

    def ident(nm, i):
        return _Adt(CL + "names::Identifier", "Identifier", {"name": nm, "id": i})

    def tctx(bs):
        return _Adt(CL + "context::TypingContext", "TypingContext", {"bindings": _Vec(bs)})

    def cb(nm, i, chi, ty):
        return _Adt(CL + "context::ContextBinding", "ContextBinding", {"var": ident(nm, i), "chi": _Adt(CL + "context::Chirality", chi, {}), "ty": ty})
    I64 = _Adt(CL + "types::Ty", "I64", {})

    def decl(marker, name, xtors):
        return _Adt(CL + "declaration::TypeDeclaration", "TypeDeclaration", {"dat": _Adt(CL + "declaration::" + marker, marker, {}), "name": ident(name, 0), "xtors": _Vec([
            _Adt(CL + "declaration::XtorSig", "XtorSig", {"xtor": _Adt(CL + "declaration::" + marker, marker, {}), "name": ident(x, 0), "args": tctx(args)}) for x, args in xtors])})
    data = _Vec([decl("Data", "D", [("K0", []), ("K1", [cb("p", 0, "Prd", I64), cb("q", 0, "Prd", _Adt(CL + "types::Ty", "Decl", {"0": ident("D", 0)}))])])])
    codata = _Vec([decl("Codata", "C", [("d0", [cb("p", 0, "Prd", I64)]), ("d1", [cb("k", 0, "Cns", I64), cb("p", 0, "Prd", I64)])])])
    bad = []
    for tname, is_codata in (("D", False), ("C", True)):
        I = _interp.Interp(fx, hooks=[], max_depth=12, max_paths=64, max_steps=200000)
        holder = _Adt(None, None, {"0": 100})
        state = _Adt("core2axcut::shrinking::ShrinkingState", "ShrinkingState", {
            "max_id": _MutInt(I, holder), "data": data, "codata": codata, "used_labels": _SetVal(), "current_label": "f", "lifted_statements": _Vec([])})
        sfr = _interp.Frame({"locals": [{"ty": "ShrinkingState"}], "blocks": [], "key": "<state>"}, [])
        sfr.locals = [state]
        sref = _interp.Ref(sfr, 0, [])
        x, a = ident("x", 1), ident("a", 2)
        outs = I.run(f, [x, a, _Adt(CL + "types::Ty", "Decl", {"0": ident(tname, 0)}), sref])
        from ..backend import fold_verdict
        msg = fold_verdict(outs, "R-CUTVAR: shrink_unknown_cuts at %s" % tname)
        if msg:
            bad.append((tname, msg))
            continue
        r = [o for o in outs if not getattr(o, "diverged", None)][0].result
        sw = r.fields.get("0") if isinstance(r, _Adt) and r.variant == "Switch" and isinstance(r.fields.get("0"), _Adt) else r
        if not (isinstance(sw, _Adt) and "clauses" in sw.fields and isinstance(sw.fields["clauses"], _Vec)):
            raise AnalysisError("R-CUTVAR: the result of shrink_unknown_cuts at %s is not a concrete switch: %r" % (tname, r))
        want_sw, want_inv = (2, 1) if is_codata else (1, 2)
        got_sw = sw.fields["var"].fields.get("id")
        if got_sw != want_sw:
            bad.append((tname, "the switch scrutinises %s, expected %s (the side whose AxCut chirality is producer at a %s type)" %
                        ("x" if got_sw == 1 else "a", "a" if is_codata else "x", "codata" if is_codata else "data")))
            continue
        xt = ["d0", "d1"] if is_codata else ["K0", "K1"]
        for cl, xn in zip(sw.fields["clauses"].items, xt):
            body = cl.fields.get("body")
            inv = body.fields.get("0") if isinstance(body, _Adt) and body.variant == "Invoke" and isinstance(body.fields.get("0"), _Adt) else body
            if not (isinstance(inv, _Adt) and "tag" in inv.fields):
                bad.append((tname, "the clause for %s does not invoke" % xn))
                break
            ids_ctx = [b_.fields["var"].fields["id"] for b_ in cl.fields["context"].fields["bindings"].items]
            ids_args = [b_.fields["var"].fields["id"] for b_ in inv.fields["args"].fields["bindings"].items]
            if cl.fields["xtor"].fields.get("name") != xn or inv.fields["tag"].fields.get("name") != xn:
                bad.append((tname, "clause/tag names %s/%s, expected %s (declaration order)" % (cl.fields["xtor"].fields.get("name"), inv.fields["tag"].fields.get("name"), xn)))
                break
            if inv.fields["var"].fields.get("id") != want_inv:
                bad.append((tname, "the clause for %s invokes the wrong side" % xn))
                break
            if ids_ctx != ids_args or len(set(ids_ctx)) != len(ids_ctx) or any(i_ <= 100 for i_ in ids_ctx):
                bad.append((tname, "the clause for %s binds %s and passes on %s: must be the same fresh, pairwise distinct variables" % (xn, ids_ctx, ids_args)))
                break
    if bad:
        res.inst("unknown-cut", f["sp"]["file"], f["sp"]["line"], "violation")
        res.violate("unknown-cut", "<x | a> at the %s type %s: %s" % ("codata" if bad[0][0] == "C" else "data", bad[0][0], bad[0][1]), f["sp"]["file"], f["sp"]["line"])
    else:
        res.inst("unknown-cut", f["sp"]["file"], f["sp"]["line"], "ok", "data and codata instance")
    res.require_floor(1)
    return res


def rule_cutkind(ctx):
    """R-CUTKIND: right-hand sides of the cut shapes"""
    from .. import interp as _interp
    from ..interp import Adt as _Adt, Sym as _Sym, Vec as _Vec, SetVal as _SetVal
    from ..backend import fold_verdict
    from .linear import _MutInt
    fx = ctx.fx
    res = RuleResult("R-CUTKIND", "right-hand sides of the Core->AxCut translation of cuts, decided by folding `Cut::shrink` on one symbolic instance of "
                     "every shape that is translated by construction (the recursive shrink of sub-statements is cut and recorded): "
                     "<K(as) | mu~x.s> and <mu a.s | D(as)> become `let`, <K(as) | a> and <x | D(as)> `invoke`, <x | case> and <cocase | a> "
                     "`switch`, <cocase | mu~x.s> and <mu a.s | case> `create`, <n | mu~x.s> / <n | a> `lit` (+ invoke Ret), <p op q | ..> "
                     "`op` (+ invoke Ret), <x | mu~v.s> and <mu a.s | c> a renaming of s, known cuts the matching clause body with its "
                     "binders renamed to the arguments; each with the bound/scrutinised/invoked variable, the tag, the arguments in "
                     "order and the sub-statements in the places the calculus prescribes")
    key = "<scc_core_lang::syntax::statements::cut::Cut<FsTerm,FsTerm> as core2axcut::shrinking::Shrinking>::shrink"
    f = fx.fn(key)
    CL = "scc_core_lang::syntax::"
    PRD, CNS = _Adt(CL + "terms::Prd", "Prd", {}), _Adt(CL + "terms::Cns", "Cns", {})

    def ident(nm, i):
        return _Adt(CL + "names::Identifier", "Identifier", {"name": nm, "id": i})
    I64 = _Adt(CL + "types::Ty", "I64", {})
    TD = _Adt(CL + "types::Ty", "Decl", {"0": ident("D", 0)})
    TC = _Adt(CL + "types::Ty", "Decl", {"0": ident("C", 0)})

    def cb(nm, i, chi="Prd", ty=None):
        return _Adt(CL + "context::ContextBinding", "ContextBinding", {"var": ident(nm, i), "chi": _Adt(CL + "context::Chirality", chi, {}), "ty": ty or I64})

    def tctx(bs):
        return _Adt(CL + "context::TypingContext", "TypingContext", {"bindings": _Vec(list(bs))})

    def T(variant, inner):
        return _Adt(CL + "terms::FsTerm", variant, {"0": inner})

    def xvar(pc, nm, i, ty):
        return T("XVar", _Adt(CL + "terms::xvar::XVar", "XVar", {"prdcns": pc, "var": ident(nm, i), "ty": ty}))

    def mu(pc, nm, i, body, ty):
        return T("Mu", _Adt(CL + "terms::mu::Mu", "Mu", {"prdcns": pc, "variable": ident(nm, i), "statement": _Sym(body), "ty": ty}))

    def xtor(pc, name, args, ty):
        return T("Xtor", _Adt(CL + "terms::xtor::Xtor", "Xtor", {"prdcns": pc, "name": ident(name, 0), "args": tctx(args), "ty": ty}))

    def xcase(pc, clauses, ty):
        return T("XCase", _Adt(CL + "terms::xcase::XCase", "XCase", {"prdcns": pc, "ty": ty, "clauses": _Vec([
            _Adt(CL + "terms::clause::Clause", "Clause", {"prdcns": pc, "xtor": ident(x, 0), "context": tctx(c), "body": _Sym(b)}) for x, c, b in clauses])}))

    def decl(marker, name, xtors):
        return _Adt(CL + "declaration::TypeDeclaration", "TypeDeclaration", {"dat": _Adt(CL + "declaration::" + marker, marker, {}), "name": ident(name, 0), "xtors": _Vec([
            _Adt(CL + "declaration::XtorSig", "XtorSig", {"xtor": _Adt(CL + "declaration::" + marker, marker, {}), "name": ident(x, 0), "args": tctx(a)}) for x, a in xtors])})
    data = _Vec([decl("Data", "D", [("K0", []), ("K1", [cb("p", 0), cb("q", 0)])])])
    codata = _Vec([decl("Codata", "C", [("d0", [cb("p", 0)]), ("d1", [cb("p", 0), cb("q", 0)])])])
    ARGS = [cb("u", 11), cb("w", 12)]
    CLS = [("K0", [], "b0"), ("K1", [cb("y", 21), cb("z", 22)], "b1")]
    CLC = [("d0", [cb("y", 21)], "b0"), ("d1", [cb("y", 21), cb("z", 22)], "b1")]

    def run(prod, cons, ty, fv=None, multi=False, max_depth=12):
        """fv: the free variables declared for the symbolic bodies (name -> list of ContextBinding); None: not declared (a body whose
        free variables the code asks for then cannot be followed)"""
        events = []

        def hook(I, p, fr, t, args):
            n = t.get("callee_name")
            a0 = I.deref(args[0]) if args else None
            if n == "shrink" and (t.get("callee_trait") or "").endswith("shrinking::Shrinking") and isinstance(a0, _Sym):
                events.append(("shrink", a0.name))
                p.events.append(("shrink", a0.name))
                return _Sym("sh(%s)" % a0.name)
            if fv is not None and n in ("typed_free_vars", "free_vars") and len(args) > 1 and fr.f["crate"] != "scc_core_lang":
                # a body, or a body whose shape a leaf test has looked at: the whole statement is the body
                def root(v, d=0):
                    v = I.deref(v)
                    if isinstance(v, _Sym):
                        return re.split(r"[.\[!{]", v.name)[0]
                    if isinstance(v, _Adt) and d < 4:
                        for x in v.fields.values():
                            r_ = root(x, d + 1)
                            if r_:
                                return r_
                    return None
                rt = root(a0)
                acc = I.deref(args[1])
                if rt in fv and isinstance(acc, _SetVal):
                    for b_ in fv[rt]:
                        acc.add(b_)
                    events.append(("fv", rt))
                    return _Adt(None, None, {})
            if n == "subst_sim" and isinstance(a0, _Sym):
                sub = I.deref(args[1]) if len(args) > 1 else None
                pairs = []
                if isinstance(sub, _Vec):
                    for e in sub.items:
                        if isinstance(e, _Adt) and set(e.fields) >= {"0", "1"}:
                            k0, v0 = I.deref(e.fields["0"]), I.deref(e.fields["1"])
                            pairs.append((k0, v0.fields.get("id") if isinstance(v0, _Adt) else v0))
                events.append(("subst", a0.name, pairs))
                return _Sym("%s%s" % (a0.name, pairs))
            return NotImplemented
        I = _interp.Interp(fx, hooks=[hook], max_depth=max_depth, max_paths=64, max_steps=300000)
        holder = _Adt(None, None, {"0": 100})
        state = _Adt("core2axcut::shrinking::ShrinkingState", "ShrinkingState", {
            "max_id": _MutInt(I, holder), "data": data, "codata": codata, "used_labels": _SetVal(), "current_label": "f", "lifted_statements": _Vec([])})
        sfr = _interp.Frame({"locals": [{"ty": "ShrinkingState"}], "blocks": [], "key": "<state>"}, [])
        sfr.locals = [state]
        cut = _Adt(CL + "statements::cut::Cut", "Cut", {"producer": prod, "ty": ty, "consumer": cons})
        outs = I.run(f, [cut, _interp.Ref(sfr, 0, [])])
        if multi:
            # the shape of a symbolic body is looked at (leaf tests): one path per shape, each judged on its own
            normal = [o for o in outs if not getattr(o, "diverged", None)]
            if not normal:
                return None, fold_verdict(outs, "R-CUTKIND: Cut::shrink"), events
            if any("unknown" in str(c_[0]).lower() or str(c_[0]).startswith("switch@") for o in normal for c_ in o.conds):
                raise AnalysisError("R-CUTKIND: Cut::shrink on a critical pair forks on a value the analysis cannot follow")
            return normal, None, events
        msg = fold_verdict(outs, "R-CUTKIND: Cut::shrink")
        if msg:
            return None, msg, events
        return [o for o in outs if not getattr(o, "diverged", None)][0].result, None, events

    def unwrap(r):
        if isinstance(r, _Adt) and r.path and r.path.endswith("statements::Statement") and isinstance(r.fields.get("0"), _Adt):
            return r.variant, r.fields["0"]
        if isinstance(r, _Adt):
            return r.variant, r
        return None, r

    def vid(x):
        return x.fields.get("id") if isinstance(x, _Adt) else None

    def arg_ids(c):
        return [b_.fields["var"].fields["id"] for b_ in c.fields["bindings"].items] if isinstance(c, _Adt) and "bindings" in c.fields else None

    def clauses_ok(cl, spec):
        """clauses keep xtor, binders and order; bodies are the shrunk bodies"""
        if not isinstance(cl, _Vec) or len(cl.items) != len(spec):
            return "the clause list has %s entries, expected %d" % (len(cl.items) if isinstance(cl, _Vec) else "?", len(spec))
        for c, (x, bs, b) in zip(cl.items, spec):
            if c.fields["xtor"].fields.get("name") != x or arg_ids(c.fields["context"]) != [b_.fields["var"].fields["id"] for b_ in bs]:
                return "clause %s is translated to %s(%s)" % (x, c.fields["xtor"].fields.get("name"), arg_ids(c.fields["context"]))
            body = c.fields.get("body")
            if not (isinstance(body, _Sym) and body.name == "sh(%s)" % b):
                return "the body of clause %s is %r, expected the translation of its own body" % (x, body)
        return None

    X, A_, V = 1, 2, 3
    cases = []
    # (label, producer, consumer, type, checker)
    def chk_let(var, tag, body):
        def c(kind, st, ev):
            if kind != "Let":
                return "is translated to `%s`, expected `let`" % kind
            if vid(st.fields["var"]) != var or st.fields["tag"].fields.get("name") != tag or arg_ids(st.fields["args"]) != [11, 12]:
                return "let binds %s = %s(%s), expected %s = %s(11, 12)" % (vid(st.fields["var"]), st.fields["tag"].fields.get("name"), arg_ids(st.fields["args"]), var, tag)
            if not (isinstance(st.fields["next"], _Sym) and st.fields["next"].name == "sh(%s)" % body):
                return "let continues with %r, expected the translation of the abstraction's body" % (st.fields["next"],)
        return c

    def chk_invoke(var, tag):
        def c(kind, st, ev):
            if kind != "Invoke":
                return "is translated to `%s`, expected `invoke`" % kind
            if vid(st.fields["var"]) != var or st.fields["tag"].fields.get("name") != tag or arg_ids(st.fields["args"]) != [11, 12]:
                return "invokes %s.%s(%s), expected %s.%s(11, 12)" % (vid(st.fields["var"]), st.fields["tag"].fields.get("name"), arg_ids(st.fields["args"]), var, tag)
        return c

    def chk_switch(var, spec):
        def c(kind, st, ev):
            if kind != "Switch":
                return "is translated to `%s`, expected `switch`" % kind
            if vid(st.fields["var"]) != var:
                return "switches on %s, expected %s" % (vid(st.fields["var"]), var)
            return clauses_ok(st.fields["clauses"], spec)
        return c

    def chk_create(var, spec, body):
        def c(kind, st, ev):
            if kind != "Create":
                return "is translated to `%s`, expected `create`" % kind
            if vid(st.fields["var"]) != var:
                return "creates %s, expected %s" % (vid(st.fields["var"]), var)
            if not (isinstance(st.fields["next"], _Sym) and st.fields["next"].name == "sh(%s)" % body):
                return "continues with %r, expected the translation of the abstraction's body" % (st.fields["next"],)
            return clauses_ok(st.fields["clauses"], spec)
        return c

    def chk_eta(keep, expand, spec):
        """<x | a> at a declared type: a switch on the side that is kept whose clauses enumerate the declaration in order, bind fresh,
        pairwise distinct variables (as many as the xtor has parameters) and invoke the same xtor with exactly those on the other side"""
        def c(kind, st, ev):
            if kind != "Switch":
                return "is translated to `%s`, expected a `switch` over the declaration's xtors (eta-expansion)" % kind
            if vid(st.fields["var"]) != keep:
                return "switches on %s, expected %s" % (vid(st.fields["var"]), keep)
            cl = st.fields["clauses"]
            if not isinstance(cl, _Vec) or len(cl.items) != len(spec):
                return "the generated clause list has %s entries, the declaration has %d xtors" % (len(cl.items) if isinstance(cl, _Vec) else "?", len(spec))
            seen_ids = set()
            for c_, (x, n_) in zip(cl.items, spec):
                c_ = c_ if isinstance(c_, _Adt) else None
                if c_ is None:
                    raise AnalysisError("R-CUTKIND: a generated clause is not a concrete value")
                if c_.fields["xtor"].fields.get("name") != x:
                    return "clause %d is for %s, the declaration has %s at that place" % (len(seen_ids), c_.fields["xtor"].fields.get("name"), x)
                ids_ = arg_ids(c_.fields["context"])
                if ids_ is None or len(ids_) != n_:
                    return "the clause for %s binds %s variables, the xtor has %d parameters" % (x, len(ids_) if ids_ is not None else "?", n_)
                if any((not isinstance(i_, int)) or i_ <= 100 or i_ in seen_ids for i_ in ids_) or len(set(ids_)) != len(ids_):
                    return "the binders %s of the clause for %s are not fresh, pairwise distinct variables" % (ids_, x)
                seen_ids |= set(ids_)
                body = c_.fields.get("body")
                k2, inv = unwrap(body if not isinstance(body, _interp.Ref) else None)
                if k2 != "Invoke" or not isinstance(inv, _Adt):
                    return "the body of the clause for %s is `%s`, expected an invoke" % (x, k2)
                if vid(inv.fields["var"]) != expand or inv.fields["tag"].fields.get("name") != x or arg_ids(inv.fields["args"]) != ids_:
                    return "the clause for %s invokes %s.%s(%s), expected %s.%s(%s): tag and arguments are those of the clause" % (
                        x, vid(inv.fields["var"]), inv.fields["tag"].fields.get("name"), arg_ids(inv.fields["args"]), expand, x, ids_)
            return None
        return c

    def chk_renaming(body, frm, to):
        def c(kind, st, ev):
            subs = [e for e in ev if e[0] == "subst"]
            if len(subs) != 1 or subs[0][1] != body or subs[0][2] != [(frm, to)]:
                return "substitutes %s, expected [%d := %d] in the abstraction's body" % ([(e[1], e[2]) for e in subs], frm, to)
            if not (isinstance(st, _Sym) and st.name.startswith("sh(%s" % body)):
                return "the result is %r, expected the translation of the renamed body" % (st,)
        return c

    def chk_known(body, binders):
        def c(kind, st, ev):
            subs = [e for e in ev if e[0] == "subst"]
            want = list(zip(binders, [11, 12]))
            if len(subs) != 1 or subs[0][1] != body or subs[0][2] != want:
                return "substitutes %s, expected %s in the body of the matching clause" % ([(e[1], e[2]) for e in subs], want)
            if not (isinstance(st, _Sym) and st.name.startswith("sh(%s" % body)):
                return "the result is %r, expected the translation of the matching clause's body" % (st,)
        return c

    def chk_lit(var, body):
        def c(kind, st, ev):
            if kind != "Literal" or st.fields.get("lit") != 42:
                return "is translated to `%s`, expected `lit 42`" % kind
            if var is not None:
                if vid(st.fields["var"]) != var or not (isinstance(st.fields["next"], _Sym) and st.fields["next"].name == "sh(%s)" % body):
                    return "binds %s and continues with %r" % (vid(st.fields["var"]), st.fields["next"])
            else:
                k2, inv = unwrap(st.fields["next"])
                fresh = vid(st.fields["var"])
                if k2 != "Invoke" or vid(inv.fields["var"]) != A_ or arg_ids(inv.fields["args"]) != [fresh] or fresh is None or fresh <= 100:
                    return "a literal returned to a covariable must be bound to a fresh variable and passed to it (got %s %r)" % (k2, inv)
        return c

    def chk_op(var, body):
        def c(kind, st, ev):
            if kind != "Op" or vid(st.fields["fst"]) != 11 or vid(st.fields["snd"]) != 12 or st.fields["op"].variant != "Sub":
                return "is translated to `%s` %s %s %s, expected 11 - 12" % (kind, vid(st.fields.get("fst")), getattr(st.fields.get("op"), "variant", "?"), vid(st.fields.get("snd")))
            if var is not None:
                if vid(st.fields["var"]) != var or not (isinstance(st.fields["next"], _Sym) and st.fields["next"].name == "sh(%s)" % body):
                    return "binds %s and continues with %r" % (vid(st.fields["var"]), st.fields["next"])
            else:
                k2, inv = unwrap(st.fields["next"])
                fresh = vid(st.fields["var"])
                if k2 != "Invoke" or vid(inv.fields["var"]) != A_ or arg_ids(inv.fields["args"]) != [fresh] or fresh is None or fresh <= 100:
                    return "the result of an operation returned to a covariable must be bound to a fresh variable and passed to it"
        return c
    OP = T("Op", _Adt(CL + "terms::op::Op", "Op", {"fst": ident("u", 11), "op": _Adt(CL + "terms::op::BinOp", "Sub", {}), "snd": ident("w", 12)}))
    LIT = T("Literal", _Adt(CL + "terms::literal::Literal", "Literal", {"lit": 42}))
    cases = [
        ("<x | mu~v.s>", xvar(PRD, "x", X, TD), mu(CNS, "v", V, "s", TD), TD, chk_renaming("s", V, X)),
        ("<mu a.s | c>", mu(PRD, "a", V, "s", TD), xvar(CNS, "c", A_, TD), TD, chk_renaming("s", V, A_)),
        ("<K1(u, w) | case {K0 => b0, K1(y, z) => b1}>", xtor(PRD, "K1", ARGS, TD), xcase(CNS, CLS, TD), TD, chk_known("b1", [21, 22])),
        ("<cocase {d0(y) => b0, d1(y, z) => b1} | d1(u, w)>", xcase(PRD, CLC, TC), xtor(CNS, "d1", ARGS, TC), TC, chk_known("b1", [21, 22])),
        ("<K1(u, w) | mu~v.s>", xtor(PRD, "K1", ARGS, TD), mu(CNS, "v", V, "s", TD), TD, chk_let(V, "K1", "s")),
        ("<mu a.s | d1(u, w)>", mu(PRD, "a", V, "s", TC), xtor(CNS, "d1", ARGS, TC), TC, chk_let(V, "d1", "s")),
        ("<K1(u, w) | a>", xtor(PRD, "K1", ARGS, TD), xvar(CNS, "a", A_, TD), TD, chk_invoke(A_, "K1")),
        ("<x | d1(u, w)>", xvar(PRD, "x", X, TC), xtor(CNS, "d1", ARGS, TC), TC, chk_invoke(X, "d1")),
        ("<x | case {..}>", xvar(PRD, "x", X, TD), xcase(CNS, CLS, TD), TD, chk_switch(X, CLS)),
        ("<cocase {..} | a>", xcase(PRD, CLC, TC), xvar(CNS, "a", A_, TC), TC, chk_switch(A_, CLC)),
        ("<cocase {..} | mu~v.s>", xcase(PRD, CLC, TC), mu(CNS, "v", V, "s", TC), TC, chk_create(V, CLC, "s")),
        ("<mu a.s | case {..}>", mu(PRD, "a", V, "s", TD), xcase(CNS, CLS, TD), TD, chk_create(V, CLS, "s")),
        ("<x | a> at a data type", xvar(PRD, "x", X, TD), xvar(CNS, "a", A_, TD), TD, chk_eta(X, A_, [("K0", 0), ("K1", 2)])),
        ("<x | a> at a codata type", xvar(PRD, "x", X, TC), xvar(CNS, "a", A_, TC), TC, chk_eta(A_, X, [("d0", 1), ("d1", 2)])),
        ("<42 | mu~v.s>", LIT, mu(CNS, "v", V, "s", I64), I64, chk_lit(V, "s")),
        ("<42 | a>", LIT, xvar(CNS, "a", A_, I64), I64, chk_lit(None, None)),
        ("<u - w | mu~v.s>", OP, mu(CNS, "v", V, "s", I64), I64, chk_op(V, "s")),
        ("<u - w | a>", OP, xvar(CNS, "a", A_, I64), I64, chk_op(None, None)),
    ]
    # chains of renamings: the body of a renaming is itself a renaming *of the variable just bound*; the two are eliminated one after
    # the other, so the innermost statement sees both binders replaced by the outermost variable.  (A simultaneous substitution
    # that is not composed leaves the inner target - the eliminated binder - behind, bound nowhere.)
    Z = V + 7

    def mu_c(pc, nm, i, stmt, ty):
        return T("Mu", _Adt(CL + "terms::mu::Mu", "Mu", {"prdcns": pc, "variable": ident(nm, i), "statement": stmt, "ty": ty}))

    def stmt(variant, inner):
        return _Adt(CL + "statements::FsStatement", variant, {"0": inner})

    def call_g(bs):
        return stmt("Call", _Adt(CL + "statements::call::FsCall", "FsCall", {"name": ident("g", 0), "args": tctx(bs)}))
    chains = [
        ("<x | mu~v.<v | mu~z.g(z, v)>>", xvar(PRD, "x", X, TD),
         mu_c(CNS, "v", V, stmt("Cut", _Adt(CL + "statements::cut::Cut", "Cut", {
             "producer": xvar(PRD, "v", V, TD), "ty": TD, "consumer": mu_c(CNS, "z", Z, call_g([cb("z", Z, "Prd", TD), cb("v", V, "Prd", TD)]), TD)})), TD), [X, X]),
        ("<mu a.<mu b.g(b, a) | a> | c>",
         mu_c(PRD, "a", V, stmt("Cut", _Adt(CL + "statements::cut::Cut", "Cut", {
             "producer": mu_c(PRD, "b", Z, call_g([cb("b", Z, "Cns", TD), cb("a", V, "Cns", TD)]), TD), "ty": TD, "consumer": xvar(CNS, "a", V, TD)})), TD),
         xvar(CNS, "c", A_, TD), [A_, A_]),
    ]
    for label, prod, cons, want in chains:
        r, msg, ev = run(prod, cons, TD, None, max_depth=24)
        if msg:
            res.inst(label, f["sp"]["file"], f["sp"]["line"], "violation")
            res.violate(label, "%s: %s" % (label, msg), f["sp"]["file"], f["sp"]["line"])
            continue
        kind, st = unwrap(r)
        got = arg_ids(st.fields.get("args")) if isinstance(st, _Adt) else None
        if kind != "Call" or got is None:
            raise AnalysisError("R-CUTKIND: the translation of %s is not a concrete call (%r)" % (label, r))
        if got != want:
            res.inst(label, f["sp"]["file"], f["sp"]["line"], "violation")
            res.violate(label, "%s is translated to g(%s), expected g(%s): a renaming whose target is the binder of the renaming around it must see "
                        "that binder replaced too (the substitutions of a chain are composed, not applied side by side) - otherwise an eliminated "
                        "binder stays in the program, bound nowhere" % (label, ", ".join(map(str, got)), ", ".join(map(str, want))), f["sp"]["file"], f["sp"]["line"])
        else:
            res.inst(label, f["sp"]["file"], f["sp"]["line"], "ok", "both binders replaced by %d" % want[0])
    def symbolic_cases():
        def binder_of(term):
            """(id, chirality of the bound (co)variable, type) of a mu / mu~ abstraction"""
            inner = term.fields["0"]
            if term.variant != "Mu":
                return None
            return inner.fields["variable"], ("Cns" if inner.fields["prdcns"].variant == "Prd" else "Prd"), inner.fields["ty"]
        for label, prod, cons, ty, chk in cases:
            # the bodies are symbolic; when the code asks for their free variables the answer is declared, once with the binder of the
            # abstraction occurring in its body and once without (a body that never returns to / never uses what the abstraction binds)
            bodies = {}
            for side in (prod, cons):
                bd = binder_of(side)
                if bd:
                    bodies[side.fields["0"].fields["statement"].name] = _Adt(CL + "context::ContextBinding", "ContextBinding",
                                                                            {"var": bd[0], "chi": _Adt(CL + "context::Chirality", bd[1], {}), "ty": bd[2]})
            variants = [("", {b_: [cb_] for b_, cb_ in bodies.items()})]
            if bodies:
                variants.append((" [binder unused in its body]", {b_: [] for b_ in bodies}))
            for vlabel, fv in variants:
                try:
                    r, msg, ev = run(prod, cons, ty, fv)
                except AnalysisError:
                    if vlabel:
                        raise
                    r, msg, ev = run(prod, cons, ty, None)
                asked = any(e[0] == "fv" for e in ev)
                if vlabel and not asked:
                    continue        # the translation never looks at the free variables: one variant says it all
                ikey = label + vlabel
                if msg:
                    res.inst(ikey, f["sp"]["file"], f["sp"]["line"], "violation")
                    res.violate(ikey, "%s: %s" % (label + vlabel, msg), f["sp"]["file"], f["sp"]["line"])
                    continue
                kind, st = unwrap(r)
                try:
                    problem = chk(kind, st, [e for e in ev if e[0] != "fv"])
                    if problem and vlabel and isinstance(st, _Sym):
                        # dead-continuation shortcut: a producer abstraction whose body never returns makes the other side unreachable
                        # when the producer runs first - every shape of this table (data and codata consumers that are not abstractions)
                        pb = binder_of(prod)
                        if pb and st.name == "sh(%s)" % prod.fields["0"].fields["statement"].name and cons.variant != "Mu":
                            problem = None
                except (KeyError, AttributeError) as e:
                    raise AnalysisError("R-CUTKIND: the translation of %s is not a concrete statement (%r)" % (label, e))
                if problem:
                    res.inst(ikey, f["sp"]["file"], f["sp"]["line"], "violation")
                    res.violate(ikey, "%s%s %s" % (label, vlabel, problem), f["sp"]["file"], f["sp"]["line"])
                else:
                    res.inst(ikey, f["sp"]["file"], f["sp"]["line"], "ok")
        # evaluation order of critical pairs <mu a.s | mu~ x.t>: at a data type or i64 the producer's body runs first, at a codata type the
        # consumer's; the body that runs first is translated whatever the other one looks like - also when it never uses its binder
        for tyname, ty_, first in (("data", TD, "s"), ("codata", TC, "t"), ("i64", I64, "s")):
            prod, cons = mu(PRD, "a", V, "s", ty_), mu(CNS, "x", X, "t", ty_)
            pa = _Adt(CL + "context::ContextBinding", "ContextBinding", {"var": ident("a", V), "chi": _Adt(CL + "context::Chirality", "Cns", {}), "ty": ty_})
            px = _Adt(CL + "context::ContextBinding", "ContextBinding", {"var": ident("x", X), "chi": _Adt(CL + "context::Chirality", "Prd", {}), "ty": ty_})
            for vlabel, fv in (("", {"s": [pa], "t": [px]}), (" [a unused in s]", {"s": [], "t": [px]}), (" [x unused in t]", {"s": [pa], "t": []})):
                ikey = "<mu a.s | mu~ x.t> at a %s type%s" % (tyname, vlabel)
                try:
                    paths, msg, ev = run(prod, cons, ty_, fv, multi=True)
                except AnalysisError as e:
                    if vlabel:
                        raise
                    res.notes.append("%s: not decided (%s)" % (ikey, str(e)[:120]))
                    break
                if msg:
                    res.inst(ikey, f["sp"]["file"], f["sp"]["line"], "violation")
                    res.violate(ikey, "%s: %s" % (ikey, msg), f["sp"]["file"], f["sp"]["line"])
                    continue

                def mentions(v, d=0):
                    v = v if not isinstance(v, _interp.Ref) else None
                    if isinstance(v, _Sym):
                        return re.split(r"[.\[!{]", v.name[3:] if v.name.startswith("sh(") else v.name)[0] == first
                    if isinstance(v, _Adt) and d < 12:
                        return any(mentions(x, d + 1) for x in v.fields.values())
                    if isinstance(v, _Vec) and d < 12:
                        return any(mentions(x, d + 1) for x in v.items)
                    return False
                # the generated (co)match enumerates the declaration: one clause per xtor, in order, fresh pairwise distinct binders, and in
                # the clause a `let` of the same xtor applied to exactly those binders
                spec_ = {"data": [("K0", 0), ("K1", 2)], "codata": [("d0", 1), ("d1", 2)]}.get(tyname)
                shape_problem = None
                for o in paths if spec_ else []:
                    k_, st_ = unwrap(o.result if not isinstance(o.result, _interp.Ref) else None)
                    if k_ != "Create" or not isinstance(st_, _Adt):
                        continue        # not an eta-expansion on this path (judged by the evaluation-order part below)
                    cl = st_.fields.get("clauses")
                    if not isinstance(cl, _Vec):
                        raise AnalysisError("R-CUTKIND: the clause list generated for %s is not a concrete list" % ikey)
                    if len(cl.items) != len(spec_):
                        shape_problem = "the generated clause list has %d entries, the declaration has %d xtors" % (len(cl.items), len(spec_))
                        break
                    seen_ids = set()
                    for c_, (x, n_) in zip(cl.items, spec_):
                        if not isinstance(c_, _Adt):
                            raise AnalysisError("R-CUTKIND: a generated clause is not a concrete value")
                        ids_ = arg_ids(c_.fields["context"])
                        k2, lt = unwrap(c_.fields.get("body") if not isinstance(c_.fields.get("body"), _interp.Ref) else None)
                        if c_.fields["xtor"].fields.get("name") != x:
                            shape_problem = "a generated clause is for %s where the declaration has %s" % (c_.fields["xtor"].fields.get("name"), x)
                        elif ids_ is None or len(ids_) != n_ or len(set(ids_)) != len(ids_) or any((not isinstance(i_, int)) or i_ <= 100 or i_ in seen_ids for i_ in ids_):
                            shape_problem = "the clause for %s binds %s: not %d fresh, pairwise distinct variables" % (x, ids_, n_)
                        elif k2 != "Let" or not isinstance(lt, _Adt):
                            shape_problem = "the body of the clause for %s is `%s`, expected a let of %s" % (x, k2, x)
                        elif lt.fields["tag"].fields.get("name") != x or arg_ids(lt.fields["args"]) != ids_:
                            shape_problem = "the clause for %s binds %s but its body builds %s(%s)" % (x, ids_, lt.fields["tag"].fields.get("name"), arg_ids(lt.fields["args"]))
                        elif not isinstance(vid(lt.fields["var"]), int) or vid(lt.fields["var"]) <= 100 or vid(lt.fields["var"]) in seen_ids | set(ids_):
                            shape_problem = "the clause for %s binds the rebuilt value to %s, which is not a fresh variable" % (x, vid(lt.fields["var"]))
                        if shape_problem:
                            break
                        seen_ids |= set(ids_) | {vid(lt.fields["var"])}
                    if shape_problem:
                        break
                if shape_problem:
                    res.inst(ikey + ":clauses", f["sp"]["file"], f["sp"]["line"], "violation")
                    res.violate(ikey + ":clauses", "%s: %s" % (ikey, shape_problem), f["sp"]["file"], f["sp"]["line"])
                elif spec_:
                    res.inst(ikey + ":clauses", f["sp"]["file"], f["sp"]["line"], "ok", "the generated clauses enumerate the declaration")
                missing = None
                for o in paths:
                    shrunk = [e[1] for e in o.events if e[0] == "shrink"]
                    if not (any(re.split(r"[.\[!{]", n_)[0] == first for n_ in shrunk) or mentions(o.result)):
                        missing = shrunk
                shrunk = missing or []
                if missing is None:
                    res.inst(ikey, f["sp"]["file"], f["sp"]["line"], "ok", "the body that runs first (%s) is translated on each of %d paths" % (first, len(paths)))
                else:
                    res.inst(ikey, f["sp"]["file"], f["sp"]["line"], "violation")
                    res.violate(ikey, "%s: the body `%s`, which runs first at a %s type, is not part of the translation (translated: %s): the other side was "
                                "taken to run first, so effects and non-termination of the two bodies happen in the wrong order or not at all" %
                                (ikey, first, tyname, ", ".join(shrunk) or "nothing"), f["sp"]["file"], f["sp"]["line"])
    try:
        symbolic_cases()
    except AnalysisError as e:
        if not res.violations:
            raise
        res.notes.append("the symbolic cases were not decided (%s); the violations above come from the concrete renaming chains" % str(e)[:160])
        return res
    res.require_floor(18)
    return res
