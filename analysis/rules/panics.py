"""R-PANIC: panic-site closure from the input entry points (C18, C12), R-GACT grammar actions."""
import re
from collections import defaultdict

from .. import audit, callgraph
from ..core import RuleResult
from ..facts import AnalysisError
from ..mir import Fn, op_local

OPTION = "core::option::Option"
RESULT = "core::result::Result"
VECLIKE = ("alloc::vec::Vec", "alloc::collections::vec_deque::VecDeque", "alloc::string::String")
PANICKY_METHODS = {
    "alloc::vec::Vec": {"remove", "swap_remove", "split_off", "insert", "drain", "extend_from_within", "splice"},
    "alloc::collections::vec_deque::VecDeque": {"swap", "split_off", "insert", "drain", "range", "range_mut"},
    "alloc::string::String": {"remove", "insert", "insert_str", "split_off", "drain", "replace_range"},
    "core::cell::RefCell": {"borrow", "borrow_mut", "replace", "swap"},
}
SLICE_PANICKY = {"split_at", "split_at_mut", "copy_from_slice", "clone_from_slice", "swap", "chunks", "chunks_exact", "windows",
                 "rotate_left", "rotate_right", "select_nth_unstable", "copy_within", "split_first_chunk"}


def panic_sites(f):
    """Yield (kind, line-free detail, span, bi) for every panic-capable site in one body."""
    blocks = f["blocks"]
    msgs = {}
    for bi, b in enumerate(blocks):
        t = b["term"]
        if t["k"] == "call" and t.get("callee_name") in ("from_str", "new_const") and (t.get("callee") or "").startswith("core::fmt::"):
            for a in t["args"]:
                if a.get("k") == "const" and "str" in a:
                    l = t["dest"]["l"] if not t["dest"]["p"] else None
                    if l is not None:
                        msgs[l] = a["str"]
    strs = {}
    for b in blocks:
        for st in b["stmts"]:
            if st["k"] == "assign" and not st["lhs"]["p"] and st["rv"]["k"] == "use" and st["rv"]["op"].get("k") == "const" and "str" in st["rv"]["op"]:
                strs[st["lhs"]["l"]] = st["rv"]["op"]["str"]
            elif st["k"] == "assign" and not st["lhs"]["p"] and st["rv"]["k"] == "use" and st["rv"]["op"].get("k") == "const" and st["rv"]["op"].get("def") in CONST_STRS:
                strs[st["lhs"]["l"]] = CONST_STRS[st["rv"]["op"]["def"]]
    for _ in range(2):
        for b in blocks:
            for st in b["stmts"]:
                if st["k"] == "assign" and not st["lhs"]["p"] and st["rv"]["k"] in ("ref", "use"):
                    pl = st["rv"].get("pl") or (st["rv"]["op"].get("pl") if st["rv"]["k"] == "use" else None)
                    if pl and pl["l"] in strs and all(e == "*" for e in pl["p"]):
                        strs[st["lhs"]["l"]] = strs[pl["l"]]
    for bi, b in enumerate(blocks):
        if b["cleanup"]:
            continue
        t = b["term"]
        if t["k"] == "assert":
            m = t["msg"]
            if m in ("DivisionByZero", "RemainderByZero") and _const_nonzero_divisor(f, t):
                continue
            if m == "BoundsCheck" and _bounds_discharged(f, bi):
                continue        # index found by a search over the indexed sequence itself
            if m in ("BoundsCheck", "DivisionByZero", "RemainderByZero"):
                yield ("assert:" + m, "", t["sp"], bi)
            elif m.startswith("Overflow"):
                yield ("overflow", m, t["sp"], bi)
            continue
        if t["k"] != "call":
            continue
        c = t.get("callee") or ""
        name = t.get("callee_name") or ""
        sadt = t.get("callee_self_adt") or ""
        if c.startswith("core::panicking::") or c.startswith("std::rt::") and "panic" in c or c in ("std::process::abort", "core::intrinsics::abort"):
            msg = ""
            for a in t["args"]:
                if a.get("k") == "const" and "str" in a:
                    msg = a["str"]
                l = op_local(a) if a.get("k") in ("copy", "move") else None
                if l is not None and l in msgs:
                    msg = msgs[l]
            if name in ("panic_nounwind", "panic_nounwind_fmt", "panic_cannot_unwind", "panic_in_cleanup", "panic_null_pointer_dereference",
                        "panic_misaligned_pointer_dereference", "panic_invalid_enum_construction"):
                continue
            if not msg:
                # `panic!("{MESSAGE}")` with a named constant: the text of the constant formatted just before the panic
                msg = _const_message_before(f, bi) or msg
            mac = [m.split("::")[-1].rstrip("!") for m in t["sp"].get("macros", [])]
            mac = [m for m in mac if m not in ("format_args", "const_format_args")]
            yield ("panic", (mac[-1] + ": " if mac else "") + _norm(msg), t["sp"], bi)
        elif sadt == OPTION and c.startswith("core::option::") and name in ("unwrap", "expect"):
            yield (name, _const_str_arg(t, strs), t["sp"], bi)
        elif sadt == RESULT and c.startswith("core::result::") and name in ("unwrap", "expect", "unwrap_err", "expect_err"):
            yield (name, _const_str_arg(t, strs), t["sp"], bi)
        elif t.get("callee_trait") in ("core::ops::index::Index", "core::ops::index::IndexMut"):
            r = t.get("resolved") or ""
            if len(t["args"]) == 2 and (t.get("callee_self") or "").startswith(("std::vec::Vec", "alloc::vec::Vec", "[")) and _index_from_position(f, t["args"][1], t["args"][0]):
                continue        # index found by a search over the indexed sequence itself
            yield ("index", (t.get("callee_self") or "").split("<")[0], t["sp"], bi)
        elif sadt in PANICKY_METHODS and name in PANICKY_METHODS[sadt] and c.startswith(("alloc::", "core::", "std::")):
            yield (name, sadt.split("::")[-1], t["sp"], bi)
        elif c.startswith("core::slice::") and name in SLICE_PANICKY:
            yield (name, "slice", t["sp"], bi)
        elif c.startswith("core::str::") and name in ("split_at", "split_at_mut"):
            yield (name, "str", t["sp"], bi)
        elif c in ("std::process::exit",):
            yield ("exit", "", t["sp"], bi)
        elif c.startswith("core::num::") and name in ("abs", "pow", "div_euclid", "rem_euclid", "ilog", "ilog2", "ilog10", "next_power_of_two", "strict_add"):
            yield ("num:" + name, "", t["sp"], bi)
        elif c.startswith("core::char::") and name in ("from_digit", "to_digit"):
            yield ("char:" + name, "", t["sp"], bi)
        elif c.startswith("core::iter::") and name == "step_by":
            yield ("step_by", "", t["sp"], bi)
        elif c.startswith("core::ops::function::") or c.startswith("alloc::rc::") and name in ("unwrap_or_clone",):
            continue


_POS_PASS = {"iter", "iter_mut", "into_iter", "as_slice", "deref", "as_ref", "borrow", "enumerate", "unwrap", "expect", "branch", "by_ref", "as_mut_slice"}


def _index_from_position(f, index_op, seq_op):
    """the index is the result of `position` / `rposition` (or the counter of `enumerate`) over an iteration of the very
    sequence that is indexed: it is smaller than the length by construction"""
    from ..mir import Fn, Flow, op_root, place_fields
    fn = Fn(f)
    flow = Flow(fn, extra_pass=lambda t: t.get("callee_name") in _POS_PASS and (t.get("callee") or "").startswith(("core::", "alloc::", "std::")))
    ri, rs = op_root(index_op), op_root(seq_op)
    if ri is None or rs is None:
        return False
    seq_org = {(o[0], o[1]) for o in flow.origins(rs, ()) if o[0] in ("arg", "call", "agg")}
    if not seq_org:
        return False
    org = flow.origins(ri, tuple(place_fields(index_op["pl"])))
    if not org:
        return False
    for o in org:
        if o[0] != "call":
            return False
        t = fn.term(o[1])
        if t.get("callee_name") not in ("position", "rposition") or not (t.get("callee") or "").startswith("core::iter::"):
            return False
        r0 = op_root(t["args"][0]) if t["args"] else None
        if r0 is None:
            return False
        recv = {(x[0], x[1]) for x in flow.origins(r0, ()) if x[0] in ("arg", "call", "agg")}
        if not recv or not recv <= seq_org:
            return False
    return True


def _bounds_discharged(f, bi):
    """`assert(index < len(seq))` where the index comes from a search over that sequence"""
    b = f["blocks"][bi]
    t = b["term"]
    c = t.get("cond") or {}
    if c.get("k") not in ("copy", "move") or c["pl"]["p"]:
        return False
    lt = None
    for st in b["stmts"]:
        if st["k"] == "assign" and st["lhs"]["l"] == c["pl"]["l"] and st["rv"]["k"] == "binop" and st["rv"]["op"] == "Lt":
            lt = st["rv"]
    if not lt:
        return False
    ln = lt["b"]
    if ln.get("k") not in ("copy", "move"):
        return False
    seq = None
    for st in b["stmts"]:
        if st["k"] == "assign" and st["lhs"]["l"] == ln["pl"]["l"] and st["rv"]["k"] == "unop" and st["rv"].get("op") in ("PtrMetadata", "Len"):
            seq = st["rv"]["a"]
        elif st["k"] == "assign" and st["lhs"]["l"] == ln["pl"]["l"] and st["rv"]["k"] == "len":
            seq = {"k": "copy", "pl": st["rv"]["pl"]}
    if not seq:
        return False
    return _index_from_position(f, lt["a"], seq)


def _const_message_before(f, bi):
    """the one named string constant mentioned in the straight-line code that leads to block bi (its formatting arguments)"""
    blocks = f["blocks"]
    preds = {}
    for i, b in enumerate(blocks):
        t = b["term"]
        succ = []
        if t["k"] == "goto":
            succ = [t["target"]]
        elif t["k"] == "call" and t.get("target") is not None:
            succ = [t["target"]]
        elif t["k"] == "drop":
            succ = [t["target"]]
        for s_ in succ:
            preds.setdefault(s_, []).append(i)
    found = set()
    cur = bi
    for _ in range(10):
        b = blocks[cur]
        ops = []
        for st in b["stmts"]:
            rv = st.get("rv") or {}
            ops += [rv.get("op"), rv.get("a"), rv.get("b")] + list(rv.get("ops", []))
            if rv.get("k") == "ref" and isinstance(rv.get("pl"), dict):
                pass
        ops += list(b["term"].get("args", []))
        for o in ops:
            if isinstance(o, dict) and o.get("k") == "const" and o.get("def") in CONST_STRS:
                found.add(CONST_STRS[o["def"]])
            elif isinstance(o, dict) and o.get("k") == "const" and "promoted" in o:
                # `&MESSAGE` lives in a promoted constant of this function
                pf = ALL_FNS.get("%s::{promoted#%d}" % (f["key"].split("::{promoted#")[0], o["promoted"]))
                for pb in (pf or {}).get("blocks", []):
                    for pst in pb["stmts"]:
                        prv = pst.get("rv") or {}
                        for po in [prv.get("op")] + list(prv.get("ops", [])):
                            if isinstance(po, dict) and po.get("k") == "const" and po.get("def") in CONST_STRS:
                                found.add(CONST_STRS[po["def"]])
        ps = preds.get(cur, [])
        if len(ps) != 1:
            break
        cur = ps[0]
    return _norm(next(iter(found))) if len(found) == 1 else None


def _const_nonzero_divisor(f, t):
    """assert(!(divisor == 0)) where the divisor is a non-zero constant"""
    l = op_local(t["cond"]) if t["cond"].get("k") in ("copy", "move") else None
    if l is None:
        return False
    for b in f["blocks"]:
        for st in b["stmts"]:
            if st["k"] == "assign" and st["lhs"]["l"] == l and not st["lhs"]["p"] and st["rv"]["k"] == "binop" and st["rv"]["op"] == "Eq":
                a, bb = st["rv"]["a"], st["rv"]["b"]
                if a.get("k") == "const" and bb.get("k") == "const" and a.get("val") not in (None, 0) and bb.get("val") == 0:
                    return True
    return False


def _norm(msg):
    msg = msg.strip()
    return msg[:60]


ALL_FNS = {}         # key -> function facts (for promoted constants), filled by collect_sites
CONST_STRS = {}      # def path -> text of the named `&str` constants of the workspace (filled by collect_sites)


def _const_str_arg(t, strs=None):
    for a in t["args"][1:]:
        if a.get("k") == "const" and "str" in a:
            return _norm(a["str"])
        if a.get("k") == "const" and a.get("def") in CONST_STRS:
            return _norm(CONST_STRS[a["def"]])     # `expect(ANNOTATION_MISSING)`: the message is a named constant
        l = op_local(a) if a.get("k") in ("copy", "move") else None
        if strs and l in strs:
            return _norm(strs[l])
    return ""


PIPE_PRINT_CRATES = ("scc_core_lang", "axcut", "axcut2backend", "axcut2x86_64", "axcut2aarch64", "axcut2rv64", "fun")
ZONE_A_ENTRIES = [("fun::parser::parse_module", "fun"), ("fun::parser::parse_term", "fun"),
                  ("fun::syntax::program::Program::check", "fun")]
ZONE_A_ALLOWED = {"LOCAL", "GENERATED"}


def zone_b_entries(fx):
    ents = [("fun2core::program::compile_prog", "fun2core"), ("core2axcut::program::shrink_prog", "core2axcut"),
            ("axcut::syntax::program::Prog::linearize", "axcut"),
            ("scc_core_lang::syntax::program::Prog<Def>::focus", "scc_core_lang"),
            ("scc_core_lang::syntax::program::Prog<Def>::uniquify", "scc_core_lang")]
    for b, n in (("axcut2x86_64", "x86_64"), ("axcut2aarch64", "aarch64"), ("axcut2rv64", "rv64")):
        ents.append(("axcut2backend::coder::compile", b))
        ents.append(("%s::into_routine::into_%s_routine" % (b, n), b))
    for k, f in fx.fns.items():
        if f.get("impl_trait") == "scc_printer::types::Print" and f["crate"] in PIPE_PRINT_CRATES and "{" not in k.split(">::")[-1]:
            ents.append((k, f["crate"]))
    return ents


def _is_lalrpop_machine(k, f):
    return k.startswith(("fun::parser::fun::__", "<fun::parser::fun::__")) and not re.match(r"^fun::parser::fun::__action\d+", k)


def collect_sites(ctx):
    """(zone, fnkey, kind, detail) -> list of spans, for every site reachable from the entry points."""
    def build():
        fx = ctx.fx
        CONST_STRS.clear()
        CONST_STRS.update({k: c["str"] for k, c in fx.consts.items() if "str" in c})
        ALL_FNS.clear()
        ALL_FNS.update(fx.fns)
        cg = callgraph.get(ctx)
        for e, _ in ZONE_A_ENTRIES:
            fx.fn(e)
        za = {}
        for e, cr in ZONE_A_ENTRIES:
            za.update(cg.reachable([fx.fn(e)["key"]], crates=fx.deps_closure(cr)))
        zb = {}
        bents = zone_b_entries(fx)
        for e, cr in bents:
            fx.fn(e)
            r = cg.reachable([fx.fn(e)["key"]], crates=fx.deps_closure(cr))
            for k, p in r.items():
                zb.setdefault(k, (p, e))
        sites = defaultdict(list)
        lalrpop = 0
        overflow = 0
        for k in set(za) | set(zb):
            f = fx.fns[k]
            if "{promoted#" in k:
                continue
            zone = "A" if k in za else "B"
            for kind, det, sp, bi in panic_sites(f):
                if kind == "overflow":
                    overflow += 1
                    continue
                if _is_lalrpop_machine(k, f):
                    lalrpop += 1
                    continue
                sites[(zone, re.sub(r"^fun::parser::fun::__action\d+", "fun::parser::fun::__action#", k), kind, det)].append(sp)
        crate = {re.sub(r"^fun::parser::fun::__action\d+", "fun::parser::fun::__action#", k): fx.fns[k]["crate"] for k in set(za) | set(zb)}
        return {"sites": sites, "crate": crate, "za": za, "zb": zb, "lalrpop": lalrpop, "overflow": overflow, "entries_b": len(bents)}
    return ctx.memo("panic-sites", build)


def action_names(ctx):
    """__actionN -> nonterminal name, from the generated parser's source text (for diagnosable reports)."""
    return {}


def rule_panic(zones=("A", "B")):
    def rule(ctx):
        res = RuleResult("R-PANIC", "panic-site closure: every panic-capable site (panic*/unwrap/expect/index/remove/split_off/"
                         "bounds and division asserts) reachable in the whole-workspace call graph from the input entry points "
                         "(zone A: parse_module, parse_term, Program::check; zone B: compile_prog, focus, uniquify, shrink_prog, "
                         "linearize, compile::<B>, into_*_routine, every Print impl) must be a row of audit/panics.toml; zone A "
                         "accepts only LOCAL/GENERATED rows; lalrpop's generated state machine is trusted as a class")
        data = collect_sites(ctx)
        d, _ = audit.load("panics")
        rows = {}
        for r in d["row"]:
            rows[(r["key"], r["kind"], r.get("detail", ""))] = r
        # A site keeps its audit row when it moves within its crate: the identity of a site that carries a message is
        # (crate, message) - the macro that raises it and the function that contains it may change; a positional operation on
        # a sequence is identified by its obligation (position < length: index/remove/swap_remove; position <= length:
        # split_off/split_at/rotate/insert/drain), any other site by (crate, kind, receiver type).  The rows of one identity form a pool whose capacity is the sum of their counts; the
        # sites of that identity (in every zone) may be distributed over functions in any way as long as there are not more
        # of them than the pool allows.  A site of an identity without a row, or one more than the pool holds, is new.
        cap, use, pool_classes = defaultdict(int), defaultdict(int), defaultdict(set)
        for (k, kind, det), r in rows.items():
            if "file" not in r:
                continue
            pk = _pool(r["crate"], r["file"], kind, det)
            cap[pk] += r.get("count", 1)
            pool_classes[pk].add(r["class"])
        fcrate = {}
        for (zone, k, kind, det), sps in data["sites"].items():
            pk = _pool(data["crate"][k], _relfile(sps[0]["file"]), kind, det)
            use[pk] += len(sps)
        seen_rows = set()
        moved = 0
        for (zone, k, kind, det), sps in sorted(data["sites"].items()):
            if zone not in zones:
                continue
            sp = sps[0]
            file, line = _relfile(sp["file"]), sp["line"]
            ikey = "%s|%s|%s" % (k, kind, det)
            row = rows.get((k, kind, det))
            lines = ",".join(str(s["line"]) for s in sps)
            pk = _pool(data["crate"][k], file, kind, det)
            in_pool = pk in cap and use[pk] <= cap[pk]
            if row is None or len(sps) > row.get("count", 1):
                if not in_pool:
                    res.inst(ikey, file, line, "violation")
                    if row is None and pk not in cap:
                        why = "has no audit row: a new way to crash on user input"
                    elif row is None:
                        why = ("has no audit row, and the %d audited sites of its kind in %s are all still there (%d now): a new way to crash "
                               "on user input" % (cap[pk], "crate " + pk[1], use[pk]))
                    else:
                        why = "occurs %d times in this function, the audit row allows %d (lines %s), and no audited site of its kind vanished elsewhere" % (
                            len(sps), row.get("count", 1), lines)
                    res.violate(ikey, "panic-capable site (%s %s) reachable from the %s entry points %s%s" %
                                (kind, det, "parser/type-checker" if zone == "A" else "post-check pipeline", why, _via(ctx, data, zone, k)),
                                file, line, {"lines": lines, "zone": zone})
                    continue
                classes = pool_classes[pk]
                moved += 1
            else:
                classes = {row["class"]}
                seen_rows.add((k, kind, det))
            if zone == "A" and not classes <= ZONE_A_ALLOWED:
                res.inst(ikey, file, line, "violation")
                res.violate(ikey, "site of class %s is reachable from the parser/type checker (zone A allows only LOCAL/GENERATED)" % "/".join(sorted(classes)),
                            file, line, {"zone": zone})
                continue
            if row is not None and len(sps) <= row.get("count", 1):
                res.inst(ikey, file, line, "audited", "%s/%s: %s" % (zone, row["class"], row["reason"]))
            else:
                res.inst(ikey, file, line, "audited", "%s/%s: an audited site of the same identity (%s), moved to this function" %
                         (zone, "/".join(sorted(classes)), " ".join(str(x) for x in pk)))
        if moved:
            res.notes.append("sites matched by identity rather than by function (moved since the audit): %d" % moved)
        stale = [r for r in rows if r not in seen_rows]
        if stale:
            res.notes.append("stale audit rows (site vanished or not in the analysed zones): %d" % len(stale))
        res.notes.append("lalrpop state-machine sites trusted as a class: %d; overflow asserts (debug builds only, class): %d; "
                         "zone A bodies: %d, zone B bodies: %d, zone B entry points: %d" %
                         (data["lalrpop"], data["overflow"], len(data["za"]), len(data["zb"]), data["entries_b"]))
        res.trusted.append("lalrpop-generated state machine (%d panic-capable sites) never panics on any token sequence" % data["lalrpop"])
        res.trusted.append("LOOKUP rows of audit/panics.toml (well-scopedness of checked programs)")
        if "A" in zones and len(data["za"]) < 600:
            raise AnalysisError("zone A reachability collapsed (%d bodies): grammar actions are not reached" % len(data["za"]))
        res.require_floor(40 if "B" in zones else 5)
        return res
    rule.__name__ = "rule_panic_" + "".join(zones)
    return rule


_MACRO = re.compile(r"^(panic|assert|assert_eq|assert_ne|unreachable|todo|unimplemented|debug_assert): ")


_SEQ = ("Vec", "VecDeque", "slice", "str", "String", "std::vec::Vec", "alloc::vec::Vec", "std::collections::VecDeque",
        "alloc::collections::vec_deque::VecDeque", "std::string::String", "alloc::string::String")
_LT_LEN = {"index", "remove", "swap_remove", "swap", "assert:BoundsCheck"}
_LE_LEN = {"split_off", "split_at", "split_at_mut", "rotate_left", "rotate_right", "insert", "drain", "range", "range_mut", "chunks"}


def _pool(crate, file, kind, det):
    """identity of a site that survives moving it to another function of its crate (see rule_panic)"""
    msg = (_MACRO.sub("", det) if kind == "panic" else det).strip()[:56].strip()
    if kind in ("panic", "expect") and msg and msg not in ("internal error: entered unreachable code", "explicit panic"):
        return ("msg", crate, msg)
    seq = det in _SEQ or det.startswith("[") or kind == "assert:BoundsCheck"
    if seq and kind in _LT_LEN:
        return ("obligation", crate, "position < length of a sequence")
    if seq and kind in _LE_LEN:
        return ("obligation", crate, "position <= length of a sequence")
    return ("site", crate, kind, det)


def _relfile(p):
    if "/out/parser/" in p:
        return "<OUT_DIR>/parser/" + p.split("/out/parser/")[-1]
    return p


def _via(ctx, data, zone, k):
    cg = callgraph.get(ctx)
    if "__action#" in k:
        return "; reached through lalrpop's reduce callbacks from parse_module/parse_term"
    if zone == "A":
        path = cg.path_to(data["za"], k)
    else:
        p, e = data["zb"][k]
        path = [k]
        n = p
        seen = data["zb"]
        while n is not None and len(path) < 12:
            path.append(n)
            n = seen[n][0] if n in seen else None
        path.reverse()
    return "; path: " + " -> ".join(x.split("::")[-1] if len(x) > 60 else x for x in path[-6:])


GACT_PATTERNS = [
    ("unwrap", re.compile(r"\.\s*unwrap\s*\(")), ("expect", re.compile(r"\.\s*expect\s*\(")),
    ("panic", re.compile(r"\b(panic|unreachable|todo|unimplemented|assert|assert_eq|assert_ne)!")),
    ("index", re.compile(r"[A-Za-z0-9_\)\]]\s*\[[^\]]")), ("narrowing-cast", re.compile(r"\bas\s+(i8|i16|i32|u8|u16|u32|usize|isize)\b")),
    ("division", re.compile(r"[A-Za-z0-9_\)\]]\s*(/|%)\s*[A-Za-z0-9_\(]")),
    ("remove", re.compile(r"\.\s*(remove|swap_remove|split_off|insert)\s*\(")),
]


def gact_sites(g):
    for name, p in g.prods.items():
        for ai, a in enumerate(p["alts"]):
            if not a.action:
                continue
            for pat, rx in GACT_PATTERNS:
                if rx.search(a.action):
                    yield name, ai, pat, a


def rule_gact(ctx):
    from .. import grammar
    res = RuleResult("R-GACT", "semantic actions of fun.lalrpop contain no panic-capable construct (unwrap/expect/panic-family macros/"
                     "indexing/narrowing casts/division/remove): user text must end in a ParseError, never in a panic; "
                     "gives the nonterminal name the generated __actionN lacks")
    g = grammar.load(ctx)
    n = 0
    flagged = set()
    for name, ai, pat, a in gact_sites(g):
        key = "%s#alt%d@%s" % (name, ai, pat)
        flagged.add((name, ai))
        res.inst(key, "lang/fun/src/parser/fun.lalrpop", a.line, "violation")
        res.violate("%s@%s" % (name, pat), "grammar action of `%s` contains `%s`: %s" % (name, pat, " ".join(a.action.split())[:120]),
                    "lang/fun/src/parser/fun.lalrpop", a.line)
    for name, p in g.prods.items():
        for ai, a in enumerate(p["alts"]):
            if a.action and (name, ai) not in flagged:
                n += 1
                res.inst("%s#alt%d" % (name, ai), "lang/fun/src/parser/fun.lalrpop", a.line, "ok", nontrivial=True)
    # positive control on a synthetic grammar
    pc = grammar.Grammar('match { "a", r"[0-9]+", }\n' + "\n".join("P%d: i64 = { <s: r\"[0-9]+\"> => 0, }" % i for i in range(20)) +
                         '\nBad: i64 = { <s: r"[0-9]+"> => i64::from_str(s).unwrap(), <v: Bad> "a" => v[0] / 2, }\n')
    hits = {(nm, pat) for nm, ai, pat, a in gact_sites(pc)}
    if not {("Bad", "unwrap"), ("Bad", "index"), ("Bad", "division")} <= hits:
        raise AnalysisError("R-GACT positive control not reported: %s" % sorted(hits))
    res.notes.append("positive control (synthetic grammar): %d patterns reported" % len(hits))
    res.require_floor(80)
    return res


def rule_span(ctx):
    """R-SPAN: diagnostic labels end on character boundaries"""
    from ..mir import Flow, op_root
    fx = ctx.fx
    res = RuleResult("R-SPAN", "the source spans of diagnostics (miette::SourceSpan values built in the front end and the driver) are given by the "
                     "lexer's token boundaries or are empty: a span whose length is a non-zero constant number of bytes can end inside a multi-byte "
                     "character of the user's text, and miette's renderer panics when it slices the source line there - an invalid input then "
                     "crashes the compiler instead of producing the diagnostic")
    n = 0
    for k, f in sorted(fx.fns.items()):
        if f["crate"] not in ("fun", "driver", "scc") or "{promoted" in k:
            continue
        if k.startswith("fun::parser::fun::__") and "__action" not in k:
            continue
        fn = None
        for bi, b in enumerate(f["blocks"]):
            t = b["term"]
            if t["k"] != "call" or not t.get("dest") or t["dest"]["p"]:
                continue
            dty = f["locals"][t["dest"]["l"]]["ty"]
            if "SourceSpan" not in dty or "Option" in dty or "Result" in dty:
                continue
            nm = t.get("callee_name")
            c = t.get("callee") or ""
            length = None
            fn = fn or Fn(f)
            if nm in ("into", "from") and t["args"]:
                flow = Flow(fn)
                r = op_root(t["args"][0])
                for o in (flow.origins(r, ()) if r is not None else ()):
                    if o[0] == "agg":
                        rv = flow.agg_at(o)
                        if rv.get("agg") == "tuple" and len(rv["ops"]) == 2:
                            length = rv["ops"][1]
            elif nm == "new" and "SourceSpan" in (t.get("callee_self") or c) and len(t["args"]) == 2:
                length = t["args"][1]
            if length is None:
                continue
            n += 1
            ikey = "%s@span#%d" % (k, bi)
            if length.get("k") == "const" and isinstance(length.get("val"), int) and length["val"] != 0:
                res.inst(ikey, t["sp"]["file"], t["sp"]["line"], "violation")
                res.violate(ikey, "a diagnostic span is built with the constant length %d (bytes): when the text at that position is a multi-byte character the "
                            "span ends inside it and rendering the diagnostic panics" % length["val"], t["sp"]["file"], t["sp"]["line"])
            else:
                res.inst(ikey, t["sp"]["file"], t["sp"]["line"], "ok", "length from token boundaries" if length.get("k") != "const" else "empty span")
    res.notes.append("span constructions examined: %d" % n)
    return res


def rule_idxguard(ctx):
    """R-IDXGUARD: a length test that guards a constant index covers that index"""
    from ..mir import Fn, Flow, op_root, place_fields
    fx = ctx.fx
    res = RuleResult("R-IDXGUARD", "contradiction rule for constant indices: where `seq[c]` is reached only through a test of the length of "
                     "the same sequence (a `match seq.len()`, a comparison of the length with a constant, `is_empty`), the lengths the test "
                     "lets through are all greater than c. A test that admits a length for which the index is out of range (`len <= 1` in "
                     "front of `seq[0]`) is a panic on the input with that length; sites without any dominating length test are left to "
                     "the audited table of R-PANIC")
    n = 0
    for key, f in sorted(fx.fns.items()):
        if f["crate"] not in fx.crates or "{promoted" in key or f["crate"] in ("axcut_examples", "scc_core_macros", "axcut_macros", "scc_macro_utils"):
            continue
        sites = []
        for bi, b in enumerate(f["blocks"]):
            t = b["term"]
            if t["k"] != "assert" or "BoundsCheck" not in str(t.get("msg")):
                continue
            c = t.get("cond") or {}
            if c.get("k") not in ("copy", "move") or c["pl"]["p"]:
                continue
            lt = None
            consts = {}
            lens = {}
            for st in b["stmts"]:
                if st["k"] != "assign" or st["lhs"]["p"]:
                    continue
                rv = st["rv"]
                if rv["k"] == "use" and rv["op"].get("k") == "const" and isinstance(rv["op"].get("val"), int):
                    consts[st["lhs"]["l"]] = rv["op"]["val"]
                if rv["k"] == "unop" and rv.get("op") in ("PtrMetadata", "Len") and rv["a"].get("pl"):
                    lens[st["lhs"]["l"]] = rv["a"]["pl"]
                if rv["k"] == "len":
                    lens[st["lhs"]["l"]] = rv["pl"]
                if st["lhs"]["l"] == c["pl"]["l"] and rv["k"] == "binop" and rv["op"] == "Lt":
                    lt = rv
            if not lt:
                continue
            a, b2 = lt["a"], lt["b"]
            cidx = a.get("val") if a.get("k") == "const" else consts.get((a.get("pl") or {}).get("l"))
            seq = lens.get((b2.get("pl") or {}).get("l"))
            if not isinstance(cidx, int) or isinstance(cidx, bool) or seq is None:
                continue
            sites.append((bi, cidx, seq, t))
        if not sites:
            continue
        fn = Fn(f)
        flow = Flow(fn)

        def seq_id(pl):
            return frozenset(flow.origins(pl["l"], tuple(place_fields(pl))))
        # the length facts of this function: local -> ("len", sequence identity) / ("cmp", op, len local, k) / ("empty", identity)
        facts = {}
        for bj, bb in enumerate(f["blocks"]):
            for st in bb["stmts"]:
                if st["k"] != "assign" or st["lhs"]["p"]:
                    continue
                rv = st["rv"]
                if rv["k"] == "unop" and rv.get("op") in ("PtrMetadata", "Len") and rv["a"].get("pl"):
                    facts[st["lhs"]["l"]] = ("len", seq_id(rv["a"]["pl"]))
                elif rv["k"] == "len":
                    facts[st["lhs"]["l"]] = ("len", seq_id(rv["pl"]))
                elif rv["k"] == "binop" and rv["op"] in ("Lt", "Le", "Gt", "Ge", "Eq", "Ne"):
                    la, lb = rv["a"], rv["b"]
                    if la.get("pl") and not la["pl"]["p"] and lb.get("k") == "const" and isinstance(lb.get("val"), int):
                        facts[st["lhs"]["l"]] = ("cmp", rv["op"], la["pl"]["l"], lb["val"])
                    elif lb.get("pl") and not lb["pl"]["p"] and la.get("k") == "const" and isinstance(la.get("val"), int):
                        flip = {"Lt": "Gt", "Le": "Ge", "Gt": "Lt", "Ge": "Le", "Eq": "Eq", "Ne": "Ne"}[rv["op"]]
                        facts[st["lhs"]["l"]] = ("cmp", flip, lb["pl"]["l"], la["val"])
                elif rv["k"] in ("use",) and rv["op"].get("pl") and not rv["op"]["pl"]["p"] and rv["op"]["pl"]["l"] in facts:
                    facts[st["lhs"]["l"]] = facts[rv["op"]["pl"]["l"]]
            tt = bb["term"]
            if tt["k"] == "call" and tt.get("dest") and not tt["dest"]["p"] and tt["args"] and tt["args"][0].get("pl"):
                if tt.get("callee_name") == "len" and (tt.get("callee") or "").startswith(("core::slice", "alloc::vec", "alloc::collections::vec_deque")):
                    facts[tt["dest"]["l"]] = ("len", seq_id(tt["args"][0]["pl"]))
                elif tt.get("callee_name") == "is_empty" and (tt.get("callee") or "").startswith(("core::slice", "alloc::vec", "alloc::collections::vec_deque")):
                    facts[tt["dest"]["l"]] = ("empty", seq_id(tt["args"][0]["pl"]))
        for bi, cidx, seq, t in sites:
            sid = seq_id(seq)
            top = cidx + 2          # lengths 0 .. cidx+1 and "cidx+2 or more"
            allowed = set(range(top + 1))
            tested = False
            for bj, bb in enumerate(f["blocks"]):
                tt = bb["term"]
                if tt["k"] != "switch" or not (tt["discr"].get("pl") and not tt["discr"]["pl"]["p"]):
                    continue
                fct = facts.get(tt["discr"]["pl"]["l"])
                if not fct:
                    continue

                def lens_for(val, is_other, listed):
                    """lengths (in the abstract domain) for which the switch takes this edge"""
                    dom = set(range(top + 1))
                    if fct[0] == "len":
                        if not (fct[1] & sid):
                            return None
                        if is_other:
                            return {x for x in dom if x not in listed or x == top}
                        return {val} if val < top else {top}
                    if fct[0] == "empty":
                        if not (fct[1] & sid):
                            return None
                        truth = (val != 0) if not is_other else (0 in listed)
                        return {0} if truth else dom - {0}
                    if fct[0] == "cmp":
                        src = facts.get(fct[2])
                        if not src or src[0] != "len" or not (src[1] & sid):
                            return None
                        op, k = fct[1], fct[3]
                        truth = (val != 0) if not is_other else (0 in listed)

                        def holds(x):
                            # x == top stands for every length >= top: decided only when k is below it
                            return {"Lt": x < k, "Le": x <= k, "Gt": x > k, "Ge": x >= k, "Eq": x == k, "Ne": x != k}[op]
                        out_ = set()
                        for x in dom:
                            if x == top and k >= top:
                                out_.add(x)         # undecided for large lengths: keep
                            elif holds(x) == truth:
                                out_.add(x)
                        return out_
                    return None
                listed = [v for v, _ in tt.get("targets") or []]
                edges = [(v, tg_, False) for v, tg_ in tt.get("targets") or []] + ([(None, tt["otherwise"], True)] if tt.get("otherwise") is not None else [])
                for v, tg_, is_other in edges:
                    # the edge bj -> tg_ lies on every path to the site: tg_ dominates the site and is entered only from bj
                    if not (fn.dominates(tg_, bi) and fn.dominates(bj, tg_)):
                        continue
                    preds = [x for x in range(len(f["blocks"])) if tg_ in fn.succ[x] and x in fn.reach]
                    if preds != [bj] or sum(1 for _, t2, _ in edges if t2 == tg_) != 1:
                        continue
                    ls = lens_for(v, is_other, listed)
                    if ls is None:
                        continue
                    tested = True
                    allowed &= ls
            if not tested:
                continue
            n += 1
            ikey = "%s@index[%d]:%d" % (key, cidx, sum(1 for s_ in sites if s_[0] < bi and s_[1] == cidx))
            low = sorted(x for x in allowed if x <= cidx)
            if low:
                res.inst(ikey, t["sp"]["file"], t["sp"]["line"], "violation")
                res.violate(ikey, "%s indexes a sequence at %d behind a test of its length that also lets length %s through: on such an input the "
                            "index is out of range and the compiler panics" % (key.split("::")[-1], cidx, " / ".join(map(str, low))), t["sp"]["file"], t["sp"]["line"])
            else:
                res.inst(ikey, t["sp"]["file"], t["sp"]["line"], "ok", "the dominating length test admits only lengths above %d" % cidx)
    res.inst("constant indices behind a length test: %d" % n, None, None, "ok", nontrivial=False)
    if n < 1:
        raise AnalysisError("R-IDXGUARD: no constant index behind a length test found (print_clauses has one on the pinned tree)")
    return res


def rule_negrange(ctx):
    """R-NEGRANGE: a value reinterpreted from an unsigned integer is negated only below 2^(n-1)"""
    fx = ctx.fx
    res = RuleResult("R-NEGRANGE", "overflow assertions are trusted as a class (they exist in debug builds only and almost all of them guard counters), "
                     "with one exception that is decided: the negation `-(u as iN)` of a value cast from an unsigned integer of the same width. "
                     "The cast maps 2^(N-1) to iN::MIN, whose negation overflows - a panic of the compiler in the build `cargo build` produces. "
                     "Every such negation must be dominated by a comparison that bounds the unsigned value strictly below 2^(N-1) (constants "
                     "read through `unsigned_abs`/`abs` of a constant); a bound of 2^(N-1) itself - the off-by-one of `u <= iN::MIN.unsigned_abs()` "
                     "- or no bound at all is reported")
    WIDTH = {"u64": 64, "usize": 64, "u32": 32, "u16": 16, "u8": 8, "u128": 128}
    SIGNED = {"i64": 64, "isize": 64, "i32": 32, "i16": 16, "i8": 8, "i128": 128}
    n_neg = 0
    n_cast = 0
    for k, f in sorted(fx.fns.items()):
        if f["crate"] in {"scc_core_macros", "axcut_macros", "scc_macro_utils", "axcut_examples"} or "{promoted" in k:
            continue
        fn = None
        for bi, b in enumerate(f["blocks"]):
            t = b["term"]
            if t["k"] != "assert" or "OverflowNeg" not in str(t.get("msg")):
                continue
            n_neg += 1
            fn = fn or Fn(f)
            if bi not in fn.reach:
                continue
            # the value about to be negated: the local compared with MIN in this block
            x = None
            for s in b["stmts"]:
                if s["k"] == "assign" and s["rv"]["k"] == "binop" and s["rv"]["op"] == "Eq":
                    for o in (s["rv"]["a"], s["rv"]["b"]):
                        if o.get("pl") and not o["pl"]["p"]:
                            x = o["pl"]["l"]
            if x is None:
                continue

            def base(l, depth=0):
                """the local a chain of plain copies starts from"""
                for d in fn.defs().get(l, []):
                    if d["kind"] == "assign" and d["rv"]["k"] == "use" and d["rv"]["op"].get("pl") and not d["rv"]["op"]["pl"]["p"] and depth < 6:
                        return base(d["rv"]["op"]["pl"]["l"], depth + 1)
                return l
            src = None
            for d in fn.defs().get(base(x), []):
                if d["kind"] == "assign" and d["rv"]["k"] == "cast" and d["rv"].get("kind") == "IntToInt" and d["rv"]["op"].get("pl"):
                    u = d["rv"]["op"]["pl"]["l"]
                    uty, xty = f["locals"][u]["ty"], f["locals"][base(x)]["ty"]
                    if uty in WIDTH and xty in SIGNED and WIDTH[uty] == SIGNED[xty]:
                        src = (base(u), WIDTH[uty])
            if src is None:
                continue
            n_cast += 1
            u, width = src
            limit = 2 ** (width - 1)

            def const_of(o, depth=0):
                if o.get("k") == "const" and isinstance(o.get("val"), int):
                    return o["val"]
                if o.get("pl") and not o["pl"]["p"] and depth < 4:
                    for d in fn.defs().get(o["pl"]["l"], []):
                        if d["kind"] == "assign" and d["rv"]["k"] in ("use", "cast") and isinstance(d["rv"].get("op"), dict):
                            return const_of(d["rv"]["op"], depth + 1)
                        if d["kind"] == "call" and d["term"].get("callee_name") in ("unsigned_abs", "abs") and d["term"]["args"]:
                            v = const_of(d["term"]["args"][0], depth + 1)
                            return abs(v) if v is not None else None
                return None
            bound = None        # the smallest upper bound (inclusive) known for u at the negation
            for gi in sorted(fn.reach):
                g = f["blocks"][gi]
                if g["term"]["k"] != "switch" or not fn.dominates(gi, bi) or gi == bi:
                    continue
                dl = (g["term"]["discr"].get("pl") or {}).get("l")
                cmp_ = None
                for s in g["stmts"]:
                    if s["k"] == "assign" and s["lhs"]["l"] == dl and s["rv"]["k"] == "binop" and s["rv"]["op"] in ("Le", "Lt", "Ge", "Gt"):
                        cmp_ = s["rv"]
                if cmp_ is None:
                    continue
                a, b_ = cmp_["a"], cmp_["b"]
                a_is_u = a.get("pl") and not a["pl"]["p"] and base(a["pl"]["l"]) == u
                b_is_u = b_.get("pl") and not b_["pl"]["p"] and base(b_["pl"]["l"]) == u
                c = const_of(b_) if a_is_u else (const_of(a) if b_is_u else None)
                if c is None:
                    continue
                # which way the branch towards the negation goes: `targets` holds the value 0 (false) on the pinned encoding
                false_t = [tb for val, tb in g["term"]["targets"] if val == 0]
                true_side = fn.dominates(g["term"]["otherwise"], bi) or g["term"]["otherwise"] == bi
                false_side = any(fn.dominates(tb, bi) or tb == bi for tb in false_t)
                if true_side == false_side:
                    continue
                op = cmp_["op"]
                if b_is_u:      # c OP u  ==  u OP' c
                    op = {"Le": "Ge", "Lt": "Gt", "Ge": "Le", "Gt": "Lt"}[op]
                if not true_side:
                    op = {"Le": "Gt", "Lt": "Ge", "Ge": "Lt", "Gt": "Le"}[op]
                ub = c if op == "Le" else (c - 1 if op == "Lt" else None)
                if ub is not None and (bound is None or ub < bound):
                    bound = ub
            ikey = "%s@neg-of-cast" % k.split("::{")[0]
            if bound is not None and bound < limit:
                res.inst(ikey, t["sp"]["file"], t["sp"]["line"], "ok", "the unsigned value is at most %d < 2^%d" % (bound, width - 1))
            else:
                res.inst(ikey, t["sp"]["file"], t["sp"]["line"], "violation")
                res.violate(ikey, "%s negates a value cast from an unsigned %d-bit integer that %s: for 2^%d the cast yields the minimum and the negation "
                            "overflows - the compiler panics (debug build) on that one input" %
                            (k.split("::")[-1], width, ("can be as large as %d" % bound) if bound is not None else "is not bounded by a dominating comparison", width - 1),
                            t["sp"]["file"], t["sp"]["line"])
    res.inst("negations", "lang/fun/src/parser/fun.lalrpop", 1, "ok", "%d checked negations in the workspace, %d of a value cast from an unsigned integer" % (n_neg, n_cast), nontrivial=False)
    if n_neg < 1:
        raise AnalysisError("R-NEGRANGE: no checked negation found in the workspace (the literal rule of the grammar has one)")
    return res
