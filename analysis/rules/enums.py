"""R-ENUM: translation tables between the comparison/operator enums of the stages agree (name-preserving maps,
dispatch to the right callee, mnemonics)."""
import re

from ..core import RuleResult
from ..facts import AnalysisError
from ..mir import Fn
from .shape import discr_switches, place_adt


def arm_result(fx, fn, start, depth=6):
    """Follow straight-line code from block `start`; return ('variant', adt, name) for the first unit-variant enum
    aggregate assigned, or ('call', callee_name, callee_key) for the first workspace call, else None."""
    b = start
    for _ in range(depth):
        blk = fn.blocks[b]
        for s in blk["stmts"]:
            if s["k"] == "assign" and s["rv"]["k"] == "agg" and s["rv"].get("agg") == "adt":
                a = fx.adts.get(s["rv"]["adt"])
                if a and a["kind"] == "enum":
                    return ("variant", s["rv"]["adt"], s["rv"]["variant"], s["sp"])
        t = blk["term"]
        if t["k"] == "call":
            c = t.get("callee") or ""
            if c.split("::")[0] in fx.crates or any(a.get("k") == "const" and ("str" in a or (a.get("def") or "").split("::")[0] in fx.crates) for a in t["args"]):
                return ("call", t.get("callee_name"), t.get("callee_key"), t["sp"], t)
            if t["target"] is None:
                return ("diverge", t.get("callee_name"), None, t["sp"])
            b = t["target"]
        elif t["k"] == "goto":
            b = t["target"]
        elif t["k"] == "drop":
            b = t["target"]
        else:
            return None
    return None


def enum_maps(fx, fn, in_adt=None):
    """list of (block, in_adt, {variant_in: arm_result})"""
    out = []
    for bi, (pl, adt) in sorted(discr_switches(fn).items()):
        a = fx.adts.get(adt) if adt else None
        if not a or a["kind"] != "enum":
            continue
        if in_adt and adt != in_adt:
            continue
        vs = [v["name"] for v in a["variants"]]
        t = fn.blocks[bi]["term"]
        m = {}
        named = set()
        for val, tb in t["targets"]:
            if val < len(vs):
                m[vs[val]] = arm_result(fx, fn, tb)
                named.add(vs[val])
        rest = [v for v in vs if v not in named]
        if len(rest) == 1 and fn.blocks[t["otherwise"]]["term"]["k"] != "unreachable":
            m[rest[0]] = arm_result(fx, fn, t["otherwise"])
        elif len(rest) > 1 and fn.blocks[t["otherwise"]]["term"]["k"] != "unreachable":
            r = arm_result(fx, fn, t["otherwise"])
            for v in rest:
                m[v] = r
        out.append((bi, adt, m))
    return out


NAME_PRESERVING = [
    # (property tags, function key, input enum, output enum)
    ("fun2core", "<fun::syntax::terms::ifc::IfC as fun2core::compile::Compile>::compile_with_cont",
     "fun::syntax::terms::ifc::IfSort", "scc_core_lang::syntax::statements::ifc::IfSort"),
    ("fun2core", "fun2core::terms::op::compile_op", "fun::syntax::terms::op::BinOp", "scc_core_lang::syntax::terms::op::BinOp"),
    ("core2axcut", "<scc_core_lang::syntax::statements::ifc::IfC<Identifier,FsStatement> as core2axcut::shrinking::Shrinking>::shrink",
     "scc_core_lang::syntax::statements::ifc::IfSort", "axcut::syntax::statements::ifc::IfSort"),
    ("core2axcut", "core2axcut::statements::cut::shrink_binop", "scc_core_lang::syntax::terms::op::BinOp", "axcut::syntax::statements::op::BinOp"),
]


def rule_enum_maps(stages):
    def rule(ctx):
        fx = ctx.fx
        res = RuleResult("R-ENUM", "the enum-to-enum translation tables of the comparison sorts and arithmetic operators are "
                         "name-preserving: extracted from MIR as `switchInt(discriminant(x))` -> unit variant assigned in each arm "
                         "(swapping two arms compiles and no test of the middle stages notices)")
        for stage, key0, ein, eout in NAME_PRESERVING:
            if stage not in stages:
                continue
            if ein not in fx.adts or eout not in fx.adts:
                raise AnalysisError("R-ENUM: enum %s or %s missing" % (ein, eout))
            # every table from the one enum to the other, wherever in the stage's crate it is written (the function named in the
            # table above on the pinned tree, or a helper extracted from it)
            found = []
            for key in sorted(fx.fns):
                f = fx.fns[key]
                if f["crate"] != stage or "{promoted" in key or ein.split("::")[-1] not in str(f.get("locals")):
                    continue
                fn = Fn(f)
                for m in enum_maps(fx, fn, ein):
                    if any(r and r[0] == "variant" and r[1] == eout for r in m[2].values()):
                        found.append((key, fn, m))
            if not found:
                raise AnalysisError("R-ENUM: no %s -> %s table found in crate %s (on the pinned tree: %s)" % (ein.split("::")[-1], eout, stage, key0))
            for key, fn, (bi, adt, m) in found:
                for vin in [v["name"] for v in fx.adts[ein]["variants"]]:
                    r = m.get(vin)
                    ikey = "%s:%s.%s" % (key, ein.split("::")[-1], vin)
                    if r is None or r[0] != "variant" or r[1] != eout:
                        res.inst(ikey, fn.file, fn.line, "violation")
                        res.violate(ikey, "arm for %s::%s does not produce a %s value" % (ein.split("::")[-1], vin, eout.split("::")[-1]), fn.file, fn.line)
                    elif r[2] != vin:
                        res.inst(ikey, r[3]["file"], r[3]["line"], "violation")
                        res.violate(ikey, "%s::%s is translated to %s::%s (the table must be name-preserving)" %
                                    (ein.split("::")[-1], vin, eout.split("::")[-1], r[2]), r[3]["file"], r[3]["line"])
                    else:
                        res.inst(ikey, r[3]["file"], r[3]["line"], "ok")
        return res
    rule.__name__ = "rule_enum_maps"
    return rule


# semantic reading of the comparison tokens of the surface syntax (the language definition, not copied from the repo)
TOKEN_SORT = {"==": "Equal", "!=": "NotEqual", "<": "Less", "<=": "LessOrEqual", ">": "Greater", ">=": "GreaterOrEqual"}
MIRROR = {"Equal": "Equal", "NotEqual": "NotEqual", "Less": "Greater", "LessOrEqual": "GreaterOrEqual",
          "Greater": "Less", "GreaterOrEqual": "LessOrEqual"}
TOKEN_OP = {"+": "Sum", "-": "Sub", "*": "Prod", "/": "Div", "%": "Rem"}


def _cmp_token(sym):
    """terminal text -> (operator token, zero side: None|'left'|'right')"""
    if sym.startswith('r"'):
        body = sym[2:-1]
        m = re.fullmatch(r"(==|!=|<=|>=|<|>)\\s\*0", body)
        if m:
            return m.group(1), "right"
        m = re.fullmatch(r"0\\s\*(==|!=|<=|>=|<|>)", body)
        if m:
            return m.group(1), "left"
        return None
    if sym.startswith('"') and sym[1:-1] in TOKEN_SORT:
        return sym[1:-1], None
    return None


def rule_enum_surface(ctx):
    from .. import grammar
    fx = ctx.fx
    g = grammar.load(ctx)
    res = RuleResult("R-ENUM/surface", "surface segment of the comparison/operator chain: each conditional production of fun.lalrpop "
                     "carries the sort its token denotes (`0 <op> x` forms carry the mirrored sort, zero forms have snd: None), each "
                     "operator production the operator its token denotes, and `Print for IfSort`/`Print for BinOp` print the token "
                     "the grammar reads for that variant (round trip of the operator itself)")
    n = 0
    LAL = "lang/fun/src/parser/fun.lalrpop"
    token_nts = {}      # nonterminal that only yields a sort -> set of 'zero' / 'two' forms of its tokens
    for name, p in g.prods.items():
        for a in p["alts"]:
            if not a.action or "IfSort::" not in a.action:
                continue
            toks = [(_cmp_token(s["sym"]), s) for s in a.symbols]
            toks = [t for t, s in toks if t]
            m = re.search(r"IfSort::([A-Za-z]+)", a.action)
            ikey = "grammar:%s" % name
            if len(toks) != 1 or not m or len(re.findall(r"IfSort::[A-Za-z]+", a.action)) != 1:
                res.inst(ikey, LAL, a.line, "violation")
                res.violate(ikey, "conditional production `%s` has no unique comparison token / sort" % name, LAL, a.line)
                continue
            n += 1
            tok, zero = toks[0]
            want = TOKEN_SORT[tok] if zero != "left" else MIRROR[TOKEN_SORT[tok]]
            ok = m.group(1) == want
            inline = bool(re.search(r"\bsnd\s*:", a.action))
            snd_none = bool(re.search(r"snd:\s*None", a.action))
            if inline:
                if zero and not snd_none or (not zero and snd_none):
                    ok = False
            else:
                # the production only yields the sort (`Cmp: IfSort = { "==" => IfSort::Equal, .. }`): the production that uses it
                # decides about the second operand
                token_nts.setdefault(name, set()).add("zero" if zero else "two")
            if ok:
                res.inst(ikey, LAL, a.line, "ok", "%s%s -> %s" % (tok, " (0 on the %s)" % zero if zero else "", want))
            else:
                res.inst(ikey, LAL, a.line, "violation")
                res.violate(ikey, "production `%s` reads token `%s`%s but builds IfSort::%s%s (expected IfSort::%s, snd %s)" %
                            (name, tok, " with 0 on the %s" % zero if zero else "", m.group(1), "" if (not inline or snd_none == bool(zero)) else " with wrong snd",
                             want, "None" if zero else "Some"), LAL, a.line)
    for nt, forms in sorted(token_nts.items()):
        if len(forms) != 1:
            res.inst("grammar:%s:forms" % nt, LAL, None, "violation")
            res.violate("grammar:%s:forms" % nt, "`%s` mixes comparisons with zero and comparisons of two terms: its users cannot know whether a second operand follows" % nt, LAL, None)
            continue
        form = next(iter(forms))
        users = 0
        for name, p in g.prods.items():
            for a in p["alts"]:
                if not a.action or not any(s["sym"].split("<")[0] == nt for s in a.symbols):
                    continue
                users += 1
                ikey = "grammar:%s:uses:%s" % (name, nt)
                has_some, has_none = bool(re.search(r"\bSome\s*\(", a.action)), bool(re.search(r"\bNone\b", a.action))
                good = (has_none and not has_some) if form == "zero" else (has_some and not has_none)
                if good:
                    res.inst(ikey, LAL, a.line, "ok", "%s: second operand %s" % (nt, "absent" if form == "zero" else "present"))
                else:
                    res.inst(ikey, LAL, a.line, "violation")
                    res.violate(ikey, "production `%s` reads a comparison %s (`%s`) but builds the conditional %s a second operand" %
                                (name, "with zero" if form == "zero" else "of two terms", nt, "with" if form == "zero" else "without"), LAL, a.line)
        if not users:
            raise AnalysisError("R-ENUM/surface: the comparison nonterminal %s is used by no production" % nt)
    if n < 18:
        raise AnalysisError("R-ENUM/surface: only %d conditional productions found" % n)
    p = g.prods.get("BinOp")
    if not p:
        raise AnalysisError("R-ENUM/surface: BinOp production missing")
    gram_op = {}
    for a in p["alts"]:
        tok = a.symbols[0]["sym"][1:-1]
        m = re.search(r"BinOp::([A-Za-z]+)", a.action or "")
        ikey = "grammar:BinOp:%s" % tok
        if tok in TOKEN_OP and m and m.group(1) == TOKEN_OP[tok]:
            gram_op[m.group(1)] = tok
            res.inst(ikey, "lang/fun/src/parser/fun.lalrpop", a.line, "ok")
        else:
            res.inst(ikey, "lang/fun/src/parser/fun.lalrpop", a.line, "violation")
            res.violate(ikey, "operator token `%s` builds %s, expected BinOp::%s" % (tok, m.group(0) if m else "?", TOKEN_OP.get(tok)), "lang/fun/src/parser/fun.lalrpop", a.line)
    # printers
    inv_sort = {v: k for k, v in TOKEN_SORT.items()}
    for key, ein, table in (("<fun::syntax::terms::ifc::IfSort as scc_printer::types::Print>::print", "fun::syntax::terms::ifc::IfSort", inv_sort),
                            ("<fun::syntax::terms::op::BinOp as scc_printer::types::Print>::print", "fun::syntax::terms::op::BinOp", {v: k for k, v in TOKEN_OP.items()})):
        fn = Fn(fx.fn(key))
        # the printer folded for every variant (abstract interpretation with the `pretty` builder modelled): the text it prints
        from .. import docmodel, interp as _interp
        from ..interp import Adt as _Adt, Sym as _Sym
        cfg = _Adt("scc_printer::types::PrintCfg", "PrintCfg", {"width": 80, "indent": 4, "allow_linebreaks": True, "latex": False})
        for vin in [v["name"] for v in fx.adts[ein]["variants"]]:
            ikey = "%s:%s" % (key, vin)
            I = _interp.Interp(fx, hooks=[docmodel.doc_hook], max_depth=4, max_paths=16)
            outs = [o for o in I.run(fx.fn(key), [_Adt(ein, vin, {}), cfg, _Sym("alloc")]) if not getattr(o, "diverged", None)]
            docs = [o.result for o in outs if isinstance(o.result, docmodel.Doc)]
            if len(docs) != 1 or len(outs) != 1:
                raise AnalysisError("R-ENUM/surface: the printer of %s::%s could not be folded" % (ein.split("::")[-1], vin))
            parts = [tk for tk in docs[0].toks if tk[0] not in ("space", "line", "hardline", "softline")]
            tok = parts[0][1] if len(parts) == 1 and parts[0][0] in ("text", "kw", "ctor", "dtor", "typ") and isinstance(parts[0][1], str) else None
            if tok is None and parts:
                raise AnalysisError("R-ENUM/surface: the printer of %s::%s prints %r, which is not one literal token" % (ein.split("::")[-1], vin, parts[:3]))
            if tok == table.get(vin):
                res.inst(ikey, fn.file, fn.line, "ok", "%s prints `%s`" % (vin, tok))
            else:
                res.inst(ikey, fn.file, fn.line, "violation")
                res.violate(ikey, "%s::%s is printed as `%s` but the grammar reads `%s` for it: formatting changes the program" %
                            (ein.split("::")[-1], vin, tok, table.get(vin)), fn.file, fn.line)
    res.require_floor(18 + 5 + 6 + 5)
    return res


def arm_first_call(fn, start, pred, depth=40):
    """follow straight-line code (calls, gotos, drops) from `start` to the first call satisfying pred"""
    b = start
    for _ in range(depth):
        t = fn.blocks[b]["term"]
        if t["k"] == "call":
            if pred(t):
                return t
            if t["target"] is None:
                return None
            b = t["target"]
        elif t["k"] in ("goto", "drop", "assert"):
            b = t["target"]
        else:
            return None
    return None


INSTR_TRAIT = "axcut2backend::code::Instructions"
SORT_METHOD = {"Equal": "equal", "NotEqual": "not_equal", "Less": "less", "LessOrEqual": "less_or_equal",
               "Greater": "greater", "GreaterOrEqual": "greater_or_equal"}
SORT_ZERO_METHOD = {"Equal": "zero", "NotEqual": "not_zero", "Less": "less_zero", "LessOrEqual": "less_or_equal_zero",
                    "Greater": "greater_zero", "GreaterOrEqual": "greater_or_equal_zero"}
OP_METHOD = {"Sum": "add", "Sub": "sub", "Prod": "mul", "Div": "div", "Rem": "rem"}


def rule_enum_dispatch(ctx):
    fx = ctx.fx
    res = RuleResult("R-ENUM/dispatch", "backend-independent dispatch of axcut2backend: IfC::code_statement calls "
                     "jump_label_if_<sort>[_zero] for (sort, snd = Some/None) with operands (fst, snd) in that order, "
                     "Op::code_statement calls add/sub/mul/div/rem for Sum/Sub/Prod/Div/Rem with operands (target, fst, snd); "
                     "extracted from the MIR discriminant switches (each arm's first Instructions call and the provenance of its arguments)")
    from ..mir import Flow, op_root, place_fields
    key = "<axcut::syntax::statements::ifc::IfC as axcut2backend::statements::code_statement::CodeStatement>::code_statement"
    fn = Fn(fx.fn(key))
    flow = Flow(fn)
    maps = enum_maps(fx, fn, "axcut::syntax::statements::ifc::IfSort")
    seen = 0

    def var_field(t_call, ai):
        """which field of self the ai-th temporary argument was computed from (via variable_temporary(.., self.<f>.id))"""
        a = t_call["args"][ai]
        r = op_root(a)
        for o in flow.origins(r, ()):
            if o[0] == "call":
                vt = fn.term(o[1])
                if vt.get("callee_name") == "variable_temporary":
                    idarg = vt["args"][-1]
                    rr = op_root(idarg)
                    outs = set()
                    for oo in flow.origins(rr, tuple(place_fields(idarg["pl"]))):
                        if oo[0] == "arg":
                            outs.add(".".join(oo[2]))
                        elif oo[0] == "call":
                            outs.add("call:" + str(oo[2]))
                        else:
                            outs.add(oo[0])
                    return outs
        return {"?"}
    for bi, adt, m in maps:
        t = fn.blocks[bi]["term"]
        names = [v["name"] for v in fx.adts[adt]["variants"]]
        arms = {names[val]: tb for val, tb in t["targets"] if val < len(names)}
        calls = {}
        for v, tb in arms.items():
            calls[v] = arm_first_call(fn, tb, lambda tt: tt.get("callee_trait") == INSTR_TRAIT and (tt.get("callee_name") or "").startswith("jump_label_if"))
        if not any(calls.values()):
            continue        # the switch that builds the comment string
        seen += 1
        zero = all(c is None or c.get("callee_name", "").endswith("zero") for c in calls.values())
        table = SORT_ZERO_METHOD if zero else SORT_METHOD
        for v in names:
            c = calls.get(v)
            ikey = "IfC:%s:%s" % ("zero" if zero else "two", v)
            want = "jump_label_if_" + table[v]
            if c is None or c.get("callee_name") != want:
                res.inst(ikey, fn.file, c["sp"]["line"] if c else fn.line, "violation")
                res.violate(ikey, "IfSort::%s (%s form) dispatches to %s, expected %s" % (v, "zero" if zero else "two-operand", c.get("callee_name") if c else None, want),
                            fn.file, c["sp"]["line"] if c else fn.line)
                continue
            f0 = var_field(c, 0)
            ok = f0 == {"fst.id"}
            if not zero:
                f1 = var_field(c, 1)
                ok = ok and all(x.startswith("snd") or x.startswith("call") or x == "0.id" for x in f1) and "fst.id" not in f1
            if ok:
                res.inst(ikey, c["sp"]["file"], c["sp"]["line"], "ok", want)
            else:
                res.inst(ikey, c["sp"]["file"], c["sp"]["line"], "violation")
                res.violate(ikey, "%s is called with operands from %s%s, expected (fst%s)" % (want, sorted(f0), "" if zero else " and %s" % sorted(var_field(c, 1)), "" if zero else ", snd"),
                            c["sp"]["file"], c["sp"]["line"])
    if seen != 2:
        # the dispatch is not written as two switches whose arms call the instruction (a table, a selected function, a helper): which
        # jump a comparison selects is then decided by R-STMT alone, which folds IfC::code_statement for every sort and both forms
        res.inst("IfC:dispatch-not-a-direct-switch", fn.file, fn.line, "ok", "%d direct dispatch switches found; the mapping is decided by R-STMT's fold" % seen, nontrivial=False)
    key = "<axcut::syntax::statements::op::Op as axcut2backend::statements::code_statement::CodeStatement>::code_statement"
    fn = Fn(fx.fn(key))
    flow = Flow(fn)
    maps = enum_maps(fx, fn, "axcut::syntax::statements::op::BinOp")
    direct = False
    names, arms = [], {}
    if maps:
        bi, adt, m = maps[0]
        t = fn.blocks[bi]["term"]
        names = [v["name"] for v in fx.adts[adt]["variants"]]
        arms = {names[val]: tb for val, tb in t["targets"] if val < len(names)}
        direct = all(v in arms and arm_first_call(fn, arms[v], lambda tt: tt.get("callee_trait") == INSTR_TRAIT) is not None for v in names)
    if not direct:
        res.inst("Op:dispatch-not-a-direct-switch", fn.file, fn.line, "ok", "the arms do not call the instruction themselves; the mapping is decided by R-STMT's fold", nontrivial=False)
        names = []
    for v in names:
        c = arm_first_call(fn, arms[v], lambda tt: tt.get("callee_trait") == INSTR_TRAIT) if v in arms else None
        ikey = "Op:%s" % v
        want = OP_METHOD[v]
        if c is None or c.get("callee_name") != want:
            res.inst(ikey, fn.file, fn.line, "violation")
            res.violate(ikey, "BinOp::%s dispatches to %s, expected %s" % (v, c.get("callee_name") if c else None, want), fn.file, c["sp"]["line"] if c else fn.line)
            continue
        srcs = [var_field(c, i) for i in range(3)]
        if srcs == [{"var.id"}, {"fst.id"}, {"snd.id"}]:
            res.inst(ikey, c["sp"]["file"], c["sp"]["line"], "ok", want + "(var, fst, snd)")
        else:
            res.inst(ikey, c["sp"]["file"], c["sp"]["line"], "violation")
            res.violate(ikey, "%s is called with operands from %s, expected (var, fst, snd)" % (want, [sorted(x) for x in srcs]), c["sp"]["file"], c["sp"]["line"])
    res.require_floor(2)
    return res


SORTS6 = {"Equal", "NotEqual", "Less", "LessOrEqual", "Greater", "GreaterOrEqual"}
MIRROR = {"Equal": "Equal", "NotEqual": "NotEqual", "Less": "Greater", "LessOrEqual": "GreaterOrEqual", "Greater": "Less", "GreaterOrEqual": "LessOrEqual"}
COMPLEMENT = {"Equal": "NotEqual", "NotEqual": "Equal", "Less": "GreaterOrEqual", "LessOrEqual": "Greater", "Greater": "LessOrEqual", "GreaterOrEqual": "Less"}


def rule_sort_selfmaps(ctx):
    """R-SORTMAP: a table from a comparison sort to a comparison sort of the same enum is what its use needs"""
    from ..mir import Flow, op_root, place_fields
    fx = ctx.fx
    res = RuleResult("R-SORTMAP", "tables that send a comparison sort to a sort of the same enum (`swapped`, `negated`, ...): each is the identity, "
                     "the mirror image (< with >, <= with >=; what exchanging the operands needs) or the complement (what exchanging the "
                     "branches needs) - nothing else - and where the function that applies it exchanges the operands it is the mirror image, "
                     "where it exchanges the branches the complement. A complement used for exchanged operands is wrong exactly when the "
                     "operands are equal")
    n = 0
    tables = {}
    for key in sorted(fx.fns):
        f = fx.fns[key]
        if f["crate"] not in fx.crates or "{promoted" in key or f["crate"] in ("axcut_examples", "scc_core_macros", "axcut_macros", "scc_macro_utils"):
            continue
        if "IfSort" not in f["locals"][0]["ty"] and "Sort" not in f["locals"][0]["ty"]:
            continue
        fn = Fn(f)
        for bi, adt, m in enum_maps(fx, fn):
            vs = {v["name"] for v in fx.adts[adt]["variants"]}
            if not vs or not vs <= SORTS6 or len(vs) < 4:
                continue
            outs = {}
            for vin, r in m.items():
                if r and r[0] == "variant" and r[1] == adt:
                    outs[vin] = r[2]
            if set(outs) != vs:
                continue
            n += 1
            kind = "identity" if all(outs[v] == v for v in vs) else "mirror" if all(outs[v] == MIRROR[v] for v in vs) else \
                "complement" if all(outs[v] == COMPLEMENT[v] for v in vs) else "other"
            tables[key] = kind
            ikey = "%s:%s" % (key, adt.split("::")[-1])
            if kind == "other":
                wrong = sorted("%s -> %s" % (v, outs[v]) for v in vs if outs[v] not in (v, MIRROR[v], COMPLEMENT[v]) or True)
                res.inst(ikey, fn.file, fn.line, "violation")
                res.violate(ikey, "%s maps comparison sorts to sorts (%s): neither the identity, nor the mirror image, nor the complement - whatever it "
                            "is used for, some comparison changes its meaning" % (key.split("::")[-1], ", ".join(wrong)[:200]), fn.file, fn.line)
            else:
                res.inst(ikey, fn.file, fn.line, "ok", kind)
    # uses: what does the applying function exchange?
    for key, f in sorted(fx.fns.items()):
        if f["crate"] not in fx.crates or "{promoted" in key:
            continue
        uses = [(bi, t) for bi, t in Fn(f).calls() if (t.get("resolved_key") or t.get("callee_key")) in tables and tables[t.get("resolved_key") or t.get("callee_key")] in ("mirror", "complement")]
        if not uses:
            continue
        fn = Fn(f)
        flow = Flow(fn)
        swapped = set()
        for bi, t in fn.calls():
            if t.get("callee_name") == "swap" and (t.get("callee") or "").startswith("core::mem::") and len(t["args"]) == 2:
                pair = set()
                for a in t["args"]:
                    r = op_root(a)
                    for o in (flow.origins(r, tuple(place_fields(a["pl"]))) if r is not None else ()):
                        if o[0] == "arg" and o[2]:
                            pair.add(o[2][0])
                swapped |= {frozenset(pair)} if len(pair) == 2 else set()
        for bi, t in uses:
            kind = tables[t.get("resolved_key") or t.get("callee_key")]
            n += 1
            ikey = "%s@%s" % (key, t.get("callee_name"))
            need = None
            if any(p <= {"fst", "snd"} for p in swapped):
                need = "mirror"
            elif any(p <= {"thenc", "elsec"} for p in swapped):
                need = "complement"
            if need and need != kind:
                res.inst(ikey, t["sp"]["file"], t["sp"]["line"], "violation")
                res.violate(ikey, "%s exchanges the %s of a comparison and replaces the sort by its %s (%s): that needs the %s - the results differ "
                            "when the two operands are equal" % (key.split(" as ")[0].lstrip("<").split("::")[-1] if " as " in key else key.split("::")[-1],
                                                                  "operands" if need == "mirror" else "branches", kind, t.get("callee_name"),
                                                                  "mirror image (< with >, <= with >=)" if need == "mirror" else "complement"), t["sp"]["file"], t["sp"]["line"])
            else:
                res.inst(ikey, t["sp"]["file"], t["sp"]["line"], "ok", "%s%s" % (kind, (" for exchanged " + ("operands" if need == "mirror" else "branches")) if need else ""))
    res.inst("sort-to-sort tables: %d" % len(tables), None, None, "ok", nontrivial=False)
    return res
