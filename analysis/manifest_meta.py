"""Texts for MANIFEST.json (per claimed property) and the reasons for properties not (yet) claimed."""

META = {
    "C17": {
        "level": "Static decision (not sampling) over every body of the workspace: all iterations over std hash collections are "
                 "enumerated from resolved calls and classified by local dataflow into order-insensitive sinks; global mutable state "
                 "and ambient nondeterminism sources are inventoried with who-may-touch rules. Hash seeds and process instances are "
                 "exactly what tests cannot enumerate; the rule covers all of them because it forbids the dependence itself.",
        "design_ref": "DESIGN.md §3 R-HASH/R-STATIC/R-AMBIENT, §4 C17",
        "note": "Trusted: third-party crates are deterministic; ordered std containers iterate as a function of their contents; audit "
                "rows (audit/hash_sites.toml) for the four unique-match lookups (identified by function or by the collection they search, so a "
                "rename or a rewrite as find/find_map keeps the row) and one diagnostic-only loop, each additionally "
                "checked to accumulate nothing. A Vec collected from a hash collection counts as sorted only if the comparator / key "
                "closure compares the whole element or the map key (a non-identifying key leaves ties in hash order).",
        "technique": "static analysis: MIR call-site enumeration + intra-procedural dataflow (iterator sink classification), "
                     "who-may-write inventory of statics",
    },
}

META["C18"] = {
    "level": "Static closure argument over all inputs: the call graph (resolved calls, trait dispatch to all impls, closures, callbacks "
             "from lalrpop's driver into the generated actions) is computed from MIR, every panic-capable site in it is enumerated, "
             "and each must be discharged by an audit row whose class is admissible for its zone; grammar actions are additionally "
             "scanned textually. A fuzzer samples byte strings; this enumerates the code that could panic.",
    "design_ref": "DESIGN.md §3 R-PANIC/R-GACT, §4 C18",
    "note": "Trusted: lalrpop runtime + generated tables, std; LOOKUP rows (well-scopedness after checking). An audited site is identified "
            "by (crate, message) or by its positional obligation on a sequence, pooled per crate: moving a site into a helper is silent, one "
            "site more than the audit holds is reported (a new indexing operation whose safety needs an arithmetic argument is reported until a "
            "row states that argument: the limit of this technique, DESIGN A.6.1). Termination: R-DESCENT decides "
            "that every recursion cycle of the pipeline is a structural descent (helpers summarised; variable-for-variable renamings "
            "recognised by their re-checked signature), so recursion depth is bounded by the program; R-LOOP accepts iterator-driven, popped "
            "and constant-step counting loops; stack size is not decided. Known finding: the RISC-V backend's print_i64 is an unconditional panic.",
    "technique": "static analysis: whole-program call graph over MIR + panic-site inventory against an audited table; grammar action scan; "
                 "SCC decomposition with per-call-site provenance (structural descent)",
}

META["C01"] = {
    "level": "Must-call and value-provenance rules on the MIR of the driver's stage functions and backend tails (finite site set, "
             "enumerated completely). Types do not enforce the chain (Prog has the same type before and after uniquify/linearize), "
             "and no test runs the pipeline end to end on the middle stages.",
    "design_ref": "DESIGN.md §3 R-WIRE, §4 C01",
    "note": "Decides the wiring clause and, as a conjunction, every rule of the stage properties on the x86-64 path (C02-C06, C14, C20; the "
            "x86-64 calling convention of C13 is in C06's list): each reports constructs that change what some compiled executable does. "
            "The behavioural statement itself - same bytes on stdout, exit status - quantifies over run-time values and is not decided; "
            "the two let/clause capture sites of C02 are genuine C01 defects too and are listed as known findings.",
    "technique": "static analysis: must-call / dominator / provenance rules over MIR of the driver, plus the rules of the stage properties "
                 "(provenance, abstract interpretation of emission functions, symbolic machine, C abstract interpretation)",
}

META["C03"] = {
    "level": "Exhaustive structural rules over all impls of the Core traversal traits (field-level provenance into recursive calls), "
             "dominator rule for uniquify-before-focus, decision-region enumeration for the Term<Cns> wildcards. Each is a necessary "
             "condition of C03 whose violation changes behaviour; unit tests exercise single terms only.",
    "design_ref": "DESIGN.md §3 R-TRAV/R-WIRE/R-SHAPE (+R-FRESH/R-MAXID/R-SHADOW), §4 C03",
    "note": "Partial: decides traversal completeness, identifier discipline, stage order and - R-BINDORDER - the order in which focusing "
            "lifts the subterms of one construct (read from the nesting of the continuation closures: declaration order within a "
            "construct, first argument first in bind_many). Semantic equivalence as a whole is not decided.",
    "technique": "static analysis: per-impl field provenance (MIR), dominators, discriminant decision-region path enumeration, closure-nesting order with capture provenance",
}
META["C05"] = {
    "level": "Exhaustive structural rules over the AxCut traversal traits, must-dataflow for the free-variable annotations, dominator "
             "rule free_vars-before-linearize, wildcard reachability for Statement::linearize, and R-LINSUBST: linearize of Call/Invoke/Let "
             "abstractly interpreted over every small aliasing pattern of arguments and context, checking that the explicit "
             "substitution is injective on what stays live (no two live variables renamed to one name).",
    "design_ref": "DESIGN.md §3 R-TRAV/R-ANNOT/R-WIRE/R-SHAPE (+R-KEEP/R-PUSH), §4 C05",
    "note": "R-LINSUBST (Call/Invoke/Let) and R-LINCTX (Switch/Create) decide exactness of the environment for these statement kinds over all small environments and annotations (layout taken by position by the code generator, exact free variables, distinct binders, renaming); the remaining kinds (literal, op, if, print, exit) only through the traversal/annotation rules.",
    "technique": "static analysis: field provenance, forward must-dataflow on MIR CFG, dominators, abstract interpretation of linearize over finite alias patterns",
}
META["C12"] = {
    "level": "Panic-site closure of the post-check pipeline with the annotation and shape classes discharged by checked typestate / "
             "reachability rules; finite site population enumerated completely from the resolved call graph.",
    "design_ref": "DESIGN.md §3 R-PANIC/R-ANNOT/R-SHAPE/R-TRAV, §4 C12",
    "note": "R-FVSCOPE: free-variable collection on unfocused Core removes a binder only from the set of its own body (shadowing before uniquify). Partial: decides 'no internal failure' up to the audited LOOKUP invariants; does not type-check intermediate programs. "
            "Known finding: rv64 print_i64 panics.",
    "technique": "static analysis: call-graph panic inventory + must-dataflow typestate + decision-region enumeration",
}

META["C02"] = {
    "level": "Taint/provenance analysis on the MIR of every fun2core function that receives a consumer, plus seeding, traversal and "
             "table rules; decides the 'never captures' and 'generated names never coincide with user names' clauses structurally "
             "for all programs. The two capture sites it reports are genuine and listed as known findings.",
    "design_ref": "DESIGN.md §4 C02 (R-HYG, R-SEED), §3 R-ENUM/R-TRAV",
    "note": "R-BINDERS: every field the checker binds (add_var/add_covar/add_types) is inserted by UsedBinders; R-FVSCOPE as in C12. Partial: semantic equivalence of the translation is not decided. Known findings: capture under let and pattern binders.",
    "technique": "static analysis: forward taint + backward provenance on MIR aggregates, dominator rules, enum-map extraction, grammar reader",
}

META["C04"] = {
    "level": "Decision tables folded by abstract interpretation of MIR (chirality collapse), wildcard reachability by decision-region "
             "enumeration (18 shapes), collection-provenance rules for lifted definitions and eta-expansions; all site populations "
             "finite and enumerated completely; R-IDCMP: no decision in the translation compares the numeric id of a name without its "
             "text (constructor/type names are identified by name). No test exercises core2axcut at all.",
    "design_ref": "DESIGN.md §4 C04 (R-SHAPE, R-SAMESRC, R-DECLSRC, chirality table), §3 R-ENUM/R-FRESH",
    "note": "R-CUTVAR folds the eta-expansion of unknown cuts at a data and a codata type (switch on the producer side); R-USEALL: every by-value input of a translation function is used on every path. Partial: the right-hand side of each cut shape (which AxCut statement it becomes) is not decided.",
    "technique": "static analysis: abstract interpretation of MIR over finite domains, decision-region path enumeration, collection provenance",
}
META["C19"] = {
    "level": "Symbolic execution of the translation functions over MIR facts with lazily refined algebraic shapes: the guard that lets "
             "a continuation bypass share()/lift() is evaluated structurally (which shapes can pass it) and judged by a size-boundedness "
             "criterion on the ADT table, not by a frozen copy of the guard. Witness families in tests reach depth 16; this covers "
             "every shape.",
    "design_ref": "DESIGN.md §4 C19 (R-SHARE)",
    "note": "Partial: decides the sharing discipline (the mechanism behind the bound), not the degree of the polynomial.",
    "technique": "static analysis: symbolic execution over MIR facts with finite variant-set constraints (no solver), ADT-table boundedness criterion",
}

META["C06"] = {
    "level": "Translation validation of the x86-64 instruction-selection templates, statically: emission functions are abstractly "
             "interpreted (MIR facts) into instruction lists for every reachable placement class, and each list is checked on a "
             "symbolic machine against the AxCut step it implements; the print call sites (R-ABI) and the parallel-move guard "
             "(R-CYCLE: scratch register / reserved slot exactness over all small move trees) of this backend are included. Golden tests pin text for 8 programs with everything in "
             "registers; spill arms, rdx/rax special cases and large literals are covered here.",
    "design_ref": "DESIGN.md §4 C06-C08 (R-ENUM backend segment, R-SPILL realised as symbolic template validation), §3 R-IMM",
    "note": "Arithmetic, comparison, move and literal templates, dispatch tables, and - R-MEM - the memory-management sequences "
            "(store/load of 0..7 values across linked blocks, share, erase, acquire with both free lists, lazy erasure of children) "
            "validated on every path of the emitted code against a reference semantics of the reference-counting scheme, for "
            "contexts straddling the register/spill boundary; R-PMOVES (parallel moves over all small assignment maps); and R-STMT: the "
            "generic statement-level code generation instantiated at this backend and validated per statement kind (let, literal, op, "
            "switch incl. dispatch and per-clause loads, create incl. method entry, invoke, if, substitute incl. reference counts) "
            "against the AxCut machine step, with the context handed to the next statement checked. Whole-program behaviour (that "
            "the steps compose: label resolution across definitions, the entry sequence beyond R-ABI) is not decided.",
    "technique": "static analysis: abstract interpretation of MIR emission functions + symbolic execution of the emitted instruction templates (syntactic equality, no solver)",
}
META["C07"] = {
    "level": "Translation validation of the AArch64 instruction-selection templates, statically: emission functions are abstractly "
             "interpreted (MIR facts) into instruction lists for every reachable placement class, and each list is checked on a "
             "symbolic machine against the AxCut step it implements; the print call sites (R-ABI) and the parallel-move guard "
             "(R-CYCLE: scratch register / reserved slot exactness over all small move trees) of this backend are included. Golden tests pin text for 8 programs with everything in "
             "registers; spill arms, rdx/rax special cases and large literals are covered here.",
    "design_ref": "DESIGN.md §4 C06-C08 (R-ENUM backend segment, R-SPILL realised as symbolic template validation), §3 R-IMM",
    "note": "Arithmetic, comparison, move and literal templates, dispatch tables, and - R-MEM - the memory-management sequences "
            "(store/load of 0..7 values across linked blocks, share, erase, acquire with both free lists, lazy erasure of children) "
            "validated on every path of the emitted code against a reference semantics of the reference-counting scheme, for "
            "contexts straddling the register/spill boundary; R-PMOVES (parallel moves over all small assignment maps); and R-STMT: the "
            "generic statement-level code generation instantiated at this backend and validated per statement kind (let, literal, op, "
            "switch incl. dispatch and per-clause loads, create incl. method entry, invoke, if, substitute incl. reference counts) "
            "against the AxCut machine step, with the context handed to the next statement checked. Whole-program behaviour (that "
            "the steps compose: label resolution across definitions, the entry sequence beyond R-ABI) is not decided.",
    "technique": "static analysis: abstract interpretation of MIR emission functions + symbolic execution of the emitted instruction templates (syntactic equality, no solver)",
}
META["C08"] = {
    "level": "Translation validation of the RISC-V instruction-selection templates, statically: emission functions are abstractly "
             "interpreted (MIR facts) into instruction lists for every reachable placement class, and each list is checked on a "
             "symbolic machine against the AxCut step it implements; the print call sites (R-ABI) and the parallel-move guard "
             "(R-CYCLE: scratch register / reserved slot exactness over all small move trees) of this backend are included. Golden tests pin text for 8 programs with everything in "
             "registers; spill arms, rdx/rax special cases and large literals are covered here.",
    "design_ref": "DESIGN.md §4 C06-C08 (R-ENUM backend segment, R-SPILL realised as symbolic template validation), §3 R-IMM",
    "note": "Arithmetic, comparison, move and literal templates, dispatch tables, and - R-MEM - the memory-management sequences "
            "(store/load of 0..7 values across linked blocks, share, erase, acquire with both free lists, lazy erasure of children) "
            "validated on every path of the emitted code against a reference semantics of the reference-counting scheme, for "
            "contexts straddling the register/spill boundary; R-PMOVES (parallel moves over all small assignment maps); and R-STMT: the "
            "generic statement-level code generation instantiated at this backend and validated per statement kind (let, literal, op, "
            "switch incl. dispatch and per-clause loads, create incl. method entry, invoke, if, substitute incl. reference counts) "
            "against the AxCut machine step, with the context handed to the next statement checked. Whole-program behaviour (that "
            "the steps compose: label resolution across definitions, the entry sequence beyond R-ABI) is not decided. The RISC-V backend cannot print (see C18/C12 known finding).",
    "technique": "static analysis: abstract interpretation of MIR emission functions + symbolic execution of the emitted instruction templates (syntactic equality, no solver)",
}
META["C13"] = {
    "level": "Exhaustive over the finite classes that determine the emitted save/align/call/restore sequence (environment size, "
             "chirality pattern of the caller-saved window, argument placement, newline) and over all entry-argument counts: each "
             "class's instruction list is obtained by abstract interpretation of the generator's MIR and checked on a symbolic "
             "machine against the platform ABI. Found and repaired: AArch64 link register not saved with exactly 13 live variables.",
    "design_ref": "DESIGN.md §4 C13 (R-ABI-*)",
    "note": "Decides the print call sites and the routine frame; does not decide liveness of generated code beyond the variable "
            "environment (every environment position is treated as live).",
    "technique": "static analysis: abstract interpretation of emission functions (MIR facts) + symbolic machine with ABI clobber model",
}
META["C11"] = {
    "level": "Per-backend semantic validation, by abstract interpretation + symbolic machine, of the pieces the generic algorithm "
             "relies on (park/move/restore interplay over all placement combinations, guard exactness over all small trees, mov "
             "templates), plus order/ref-count discipline of Substitute. The spanning-forest algorithm itself is not decided.",
    "design_ref": "DESIGN.md §4 C11 (R-MIRROR, R-SCRATCH, R-ORDER realised semantically)",
    "note": "R-PMOVES decides the simultaneous-assignment semantics itself for every assignment map over 3 temporaries (thorough: 4) in "
            "every register/spill placement: the generic algorithm is folded from MIR at each backend's instance and the emitted "
            "moves are run on the symbolic machine. Larger maps are covered only through the per-piece rules (R-CYCLE guard exactness, "
            "mov templates); the reference-count updates of Substitute are checked for order and count (R-ORDER), not per map.",
    "technique": "static analysis: abstract interpretation of the generic parallel-moves algorithm (MIR, instantiated per backend) over all small assignment maps + symbolic machine; dominator/provenance rules",
}
META["C14"] = {
    "level": "Structural decision over the finite population of label-defining sites (string shapes recovered from MIR, including "
             "format templates), folded stride tables, provenance of the normalised clause vector, and encodability checks on the "
             "folded instruction templates for boundary literals. Found and repaired: imm64 store to a spill slot (x86-64) and a "
             "lifted label colliding with a user definition.",
    "design_ref": "DESIGN.md §3 R-LABEL/R-STRIDE/R-JTORDER/R-IMM, §4 C14",
    "note": "Partial: label uniqueness is argued per class (shape + counter + freshness helper), instruction-form validity only for "
            "immediates, offsets and the forms the ISA table knows.",
    "technique": "static analysis: MIR string-shape recovery, constant folding of table functions, collection provenance, symbolic machine encodability checks",
}
META["C20"] = {
    "level": "Abstract interpretation of the C print primitives over the full 64-bit range (all i64 values at once, where tests sample "
             "boundaries), structural checks of the driver template and its instantiation, and the folded argument shuffles for all "
             "supported parameter counts. Found and repaired: INT64_MIN negation overflow, atoi truncation.",
    "design_ref": "DESIGN.md §4 C20 (R-CINT, R-NEEDLE, R-ARG64, R-ARGC, R-ARGMOV, R-RET)",
    "note": "Decimal correctness of the print primitives is decided in full for all int64 values (sign, weight of every digit, number of "
            "digits, newline, exact write range) by the relational abstract interpreter; helper functions, loops and chunked variants are "
            "followed, code it cannot follow is an analysis error, never a violation. The C library and OS are trusted.",
    "technique": "static analysis: interval + relational (x = (|v| div D) mod m) abstract interpretation over clang's JSON AST with inlining and loop unrolling, template/needle counting, folded emission lists on the symbolic machine",
}
META["C15"] = {
    "level": "Error-discipline rules over the resolved program of the checker (dominators, provenance, typestate), enumerating every "
             "zip, insert, look-up and Result-producing call site: the ways a single ill-typed edit can slip through are closed "
             "structurally rather than sampled by mutation of test programs.",
    "design_ref": "DESIGN.md §4 C15 (R-ZIP, R-DUP, R-NODUP, R-LOOKUP, R-RESULT)",
    "note": "Mostly the rejection side: R-LOOKUP folds lookup_var/lookup_covar over every context of up to 3 bindings (shadowing table); "
            "R-CHECKALL requires every accepting path of a check function to have looked at every term/type/argument part of the "
            "construct (found and repaired: type arguments inside declarations were never checked). One acceptance-side rule: "
            "R-INSTANCE - instance tables are consulted only after the instance was created or found (found and repaired: a "
            "constructor or comatch at a type not instantiated yet was rejected as undefined). That every well-typed program is "
            "accepted, and type equality itself, are otherwise not decided.",
    "technique": "static analysis: dominator/provenance rules on MIR call sites, path-sensitive must-use dataflow per variant, must-pass-through (establishing blocks) reachability, abstract interpretation of the lookup functions, call-graph panic inventory",
}
META["C16"] = {
    "level": "Static agreement of two sibling tables (printer and grammar) over all node kinds and all their variant/Option/emptiness "
             "cases, including the lexer's longest-match behaviour at every token/hole boundary. Reports the genuine `-0`/`(0)` "
             "zero-comparison confusion as known findings.",
    "design_ref": "DESIGN.md §4 C16 (R-PGRAM, R-LEX, R-TRAV/Print)",
    "note": "Narrow: token-level agreement; equality of trees over layouts and idempotence of printing are consequences under the "
            "trusted layout engine, not enumerated. R-LITFMT folds the literal printer on boundary literals and re-lexes the text with the "
            "grammar's terminals.",
    "technique": "static analysis: abstract interpretation of Print impls into templates, grammar reader, longest-match lexer model",
}

NOT_APPLICABLE = {
    "C09": "Run-time heap invariant of *generated* code at every statement boundary of every execution; no path property of the "
           "compiler's source corresponds to it and no sound static argument in reach bounds it (DESIGN.md §4 C09/C10).",
    "C10": "Run-time space bound of generated code over unbounded executions; outside what a static analysis of the compiler source "
           "can decide (DESIGN.md §4 C09/C10).",
}
# properties whose checks are not built yet are listed here until their rules exist (kept current by bin/gen-manifest)
PENDING = "check not built yet in this round; planned rules are in DESIGN.md §4"
for _p in []:
    NOT_APPLICABLE.setdefault(_p, PENDING)

# rules added on 2026-09-26 (sixth to eighth seeded batch, third refactoring batch): what each adds to the note of its property
_ADDED = {
    "C02": " R-XLATE reads the translation scheme of every simple term form off the folded compile_with_cont; R-SHAREPATH (share adds the lifted "
           "definition on every path or hands its argument back), R-SORTMAP, R-ETA (no eta-contraction without a free-variable test); R-SEED: no name is drawn before the body's binders are in the set.",
    "C03": " R-COUNTER (a lent copy of the identifier counter is read again), R-SORTMAP (sort-to-sort tables are the identity, the mirror image or "
           "the complement and match what the caller exchanges), R-ETA, R-FOCUSCUT (a cut of two sides that are no xtors or operations focuses "
           "to the cut of the focused sides, for every pair of shapes), R-BINDSEQ (bind_many gets the argument list as it stands).",
    "C04": " R-CUTKIND declares the free variables of its symbolic bodies per variant and judges critical pairs for evaluation order; R-USEALL treats "
           "the sub-terms of a by-value node as inputs of their own; R-COUNTER, R-SHAREPATH, R-SORTMAP, R-ETA, R-LIFTSTORE, R-LABEL; renaming chains, eta-expansions and the clauses generated for "
           "critical pairs are folded on concrete declarations.",
    "C13": " Two prints in a row are generated onto each other (with the statement comment in between) and executed symbolically.",
    "C16": " R-PSPAN: no printer of the Fun syntax tree reads a source span.",
    "C05": " R-LINCTX also folds Literal, Op and PrintI64::linearize over every environment of up to three variables.",
    "C11": " R-MEMRC: share_block_n / erase_block of register and spilled temporaries against the reference-counting scheme; the substitute cases "
           "include a variable of an enumeration type (null first temporary).",
    "C12": " R-TYWF, R-LINSUBST and R-LINCTX (well-scopedness after linearization), R-IDXGUARD, R-ETA, R-TYRULE (binders of a clause stay in that clause), R-SEED.",
    "C14": " R-REGFILE (every environment position gets an existing, unreserved, distinct location); clause order is decided by R-TYRULE's "
           "Case/New judgements; R-NAMEPRINT (no line-break opportunity inside a printed name).",
    "C15": " R-TYRULE folds the typing rule of every term form, including Case and New over every clause list of up to three clauses (accepted iff "
           "one clause per xtor; clauses in declaration order) and argument lists of length 0-2; R-TYWF; R-KEYED; R-NAMEEQ (names are compared whole).",
    "C17": " R-TRUNC (artefacts are written into empty files); R-AMBIENT also covers the command line and the driver; R-CACHEKEY (the driver's caches are keyed by the "
           "whole path, not by a projection of it, helpers followed).",
    "C18": " R-IDXGUARD (a length test in front of a constant index covers it); R-FVSCOPE, R-TYWF and R-TYRULE guard invariants whose loss ends in "
           "a panic of a later stage; R-NAMEPRINT; R-NEGRANGE (a value cast from an unsigned integer is negated only "
           "below 2^(N-1)).",
    "C19": " R-ONCE (lift translates what it shares once), R-LIFTSTORE (the collection of lifted definitions is only added to), R-SHAREPATH, "
           "R-XLATE (a continuation is placed where the translation scheme places it, not substituted into several positions).",
    "C20": " The print-call classes of R-ABI are part of the check (live variables survive the print primitives); R-TEMPLATE reads strto* conversions with "
           "their base (10); R-DEFFIRST (the first definition of the program stays main when a statement is lifted out of it).",
}
for _k, _v in _ADDED.items():
    if _k in META and _v not in META[_k].get("note", ""):
        META[_k]["note"] = META[_k].get("note", "") + _v
