"""Backend tables folded from the repository's own code: register names, printed instruction templates, emission lists."""
import re

from . import docmodel, interp
from .facts import AnalysisError
from .interp import Adt, Sym, Vec

BACKENDS = {
    "x86_64": {"crate": "axcut2x86_64", "routine": "into_x86_64_routine"},
    "aarch64": {"crate": "axcut2aarch64", "routine": "into_aarch64_routine"},
    "rv64": {"crate": "axcut2rv64", "routine": "into_rv64_routine"},
}


def code_adt(b):
    return BACKENDS[b]["crate"] + "::code::Code"


def reg_adt(b):
    return BACKENDS[b]["crate"] + "::config::Register"


_LABELS = [0]


def label_counter_fns(fx):
    """the functions that hand out label numbers, by what they do: no parameter, a usize result, and a mutable static of the code
    generator's crate in their body (fresh_labels::fresh_label on the pinned tree)"""
    got = getattr(fx, "_label_counter_fns", None)
    if got is None:
        muts = {s["path"] for s in fx.statics if s["crate"] == "axcut2backend" and (s["mut"] or not s["freeze"])}
        got = set()
        for key, f in fx.fns.items():
            if f["crate"] != "axcut2backend" or "{" in key or f["argc"] != 0 or f["locals"][0]["ty"] != "usize":
                continue
            for b in f["blocks"]:
                for st in b["stmts"]:
                    if st["k"] != "assign":
                        continue
                    rv = st["rv"]
                    ops = [rv.get(k) for k in ("op", "a", "b")] + list(rv.get("ops", []))
                    if any(isinstance(o, dict) and o.get("k") == "const" and (o.get("static") in muts or o.get("def") in muts) for o in ops):
                        got.add(key)
        fx._label_counter_fns = got
    return got


def label_hook(I, p, fr, t, args):
    """model of axcut2backend::fresh_labels::fresh_label (a `static mut` counter): a number distinct from all earlier ones"""
    ck = t.get("resolved_key") or t.get("callee_key") or ""
    if ck in label_counter_fns(I.fx):
        _LABELS[0] += 1
        return _LABELS[0]
    return NotImplemented


def fold(ctx, key, args, hooks=(), **kw):
    """kw: max_depth, max_paths, max_steps, type_env (generic parameter -> ADT for generic workspace functions)"""
    kw.setdefault("max_depth", 14)
    I = interp.Interp(ctx.fx, hooks=[docmodel.doc_hook, label_hook] + list(hooks), **kw)
    return I, I.run(ctx.fx.fn(key), args)


def register_names(ctx, b):
    """internal register value (repr) -> printed name, folded from `Print for Register`"""
    def build():
        fx = ctx.fx
        adt = reg_adt(b)
        A = fx.adts.get(adt)
        if not A:
            raise AnalysisError("register ADT missing for " + b)
        key = "<%s as scc_printer::types::Print>::print" % adt
        out = {}
        for v in A["variants"]:
            rng = range(0, 32) if v["fields"] else [None]
            for n in rng:
                val = Adt(adt, v["name"], {"0": n} if n is not None else {})
                _, outs = fold(ctx, key, [val, Sym("cfg"), Sym("alloc")])
                if len(outs) == 1 and isinstance(outs[0].result, docmodel.Doc):
                    out[repr(val)] = docmodel.render(outs[0].result)
        return out
    return ctx.memo("regnames-" + b, build)


def code_templates(ctx, b):
    """Code variant -> printed template with <f0>,<f1>.. placeholders, folded from `Print for Code`"""
    def build():
        fx = ctx.fx
        adt = code_adt(b)
        A = fx.adts.get(adt)
        if not A:
            raise AnalysisError("Code ADT missing for " + b)
        key = "<%s as scc_printer::types::Print>::print" % adt
        out = {}
        for v in A["variants"]:
            fields = {f["name"]: Sym("f" + f["name"]) for f in v["fields"]}
            val = Adt(adt, v["name"], fields)
            _, outs = fold(ctx, key, [val, Sym("cfg"), Sym("alloc")])
            res = [o.result for o in outs if isinstance(o.result, docmodel.Doc)]
            if len(res) != 1:
                out[v["name"]] = None
                continue
            out[v["name"]] = {"text": docmodel.render(res[0]).replace("<$f", "<f"), "fields": [(f["name"], f["ty"]) for f in v["fields"]]}
        return out
    return ctx.memo("templates-" + b, build)


def parse_template(text):
    """'    mov [<f1> + <f2>], <f0>' -> ('mov', [('mem', 'f1', 'f2'), ('op', 'f0')]); directives/labels -> (None, ...)"""
    s = text.strip()
    if not s:
        return None, []
    m = re.match(r"([A-Za-z_.][A-Za-z0-9_. ]*?)(?:\s+(.*))?$", s)
    if not m:
        return None, [s]
    mn = m.group(1).strip()
    rest = m.group(2) or ""
    # mnemonics like 'mov qword', 'jmp near', 'add qword'
    ops = []
    depth = 0
    cur = ""
    for ch in rest:
        if ch == "[":
            depth += 1
        if ch == "]":
            depth -= 1
        if ch == "," and depth == 0:
            ops.append(cur.strip())
            cur = ""
        else:
            cur += ch
    if cur.strip():
        ops.append(cur.strip())
    parsed = []
    for o in ops:
        mm = re.fullmatch(r"\[\s*(?:rel\s+)?<(f\d)>\s*(?:[+,]\s*<(f\d)>)?\s*\]!?", o)
        if mm:
            parsed.append(("mem", mm.group(1), mm.group(2), o))
            continue
        mm = re.fullmatch(r"<(f\d)>", o)
        if mm:
            parsed.append(("op", mm.group(1)))
            continue
        parsed.append(("lit", o))
    return mn, parsed


def fold_verdict(outs_all, what):
    """Interpretation of a fold that did not yield exactly one normal result.
    All paths diverge (the folded function panics on this input): returns a message - that is a property of the code under analysis.
    Anything else (unknown values forked the path, several results): the analysis cannot follow the code - AnalysisError, never a
    violation."""
    normal = [o for o in outs_all if not getattr(o, "diverged", None)]
    if len(normal) == 1:
        return None
    if not normal and outs_all:
        d = outs_all[0].diverged
        why = ""
        if isinstance(d, dict):
            why = " (%s at %s:%s)" % (d.get("callee_name") or "diverges", (d.get("sp") or {}).get("file"), (d.get("sp") or {}).get("line"))
        return "%s: the function panics on this input%s" % (what, why)
    raise AnalysisError("%s could not be folded (%d normal paths of %d): the analysis cannot follow this code" % (what, len(normal), len(outs_all)))
